//! C05 evaluated directly on the real editor: a shadow list/cursor model of the pre-edit buffer,
//! written from the property statement only (no code shared with the editor or the Lean model).
//!
//! * after EVERY operation: cursor <= buffer length;
//! * keys handled in `Entering`: Backspace removes the symbol before the cursor, Delete the symbol at
//!   it, Left/Right/Home/End/PageUp/PageDown move only the cursor, every character key leaves the
//!   buffer alone or inserts characters exactly at the cursor (cursor behind them);
//! * keys handled in `EnteringSyllable`: the buffer is untouched or exactly one syllable is inserted
//!   at the cursor and the cursor advances by one (Esc with esc_clear_all_buffer may clear it);
//! * after every key that ends in `Entering` with Absorb or Commit the buffer is no longer than
//!   auto_commit_threshold; an auto-commit removes a prefix only (cursor shifted, saturating).
use crate::step::*;
use chewing::editor::keyboard::KeyCode;
use std::cell::Cell;
use vharness::Out;

thread_local! {
    /// (keys typed with the buffer >= 2 over the limit, easy-symbol expansions typed at limit / limit-1,
    ///  auto-commits that removed >= 2 symbols at once)
    static STATS: Cell<(u64, u64, u64)> = const { Cell::new((0, 0, 0)) };
}

pub fn finish(out: &mut Out) {
    let (b, a, multi) = STATS.with(|s| s.get());
    out.stat("c05_keys_with_buffer_2_or_more_over_limit", b);
    out.stat("c05_two_char_expansions_at_or_next_to_limit", a);
    out.stat("c05_auto_commits_removing_2_or_more", multi);
}

fn opt(snap: &str, i: usize) -> usize {
    sections(snap)[4].split(' ').nth(i).unwrap().parse().unwrap()
}

fn cur(snap: &str) -> usize {
    com_tokens(snap)[0].parse().unwrap()
}

/// does `post` equal the expected buffer, directly or after an auto-commit cut a prefix off?
fn after_tail(exp: &[String], exp_cur: usize, post: &[&str], post_cur: usize, thr: usize, ret: &str) -> bool {
    if exp.len() == post.len() && exp.iter().zip(post).all(|(a, b)| a == b) && exp_cur == post_cur {
        return exp.len() <= thr || ret != "A" && ret != "C";
    }
    if ret != "C" || exp.len() <= thr || post.len() >= exp.len() {
        return false;
    }
    let r = exp.len() - post.len();
    exp[r..].iter().zip(post).all(|(a, b)| a == b) && post_cur == exp_cur.saturating_sub(r) && post.len() <= thr
}

pub fn check(out: &mut Out, st: &Step) {
    let (pre, post) = (st.pre, st.post);
    let (s0, s1) = (symbols(pre), symbols(post));
    let (c0, c1) = (cur(pre), cur(post));
    if c1 > s1.len() {
        out.oracle_fail("C05", "new", &format!("cursor {} beyond the buffer length {} after: {}", c1, s1.len(), st.hist()));
    }
    let ev = match st.key {
        Some(ev) => ev,
        None => return,
    };
    let thr = opt(pre, 6);
    let state0 = sections(pre)[0].as_bytes()[0];
    let state1 = sections(post)[0].as_bytes()[0];
    {
        let over2 = s0.len() >= thr + 2;
        let expands = state0 == b'E' && opt(pre, 0) == 1 && opt(pre, 8) == 0 && !ev.modifiers.numlock
            && (ev.unicode == 'a' || ev.unicode == 'Z') && s0.len() <= thr && s0.len() + 1 >= thr;
        let multi = st.ret == "C" && state1 == b'E' && !s0.is_empty() && s1.len() + 2 <= s0.len() + if expands { 2 } else { 0 } && ev.code != KeyCode::Enter;
        STATS.with(|s| {
            let (b, a, m) = s.get();
            s.set((b + over2 as u64, a + expands as u64, m + multi as u64));
        });
    }
    if state1 == b'E' && (st.ret == "A" || st.ret == "C") && s1.len() > thr {
        out.oracle_fail("C05", "new", &format!("buffer length {} > auto_commit_threshold {} after a handled key: {}", s1.len(), thr, st.hist()));
    }
    let own = |v: &[&str]| -> Vec<String> { v.iter().map(|s| s.to_string()).collect() };
    let n = s0.len();
    use KeyCode::*;
    if state0 == b'E' {
        // (expected symbols, expected cursor), None = no exact expectation for this key
        let exp: Option<(Vec<String>, usize)> = match ev.code {
            Backspace => {
                let mut v = own(&s0);
                if n > 0 && c0 > 0 {
                    v.remove(c0 - 1);
                    Some((v, c0 - 1))
                } else {
                    Some((v, c0))
                }
            }
            Del => {
                let mut v = own(&s0);
                if c0 < n {
                    v.remove(c0);
                }
                Some((v, c0))
            }
            Home if n > 0 => Some((own(&s0), 0)),
            Left if n > 0 && !ev.modifiers.shift => Some((own(&s0), c0.saturating_sub(1))),
            Right if n > 0 && !ev.modifiers.shift => Some((own(&s0), (c0 + 1).min(n))),
            End | PageUp | PageDown if n > 0 => Some((own(&s0), n)),
            _ => None,
        };
        if let Some((v, c)) = exp {
            if !after_tail(&v, c, &s1, c1, thr, st.ret) {
                out.oracle_fail("C05", "new", &format!(
                    "{:?} in Entering: expected buffer [{}] cursor {} (or a prefix cut by auto-commit), got [{}] cursor {}: {}",
                    ev.code, v.join(" "), c, s1.join(" "), c1, st.hist()));
            }
        } else if (ev.code as u8) >= 1 && (ev.code as u8) <= 48 && state1 == b'E' {
            // a character key: unchanged, or k >= 1 characters inserted exactly at the cursor
            let mut ok = false;
            for k in 0..=8usize {
                if s1.len() != n + k || c1 != c0 + k {
                    continue;
                }
                let head_same = s1[..c0].iter().zip(&s0[..c0]).all(|(a, b)| a == b);
                let tail_same = s1[c0 + k..].iter().zip(&s0[c0..]).all(|(a, b)| a == b);
                let block_chars = s1[c0..c0 + k].iter().all(|t| t.starts_with('c'));
                if head_same && tail_same && block_chars {
                    ok = true;
                    break;
                }
            }
            if !ok && st.ret == "C" && n + 8 > thr {
                // an auto-commit followed the insertion: the post buffer must be a suffix of
                // pre[..c0] ++ block ++ pre[c0..] for some block of k characters
                for k in 0..=8usize {
                    let total = n + k;
                    if s1.len() >= total || total <= thr {
                        continue;
                    }
                    let r = total - s1.len();
                    // position i of the post buffer is position i + r of the grown buffer
                    let mut good = s1.len() <= thr && c1 == (c0 + k).saturating_sub(r);
                    for (i, t) in s1.iter().enumerate() {
                        let j = i + r;
                        let want: Option<&str> = if j < c0 { Some(s0[j]) } else if j < c0 + k { None } else { Some(s0[j - k]) };
                        match want {
                            Some(w) => good &= *t == w,
                            None => good &= t.starts_with('c'),
                        }
                    }
                    if good {
                        ok = true;
                        break;
                    }
                }
            }
            if !ok {
                out.oracle_fail("C05", "new", &format!(
                    "character key {:?} in Entering neither left the buffer alone nor inserted at the cursor {}: [{}] -> [{}] cursor {}: {}",
                    ev.code, c0, s0.join(" "), s1.join(" "), c1, st.hist()));
            }
        } else if state1 != b'E' && !(s0.len() == s1.len() && s0.iter().zip(&s1).all(|(a, b)| a == b)) {
            out.oracle_fail("C05", "new", &format!("leaving Entering changed the buffer: [{}] -> [{}]: {}", s0.join(" "), s1.join(" "), st.hist()));
        }
    } else if state0 == b'Y' {
        let same = if state1 == b'E' {
            after_tail(&own(&s0), c0, &s1, c1, thr, st.ret) || (n == s1.len() && s0.iter().zip(&s1).all(|(a, b)| a == b) && c1 == c0)
        } else {
            n == s1.len() && s0.iter().zip(&s1).all(|(a, b)| a == b) && c1 == c0
        };
        let cleared = ev.code == Esc && opt(pre, 1) == 1 && s1.is_empty();
        let mut one = false;
        let mut v = own(&s0);
        // one syllable inserted at the cursor (the token itself is taken from the post buffer)
        if state1 == b'E' || state1 == b'S' || state1 == b'Y' {
            if s1.len() == n + 1 && c0 < s1.len() && s1[c0].starts_with('s') {
                v.insert(c0, s1[c0].to_string());
                one = (state1 != b'E' && own(&s1) == v && c1 == c0 + 1) || (state1 == b'E' && after_tail(&v, c0 + 1, &s1, c1, thr, st.ret));
            } else if state1 == b'E' && st.ret == "C" && n + 1 > thr && s1.len() <= n {
                // inserted, then a prefix was auto-committed: reconstruct with a wildcard syllable
                let r = n + 1 - s1.len();
                let mut good = s1.len() <= thr && c1 == (c0 + 1).saturating_sub(r);
                for (i, t) in s1.iter().enumerate() {
                    let j = i + r;
                    if j < c0 { good &= *t == s0[j] } else if j == c0 { good &= t.starts_with('s') } else { good &= *t == s0[j - 1] }
                }
                one = good;
            }
        }
        if !(same || cleared || one) {
            out.oracle_fail("C05", "new", &format!(
                "key {:?} in EnteringSyllable: buffer [{}] cursor {} -> [{}] cursor {} is neither unchanged nor one syllable inserted at the cursor: {}",
                ev.code, s0.join(" "), c0, s1.join(" "), c1, st.hist()));
        }
    }
}
