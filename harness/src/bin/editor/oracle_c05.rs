//! C05 evaluated directly on the real editor: a shadow list/cursor model of the pre-edit buffer,
//! written from the property statement only (no code shared with the editor or the Lean model).
//!
//! * after EVERY operation: cursor <= buffer length;
//! * keys handled in `Entering`: Backspace removes the symbol before the cursor, Delete the symbol at
//!   it, Left/Right/Home/End/PageUp/PageDown move only the cursor, every character key leaves the
//!   buffer alone or inserts characters exactly at the cursor (cursor behind them);
//! * keys handled in `EnteringSyllable`: the buffer is untouched or exactly one syllable is inserted
//!   at the cursor and the cursor advances by one (Esc with esc_clear_all_buffer may clear it);
//! * THE BOUND, after EVERY key answered Absorb or Commit, in whatever state it ends: in `Entering` and in
//!   `EnteringSyllable` the buffer is no longer than auto_commit_threshold (the limit in force); while a candidate
//!   list is open or a range is highlighted it is no longer than the largest limit in force since the last
//!   auto-commit opportunity plus one (the simple engine opens its one-word list before the auto-commit; the limit
//!   may have been lowered in mid-composition - the longer buffer stays until the next absorbed key); the same after
//!   a `select` call that closes the list.  (Until the FX3/FX4 repair the code, and this oracle, enforced the limit
//!   only after keys ending in `Entering`: a fuzzy key inserting in `EnteringSyllable`, and the first key after a
//!   list closed by `cancel_selecting`, went unchecked and the buffer grew without bound.)  An auto-commit removes
//!   a prefix only (cursor shifted, saturating).
//! * candidate lists (cursor save / restore around a selection), a shadow FRAME per open list, kept across steps:
//!   the frame remembers buffer and cursor of the moment the list was opened (by a key or by `start_selecting`);
//!   however the list is closed WITHOUT choosing (Esc, Up, Backspace, CapsLock, `cancel_selecting`, a call that empties
//!   the list) buffer and cursor are those of the frame; a symbol chosen from the symbol table opened with the
//!   backquote key is inserted exactly at the frame's cursor and the cursor advances by one; a phrase chosen keeps
//!   every symbol and puts the cursor back (one further with auto_shift_cursor); a symbol chosen for replacement
//!   changes only the symbol under the list's cursor and puts the cursor back.  A cursor saved by an EARLIER list and
//!   never restored shows here as a cursor that jumps when a later list is closed.
use crate::step::*;
use chewing::editor::keyboard::KeyCode;
use std::cell::{Cell, RefCell};
use vharness::Out;

/// the shadow of an open candidate list
struct Frame {
    sid: u64,
    /// cursor and buffer at the moment the list was opened
    c_open: usize,
    buf: Vec<String>,
    /// opened with the backquote key: the symbol table, whose leaves are INSERTED at the cursor
    insert_list: bool,
    /// j / k / a jump call moved the list to another symbol while it was open
    moved: bool,
    /// the language mode changed while the list stayed open, for the statistics
    mode_toggled: bool,
}

#[derive(Default)]
struct FrameStats {
    opened: u64,
    opened_at_end: u64,
    left: u64,
    left_by_capslock: u64,
    left_by_esc: u64,
    left_by_api_or_revalidate: u64,
    chosen_insert: u64,
    chosen_phrase: u64,
    chosen_replace: u64,
    skipped_moved_insert_list: u64,
    mode_change_while_open: u64,
    after_mode_close_symbol_insert: u64,
    after_mode_close_esc: u64,
    after_mode_close_choice: u64,
}

thread_local! {
    static FRAME: RefCell<Option<Frame>> = const { RefCell::new(None) };
    static FSTATS: RefCell<FrameStats> = RefCell::new(FrameStats::default());
    /// (session, a list of this session was closed by CapsLock / a language-mode change earlier)
    static MODE_CLOSED: Cell<(u64, bool)> = const { Cell::new((u64::MAX, false)) };
}

thread_local! {
    /// (session, largest limit in force since the last auto-commit opportunity)
    static MAXTHR: Cell<(u64, usize)> = const { Cell::new((u64::MAX, 0)) };
    /// (bound evaluated after a key ending in EnteringSyllable, ... ending under a list / highlight,
    ///  fuzzy insertions in EnteringSyllable followed by an auto-commit, auto-commits at a key that goes
    ///  Entering -> EnteringSyllable (what a closed list or a lowered limit left over), keys/calls after which the
    ///  buffer is one over the limit in Entering (list closed by an API call), bound evaluated after a select call)
    static BSTATS: Cell<[u64; 6]> = const { Cell::new([0; 6]) };
}

fn bstat(i: usize) {
    BSTATS.with(|s| {
        let mut v = s.get();
        v[i] += 1;
        s.set(v);
    });
}

thread_local! {
    /// (keys typed with the buffer >= 2 over the limit, easy-symbol expansions typed at limit / limit-1,
    ///  auto-commits that removed >= 2 symbols at once)
    static STATS: Cell<(u64, u64, u64)> = const { Cell::new((0, 0, 0)) };
}

pub fn finish(out: &mut Out) {
    let (b, a, multi) = STATS.with(|s| s.get());
    out.stat("c05_keys_with_buffer_2_or_more_over_limit", b);
    out.stat("c05_two_char_expansions_at_or_next_to_limit", a);
    out.stat("c05_auto_commits_removing_2_or_more", multi);
    let b = BSTATS.with(|s| s.get());
    out.stat("c05_bound_checked_after_key_ending_in_entering_syllable", b[0]);
    out.stat("c05_bound_checked_after_key_ending_under_list_or_highlight", b[1]);
    out.stat("c05_fuzzy_insertions_in_entering_syllable_followed_by_auto_commit", b[2]);
    out.stat("c05_auto_commits_at_key_from_entering_to_entering_syllable", b[3]);
    out.stat("c05_steps_leaving_entering_one_over_the_limit_by_api_call", b[4]);
    out.stat("c05_bound_checked_after_select_call", b[5]);
    crate::script_c05::finish(out);
    FSTATS.with(|f| {
        let f = f.borrow();
        out.stat("c05_list_frames_opened", f.opened);
        out.stat("c05_list_frames_opened_at_end_of_buffer", f.opened_at_end);
        out.stat("c05_list_frames_left_without_choosing", f.left);
        out.stat("c05_list_frames_left_by_capslock", f.left_by_capslock);
        out.stat("c05_list_frames_left_by_esc", f.left_by_esc);
        out.stat("c05_list_frames_left_by_api_or_emptied", f.left_by_api_or_revalidate);
        out.stat("c05_list_frames_symbol_inserted_from_table", f.chosen_insert);
        out.stat("c05_list_frames_phrase_chosen", f.chosen_phrase);
        out.stat("c05_list_frames_symbol_replaced", f.chosen_replace);
        out.stat("c05_list_frames_skipped_moved_symbol_table", f.skipped_moved_insert_list);
        out.stat("c05_list_frames_mode_or_option_change_while_open", f.mode_change_while_open);
        out.stat("c05_after_list_closed_by_or_under_mode_change_symbol_table_insert", f.after_mode_close_symbol_insert);
        out.stat("c05_after_list_closed_by_or_under_mode_change_esc_from_list", f.after_mode_close_esc);
        out.stat("c05_after_list_closed_by_or_under_mode_change_choice", f.after_mode_close_choice);
    });
}

/// `post` = `pre` with ONE token of class `cls` inserted at `at` and the cursor behind it - directly, or after an
/// auto-commit cut a prefix off
fn one_inserted(pre: &[String], at: usize, post: &[&str], post_cur: usize, thr: usize, ret: &str, cls: char) -> bool {
    let n = pre.len();
    if at > n {
        return false;
    }
    if post.len() == n + 1 {
        if !post[at].starts_with(cls) {
            return false;
        }
        let mut v = pre.to_vec();
        v.insert(at, post[at].to_string());
        return after_tail(&v, at + 1, post, post_cur, thr, ret);
    }
    if ret == "C" && n + 1 > thr && post.len() <= n {
        let r = n + 1 - post.len();
        let mut good = post.len() <= thr && post_cur == (at + 1).saturating_sub(r);
        for (i, t) in post.iter().enumerate() {
            let j = i + r;
            if j < at { good &= *t == pre[j] } else if j == at { good &= t.starts_with(cls) } else { good &= *t == pre[j - 1] }
        }
        return good;
    }
    false
}

/// the candidate-list frames (see the module comment); runs for EVERY operation, keys and calls
fn frames(out: &mut Out, st: &Step, s0: &[&str], s1: &[&str], c0: usize, c1: usize) {
    use KeyCode::*;
    let (pre, post) = (st.pre, st.post);
    let state0 = sections(pre)[0].as_bytes()[0];
    let state1 = sections(post)[0].as_bytes()[0];
    let opname = st.op.split(' ').next().unwrap_or("");
    let own = |v: &[&str]| -> Vec<String> { v.iter().map(|s| s.to_string()).collect() };
    let mut fr = FRAME.with(|f| f.borrow_mut().take()).filter(|f| f.sid == st.sid);
    if MODE_CLOSED.with(|m| m.get().0) != st.sid {
        MODE_CLOSED.with(|m| m.set((st.sid, false)));
    }
    let mode_closed_before = MODE_CLOSED.with(|m| m.get().1);
    if state0 != b'S' {
        fr = None;
        if state1 == b'S' {
            let info = sel_info(post).unwrap();
            let same = s0.len() == s1.len() && s0.iter().zip(s1).all(|(a, b)| a == b);
            // simple engine: the completed syllable is inserted and the list opened on it in one step
            let grew = state0 == b'Y' && s1.len() == s0.len() + 1 && c1 == c0 + 1;
            if same || grew {
                let c_open = if same { c0 } else { c1 };
                FSTATS.with(|f| {
                    let mut f = f.borrow_mut();
                    f.opened += 1;
                    if c_open == s1.len() {
                        f.opened_at_end += 1;
                    }
                });
                fr = Some(Frame { sid: st.sid, c_open, buf: own(s1), insert_list: info.kind == 'M' && info.action == 'I', moved: false, mode_toggled: false });
            }
        }
        FRAME.with(|f| *f.borrow_mut() = fr);
        return;
    }
    let Some(mut f) = fr else { return };
    let lang_changed = opt(pre, 8) != opt(post, 8);
    // j / k / a jump call move the list to another symbol (and close it when that symbol has nothing to list)
    if matches!(st.key, Some(ev) if ev.code == J || ev.code == K) || opname == "jump" {
        f.moved = true;
    }
    if state1 == b'S' {
        // still open: remember whether the mode / an option changed under it
        if lang_changed || opname == "setopts" {
            // (a list that stayed open under a language-mode change counts as "closed under a mode change" later)
            f.mode_toggled |= lang_changed;
            FSTATS.with(|x| x.borrow_mut().mode_change_while_open += 1);
        }
        let same = s0.len() == s1.len() && s0.iter().zip(s1).all(|(a, b)| a == b);
        if !same {
            out.oracle_fail("C05", "new", &format!("the buffer changed while the candidate list stayed open: [{}] -> [{}]: {}", s0.join(" "), s1.join(" "), st.hist()));
        } else {
            FRAME.with(|x| *x.borrow_mut() = Some(f));
        }
        return;
    }
    // the list is closed by this operation
    if opname == "clear" {
        return;
    }
    let thr = opt(pre, 6);
    // API calls answer ok / err: what matters for the tail is whether the call ended in the overflow path
    let ret = if st.key.is_some() { st.ret } else if misc(post)[0] == "C" { "C" } else { "ok" };
    let choosing = match st.key {
        Some(ev) => (ev.code as u8) >= (N1 as u8) && (ev.code as u8) <= (N0 as u8) && !ev.modifiers.ctrl && !ev.modifiers.shift,
        None => opname == "select",
    };
    // (FX1 repair: a category of the symbol table without symbols has nothing to list - choosing it closes the list
    // without a choice)
    let choosing = choosing && !crate::oracle_c07::chose_empty_category(st);
    if f.insert_list && f.moved {
        // the symbol table opened with ` saves no cursor; after j / k it is a list on another symbol
        FSTATS.with(|x| x.borrow_mut().skipped_moved_insert_list += 1);
        return;
    }
    let capslock = matches!(st.key, Some(ev) if ev.code == Unknown && ev.modifiers.capslock);
    if capslock || lang_changed || f.mode_toggled {
        MODE_CLOSED.with(|m| m.set((st.sid, true)));
    }
    let n = f.buf.len();
    if !choosing {
        FSTATS.with(|x| {
            let mut x = x.borrow_mut();
            x.left += 1;
            if capslock {
                x.left_by_capslock += 1;
            }
            if matches!(st.key, Some(ev) if ev.code == Esc) {
                x.left_by_esc += 1;
                if mode_closed_before {
                    x.after_mode_close_esc += 1;
                }
            }
            if st.key.is_none() {
                x.left_by_api_or_revalidate += 1;
            }
        });
        if !after_tail(&f.buf, f.c_open, s1, c1, thr, ret) {
            out.oracle_fail("C05", "new", &format!(
                "candidate list left without choosing by `{}`: expected the buffer [{}] and the cursor {} of the moment the list was opened (or a prefix cut by auto-commit), got [{}] cursor {}: {}",
                st.op, f.buf.join(" "), f.c_open, s1.join(" "), c1, st.hist()));
        }
        return;
    }
    let info = sel_info(pre).unwrap();
    if mode_closed_before {
        FSTATS.with(|x| x.borrow_mut().after_mode_close_choice += 1);
    }
    if info.action == 'I' {
        FSTATS.with(|x| {
            let mut x = x.borrow_mut();
            x.chosen_insert += 1;
            if mode_closed_before {
                x.after_mode_close_symbol_insert += 1;
            }
        });
        if !one_inserted(&f.buf, f.c_open, s1, c1, thr, ret, 'c') {
            out.oracle_fail("C05", "new", &format!(
                "symbol chosen from the symbol table: expected one character inserted at the cursor {} of [{}] and the cursor behind it (or a prefix cut by auto-commit), got [{}] cursor {}: {}",
                f.c_open, f.buf.join(" "), s1.join(" "), c1, st.hist()));
        }
    } else if info.kind == 'P' {
        FSTATS.with(|x| x.borrow_mut().chosen_phrase += 1);
        let c = (f.c_open + opt(pre, 3)).min(n);
        if !after_tail(&f.buf, c, s1, c1, thr, ret) {
            out.oracle_fail("C05", "new", &format!(
                "phrase chosen from the list: expected the buffer [{}] unchanged and the cursor {} (saved {} when the list was opened, auto_shift_cursor {}), got [{}] cursor {}: {}",
                f.buf.join(" "), c, f.c_open, opt(pre, 3), s1.join(" "), c1, st.hist()));
        }
    } else {
        FSTATS.with(|x| x.borrow_mut().chosen_replace += 1);
        // only the symbol under the list's cursor may change (to a character), the cursor goes back
        let mut ok = false;
        if c0 < n {
            if s1.len() == n && s1[c0].starts_with('c') {
                let mut v = f.buf.clone();
                v[c0] = s1[c0].to_string();
                ok = after_tail(&v, f.c_open, s1, c1, thr, ret);
            } else if ret == "C" && n > thr && s1.len() < n {
                let r = n - s1.len();
                ok = s1.len() <= thr && c1 == f.c_open.saturating_sub(r);
                for (i, t) in s1.iter().enumerate() {
                    let j = i + r;
                    if j == c0 { ok &= t.starts_with('c') } else { ok &= *t == f.buf[j] }
                }
            }
        }
        if !ok {
            out.oracle_fail("C05", "new", &format!(
                "symbol chosen for replacement: expected only position {} of [{}] to change and the cursor back at {}, got [{}] cursor {}: {}",
                c0, f.buf.join(" "), f.c_open, s1.join(" "), c1, st.hist()));
        }
    }
}

fn opt(snap: &str, i: usize) -> usize {
    sections(snap)[4].split(' ').nth(i).unwrap().parse().unwrap()
}

fn cur(snap: &str) -> usize {
    com_tokens(snap)[0].parse().unwrap()
}

/// does `post` equal the expected buffer, directly or after an auto-commit cut a prefix off?
fn after_tail(exp: &[String], exp_cur: usize, post: &[&str], post_cur: usize, thr: usize, ret: &str) -> bool {
    if exp.len() == post.len() && exp.iter().zip(post).all(|(a, b)| a == b) && exp_cur == post_cur {
        return exp.len() <= thr || ret != "A" && ret != "C";
    }
    if ret != "C" || exp.len() <= thr || post.len() >= exp.len() {
        return false;
    }
    let r = exp.len() - post.len();
    exp[r..].iter().zip(post).all(|(a, b)| a == b) && post_cur == exp_cur.saturating_sub(r) && post.len() <= thr
}

pub fn check(out: &mut Out, st: &Step) {
    let (pre, post) = (st.pre, st.post);
    let (s0, s1) = (symbols(pre), symbols(post));
    let (c0, c1) = (cur(pre), cur(post));
    if c1 > s1.len() {
        out.oracle_fail("C05", "new", &format!("cursor {} beyond the buffer length {} after: {}", c1, s1.len(), st.hist()));
    }
    frames(out, st, &s0, &s1, c0, c1);
    let state0 = sections(pre)[0].as_bytes()[0];
    let state1 = sections(post)[0].as_bytes()[0];
    // ---- the bound (see the module comment)
    {
        let (thr0, thr1) = (opt(pre, 6), opt(post, 6));
        let mut maxthr = match MAXTHR.with(|m| m.get()) {
            (sid, m) if sid == st.sid => m,
            _ => thr0,
        };
        maxthr = maxthr.max(thr0).max(thr1);
        let editing1 = state1 == b'E' || state1 == b'Y';
        let handled = match st.key {
            Some(_) => st.ret == "A" || st.ret == "C",
            // `select` runs the same tail as a key (the choice closes the list: Absorb, then the auto-commit)
            None => st.op.starts_with("select") && st.ret == "ok" && state0 == b'S' && editing1 && matches!(misc(post)[0], "A" | "C"),
        };
        if handled {
            if editing1 {
                if s1.len() > thr1 {
                    out.oracle_fail("C05", "new", &format!(
                        "buffer length {} > auto_commit_threshold {} after a handled {} ending in {}: {}",
                        s1.len(), thr1, if st.key.is_some() { "key" } else { "select call" },
                        if state1 == b'E' { "Entering" } else { "EnteringSyllable" }, st.hist()));
                }
                if state1 == b'Y' {
                    bstat(0);
                }
                if st.key.is_none() {
                    bstat(5);
                }
                if st.key.is_some() && st.ret == "C" && state0 == b'Y' && state1 == b'Y' {
                    bstat(2);
                }
                if st.key.is_some() && st.ret == "C" && state0 == b'E' && state1 == b'Y' {
                    bstat(3);
                }
                maxthr = thr1;
            } else {
                bstat(1);
                if s1.len() > maxthr + 1 {
                    out.oracle_fail("C05", "new", &format!(
                        "buffer length {} > {} + 1 (the largest auto_commit_threshold in force since the last auto-commit opportunity) after a handled key ending under a candidate list / highlight: {}",
                        s1.len(), maxthr, st.hist()));
                }
            }
        } else if st.key.is_none() && state0 == b'S' && state1 == b'E' && s1.len() == thr1 + 1 {
            bstat(4);
        }
        MAXTHR.with(|m| m.set((st.sid, maxthr)));
    }
    let ev = match st.key {
        Some(ev) => ev,
        None => return,
    };
    let thr = opt(pre, 6);
    {
        let over2 = s0.len() >= thr + 2;
        let expands = state0 == b'E' && opt(pre, 0) == 1 && opt(pre, 8) == 0 && !ev.modifiers.numlock
            && (ev.unicode == 'a' || ev.unicode == 'Z') && s0.len() <= thr && s0.len() + 1 >= thr;
        let multi = st.ret == "C" && state1 == b'E' && !s0.is_empty() && s1.len() + 2 <= s0.len() + if expands { 2 } else { 0 } && ev.code != KeyCode::Enter;
        STATS.with(|s| {
            let (b, a, m) = s.get();
            s.set((b + over2 as u64, a + expands as u64, m + multi as u64));
        });
    }
    let own = |v: &[&str]| -> Vec<String> { v.iter().map(|s| s.to_string()).collect() };
    let n = s0.len();
    use KeyCode::*;
    if state0 == b'E' {
        // (expected symbols, expected cursor), None = no exact expectation for this key
        let exp: Option<(Vec<String>, usize)> = match ev.code {
            Backspace => {
                let mut v = own(&s0);
                if n > 0 && c0 > 0 {
                    v.remove(c0 - 1);
                    Some((v, c0 - 1))
                } else {
                    Some((v, c0))
                }
            }
            Del => {
                let mut v = own(&s0);
                if c0 < n {
                    v.remove(c0);
                }
                Some((v, c0))
            }
            Home if n > 0 => Some((own(&s0), 0)),
            Left if n > 0 && !ev.modifiers.shift => Some((own(&s0), c0.saturating_sub(1))),
            Right if n > 0 && !ev.modifiers.shift => Some((own(&s0), (c0 + 1).min(n))),
            End | PageUp | PageDown if n > 0 => Some((own(&s0), n)),
            _ => None,
        };
        if let Some((v, c)) = exp {
            if !after_tail(&v, c, &s1, c1, thr, st.ret) {
                out.oracle_fail("C05", "new", &format!(
                    "{:?} in Entering: expected buffer [{}] cursor {} (or a prefix cut by auto-commit), got [{}] cursor {}: {}",
                    ev.code, v.join(" "), c, s1.join(" "), c1, st.hist()));
            }
        } else if (ev.code as u8) >= 1 && (ev.code as u8) <= 48 && state1 == b'E' {
            // a character key: unchanged, or k >= 1 characters inserted exactly at the cursor
            let mut ok = false;
            for k in 0..=8usize {
                if s1.len() != n + k || c1 != c0 + k {
                    continue;
                }
                let head_same = s1[..c0].iter().zip(&s0[..c0]).all(|(a, b)| a == b);
                let tail_same = s1[c0 + k..].iter().zip(&s0[c0..]).all(|(a, b)| a == b);
                let block_chars = s1[c0..c0 + k].iter().all(|t| t.starts_with('c'));
                if head_same && tail_same && block_chars {
                    ok = true;
                    break;
                }
            }
            if !ok && st.ret == "C" && n + 8 > thr {
                // an auto-commit followed the insertion: the post buffer must be a suffix of
                // pre[..c0] ++ block ++ pre[c0..] for some block of k characters
                for k in 0..=8usize {
                    let total = n + k;
                    if s1.len() >= total || total <= thr {
                        continue;
                    }
                    let r = total - s1.len();
                    // position i of the post buffer is position i + r of the grown buffer
                    let mut good = s1.len() <= thr && c1 == (c0 + k).saturating_sub(r);
                    for (i, t) in s1.iter().enumerate() {
                        let j = i + r;
                        let want: Option<&str> = if j < c0 { Some(s0[j]) } else if j < c0 + k { None } else { Some(s0[j - k]) };
                        match want {
                            Some(w) => good &= *t == w,
                            None => good &= t.starts_with('c'),
                        }
                    }
                    if good {
                        ok = true;
                        break;
                    }
                }
            }
            if !ok {
                out.oracle_fail("C05", "new", &format!(
                    "character key {:?} in Entering neither left the buffer alone nor inserted at the cursor {}: [{}] -> [{}] cursor {}: {}",
                    ev.code, c0, s0.join(" "), s1.join(" "), c1, st.hist()));
            }
        } else if state1 != b'E' && !(s0.len() == s1.len() && s0.iter().zip(&s1).all(|(a, b)| a == b))
            // (Entering -> EnteringSyllable is an absorbed key: what a closed list or a lowered limit left over the
            //  limit is auto-committed now)
            && !(state1 == b'Y' && after_tail(&own(&s0), c0, &s1, c1, thr, st.ret))
        {
            out.oracle_fail("C05", "new", &format!("leaving Entering changed the buffer: [{}] -> [{}]: {}", s0.join(" "), s1.join(" "), st.hist()));
        }
    } else if state0 == b'Y' {
        let editing1 = state1 == b'E' || state1 == b'Y';
        let same = if editing1 {
            after_tail(&own(&s0), c0, &s1, c1, thr, st.ret) || (n == s1.len() && s0.iter().zip(&s1).all(|(a, b)| a == b) && c1 == c0)
        } else {
            n == s1.len() && s0.iter().zip(&s1).all(|(a, b)| a == b) && c1 == c0
        };
        let cleared = ev.code == Esc && opt(pre, 1) == 1 && s1.is_empty();
        let mut one = false;
        let mut v = own(&s0);
        // one syllable inserted at the cursor (the token itself is taken from the post buffer)
        if state1 == b'E' || state1 == b'S' || state1 == b'Y' {
            if s1.len() == n + 1 && c0 < s1.len() && s1[c0].starts_with('s') {
                v.insert(c0, s1[c0].to_string());
                one = (!editing1 && own(&s1) == v && c1 == c0 + 1) || (editing1 && after_tail(&v, c0 + 1, &s1, c1, thr, st.ret));
            } else if editing1 && st.ret == "C" && n + 1 > thr && s1.len() <= n {
                // inserted, then a prefix was auto-committed: reconstruct with a wildcard syllable
                let r = n + 1 - s1.len();
                let mut good = s1.len() <= thr && c1 == (c0 + 1).saturating_sub(r);
                for (i, t) in s1.iter().enumerate() {
                    let j = i + r;
                    if j < c0 { good &= *t == s0[j] } else if j == c0 { good &= t.starts_with('s') } else { good &= *t == s0[j - 1] }
                }
                one = good;
            }
        }
        if !(same || cleared || one) {
            out.oracle_fail("C05", "new", &format!(
                "key {:?} in EnteringSyllable: buffer [{}] cursor {} -> [{}] cursor {} is neither unchanged nor one syllable inserted at the cursor: {}",
                ev.code, s0.join(" "), c0, s1.join(" "), c1, st.hist()));
        }
    }
}
