//! C06 evaluated directly on the real editor, one key step at a time.
use crate::step::*;
use chewing::editor::keyboard::KeyCode;
use vharness::Out;

fn is_idle_key(c: KeyCode) -> bool {
    use KeyCode::*;
    matches!(c, Enter | Esc | Tab | Backspace | Del | Left | Right | Up | Down | Home | End | PageUp | PageDown)
}

thread_local! {
    static BELLS: std::cell::RefCell<[u64; 6]> = std::cell::RefCell::new([0; 6]);
}

fn is_digit_key(c: KeyCode) -> bool {
    use KeyCode::*;
    matches!(c, N1 | N2 | N3 | N4 | N5 | N6 | N7 | N8 | N9 | N0)
}

pub fn check(out: &mut Out, st: &Step) {
    let code = match st.key {
        Some(ev) => ev.code,
        None => return,
    };
    let (pre, post, ret) = (st.pre, st.post, st.ret);
    let (a, b) = (sections(pre), sections(post));
    let (ma, mb) = (misc(pre), misc(post));
    if ret == "I" {
        // everything the snapshot holds, section by section: [0] the WHOLE state section (state kind; for an open
        // list the page number, the action, the selector kind and its range / sub-menu / symbol), [1] composition
        // editor, [2] phonetic buffer, [3] engine + symbol tables, [4] the 14 options, the chosen alternative, and
        // the dictionaries.  Not compared (see MANIFEST): `last` (it is the answer itself), the per-key outputs
        // commit / notice (reset by every key: they must be EMPTY after an ignored key, checked below), the
        // pending-flush level `dirty` and the estimator clock `time` (no getter shows either).
        let names = ["state / open list (page, action, selector)", "composition editor", "phonetic buffer", "engine / symbol tables", "options"];
        let mut diff: Vec<&str> = (0..5).filter(|i| a[*i] != b[*i]).map(|i| names[i]).collect();
        if ma[2] != mb[2] {
            diff.push("chosen alternative");
        }
        if st.dict_pre != st.dict_post {
            diff.push("dictionary");
        }
        if !diff.is_empty() {
            out.oracle_fail("C06", "new", &format!("ignored key changed persistent state ({}): {}", diff.join(", "), st.hist()));
        }
        if mb[3] != "x" {
            out.oracle_fail("C06", "new", &format!("commit string {} available after an ignored key: {}", mb[3], st.hist()));
        }
        if mb[4] != "x" {
            out.oracle_fail("C06", "new", &format!("notification {} shown after an ignored key: {}", mb[4], st.hist()));
        }
        // … and what the public getters answer: the candidate list (open or not, current page, number of pages,
        // every choice, the choices from the current page on, page size), the displayed pre-edit text, its length
        let cands = |c: Option<&CandView>| c.map(|c| (c.panicked, c.page_no, c.total_page, c.per, c.all.clone(), c.paginated.clone()));
        let (ca, cb) = (cands(st.cand_pre), cands(st.cand_post));
        if ca != cb {
            let what = match (&ca, &cb) {
                (Some(x), Some(y)) if x.1 != y.1 => format!("current page {} -> {}", x.1, y.1),
                (Some(x), Some(y)) if x.2 != y.2 => format!("total pages {} -> {}", x.2, y.2),
                (Some(x), Some(y)) if x.4 != y.4 => "the choices".to_string(),
                (Some(x), Some(y)) if x.5 != y.5 => "the choices of the current page".to_string(),
                (Some(_), None) => "the list was closed".to_string(),
                (None, Some(_)) => "a list was opened".to_string(),
                _ => "getter answers".to_string(),
            };
            out.oracle_fail("C06", "new", &format!("ignored key changed the candidate list ({}): {}", what, st.hist()));
        }
        if st.display_pre != st.display_post || st.len_pre != st.len_post {
            out.oracle_fail("C06", "new", &format!("ignored key changed the displayed pre-edit text {:?} -> {:?}: {}", st.display_pre, st.display_post, st.hist()));
        }
    }
    if ret == "B" {
        // pre-edit text and cursor: the composition-editor section (cursor, saved cursors, symbols, gaps, selections),
        // the text as `display()` shows it and its length
        if a[1] != b[1] {
            out.oracle_fail("C06", "new", &format!("bell changed the pre-edit or the cursor: {}", st.hist()));
        }
        if st.display_pre != st.display_post || st.len_pre != st.len_post {
            out.oracle_fail("C06", "new", &format!("bell changed the displayed pre-edit text {:?} -> {:?}: {}", st.display_pre, st.display_post, st.hist()));
        }
        // … and everything else `bell_keeps_display` / `bell_effect` (Props/C06.lean) say of the model: the WHOLE state
        // section (state kind; an open list's page, action, selector kind, range / sub-menu / symbol; a highlight's
        // mark), engine + symbol tables, the 14 options, the chosen alternative, the dictionaries, no commit string,
        // the candidate getters.  The phonetic buffer too: the editor keeps whatever state the layout is in after a
        // key it rejected (theorem premise LayoutQuietAt) - the shipped layouts must not move on such a key.
        let names = ["state / open list (page, action, selector)", "", "phonetic buffer (the layout changed state on a key it rejected)", "engine / symbol tables", "options"];
        let mut diff: Vec<&str> = [0usize, 2, 3, 4].iter().filter(|i| a[**i] != b[**i]).map(|i| names[*i]).collect();
        if ma[2] != mb[2] {
            diff.push("chosen alternative");
        }
        if st.dict_pre != st.dict_post {
            diff.push("dictionary");
        }
        if !diff.is_empty() {
            out.oracle_fail("C06", "new", &format!("bell changed persistent state ({}): {}", diff.join(", "), st.hist()));
        }
        if mb[3] != "x" {
            out.oracle_fail("C06", "new", &format!("commit string {} available after a bell: {}", mb[3], st.hist()));
        }
        // the one bell that comes with a notification: Ctrl + digit in Entering (a failed "add phrase"), bellMayNotify
        let notify_arm = a[0].as_bytes()[0] == b'E' && st.key.map_or(false, |ev| ev.modifiers.ctrl && is_digit_key(ev.code));
        if mb[4] != "x" && !notify_arm {
            out.oracle_fail("C06", "new", &format!("notification {} shown after a bell outside Ctrl-digit in Entering: {}", mb[4], st.hist()));
        }
        let cands = |c: Option<&CandView>| c.map(|c| (c.panicked, c.page_no, c.total_page, c.per, c.all.clone(), c.paginated.clone()));
        if cands(st.cand_pre) != cands(st.cand_post) {
            out.oracle_fail("C06", "new", &format!("bell changed the candidate list (open / page / choices): {}", st.hist()));
        }
        // cumulative counts (the orchestrator keeps the last value printed)
        BELLS.with(|c| {
            let mut c = c.borrow_mut();
            c[0] += 1;
            if st.cand_pre.is_some() {
                c[1] += 1;
            }
            if mb[4] != "x" {
                c[2] += 1;
            }
            match a[0].as_bytes()[0] {
                b'E' => c[3] += 1,
                b'Y' => c[4] += 1,
                _ => {}
            }
            if c[0] % 16 == 0 || c[5] != st.sid + 1 {
                c[5] = st.sid + 1;
                out.stat("c06_bell_steps", c[0]);
                out.stat("c06_bell_steps.list_open", c[1]);
                out.stat("c06_bell_steps.with_notification", c[2]);
                out.stat("c06_bell_steps.entering", c[3]);
                out.stat("c06_bell_steps.entering_syllable", c[4]);
            }
        });
    }
    // pass-through when nothing is being composed (state Entering; an open list / highlight is composing)
    if com_is_empty(pre) && syl_is_empty(pre) && is_idle_key(code) && ret != "I" {
        match a[0].as_bytes()[0] {
            b'E' | b'Y' => out.oracle_fail("C06", "new", &format!("idle key {:?} answered {} with both buffers empty: {}", code, ret, st.hist())),
            _ => {}
        }
    }
    // the repaired invariant behind F37: EnteringSyllable implies a non-empty phonetic buffer
    if b[0].as_bytes()[0] == b'Y' && syl_is_empty(post) {
        out.oracle_fail("C06", "new", &format!("EnteringSyllable with an empty phonetic buffer after: {}", st.hist()));
    }
}
