//! C06 evaluated directly on the real editor, one key step at a time.
use crate::step::*;
use chewing::editor::keyboard::KeyCode;
use vharness::Out;

fn is_idle_key(c: KeyCode) -> bool {
    use KeyCode::*;
    matches!(c, Enter | Esc | Tab | Backspace | Del | Left | Right | Up | Down | Home | End | PageUp | PageDown)
}

pub fn check(out: &mut Out, st: &Step) {
    let code = match st.key {
        Some(ev) => ev.code,
        None => return,
    };
    let (pre, post, ret) = (st.pre, st.post, st.ret);
    let (a, b) = (sections(pre), sections(post));
    let (ma, mb) = (misc(pre), misc(post));
    if ret == "I" {
        let same = a[0] == b[0] && a[1] == b[1] && a[2] == b[2] && a[3] == b[3] && a[4] == b[4] && ma[2] == mb[2] && st.dict_pre == st.dict_post;
        if !same {
            out.oracle_fail("C06", "new", &format!("ignored key changed persistent state: {}", st.hist()));
        }
        if mb[3] != "x" {
            out.oracle_fail("C06", "new", &format!("commit string {} available after an ignored key: {}", mb[3], st.hist()));
        }
    }
    if ret == "B" && a[1] != b[1] {
        out.oracle_fail("C06", "new", &format!("bell changed the pre-edit or the cursor: {}", st.hist()));
    }
    // pass-through when nothing is being composed (state Entering; an open list / highlight is composing)
    if com_is_empty(pre) && syl_is_empty(pre) && is_idle_key(code) && ret != "I" {
        match a[0].as_bytes()[0] {
            b'E' | b'Y' => out.oracle_fail("C06", "new", &format!("idle key {:?} answered {} with both buffers empty: {}", code, ret, st.hist())),
            _ => {}
        }
    }
    // the repaired invariant behind F37: EnteringSyllable implies a non-empty phonetic buffer
    if b[0].as_bytes()[0] == b'Y' && syl_is_empty(post) {
        out.oracle_fail("C06", "new", &format!("EnteringSyllable with an empty phonetic buffer after: {}", st.hist()));
    }
}
