//! C07 evaluated directly on the real editor: an open candidate list is complete and consistently
//! paged, choosing item i places exactly item i, an out-of-range index changes nothing.
//!
//! No known finding class is left: everything is reported as `new`.  The former classes were repaired in
//! the code and are `new` again: `F40-first-after-single-word` (`fix: init_single_word remembers the
//! position of the word`) and `F32-stale-page` (`fix: an option, layout or dictionary call keeps an open
//! candidate list consistently paged`: the list is recomputed on every query but the page number was only
//! touched by keys, so an option / layout / dictionary call while the list is open left the current page
//! >= the page count, or an open list with no candidates).
use crate::step::*;
use chewing::editor::keyboard::KeyCode;
use std::cell::RefCell;
use vharness::Out;

#[derive(Default)]
struct Stats {
    views: u64,
    views_by_kind: [u64; 3],
    opened_by_kind: [u64; 3],
    retargeted: u64,
    retargeted_from_page_gt0: u64,
    jumps_from_page_gt0: [u64; 4],
    views_rearward: u64,
    views_page_gt0: u64,
    max_page_seen: usize,
    max_total: usize,
    multi_page_views: u64,
    per_hist: [u64; 11],
    complete_checked: u64,
    complete_with_alt: u64,
    complete_multi_syllable: u64,
    longest_checked: u64,
    non_syllable_ranges: u64,
    choices_in_range: [u64; 3],
    choices_in_range_page_gt0: u64,
    choices_submenu_descent: u64,
    choices_then_autocommit: u64,
    choices_out_of_range: [u64; 3],
    choices_overflow: u64,
    empty_lists: u64,
    requests_on_empty_table: u64,
    requests_on_empty_table_ignored: u64,
    choices_empty_category: u64,
    stale_page: u64,
    reconfigured_open: u64,
    reconfigured_clamped: u64,
    reconfigured_closed: u64,
    getter_panics: u64,
    choice_panics: u64,
    samples: u64,
}

thread_local! {
    static STATS: RefCell<Stats> = RefCell::new(Stats::default());
}

fn kind_ix(k: char) -> usize {
    match k {
        'P' => 0,
        'M' => 1,
        _ => 2,
    }
}

fn fail(out: &mut Out, class: &str, what: &str, st: &Step) {
    out.oracle_fail("C07", class, &format!("{}: {}", what, st.hist()));
}

/// the operation is an option / layout / dictionary call (they end with `revalidate_selecting`)
fn is_config_or_dict_op(st: &Step) -> bool {
    let w = st.op.split(' ').next().unwrap_or("");
    matches!(w, "setopts" | "setlayout" | "setengine" | "learn" | "unlearn")
}

/// index chosen by this operation on the current page, if it is a choice
fn choice_index(st: &Step) -> Option<usize> {
    if let Some(rest) = st.op.strip_prefix("select ") {
        return rest.parse().ok();
    }
    let ev = st.key?;
    if ev.modifiers.ctrl || ev.modifiers.shift {
        return None;
    }
    use KeyCode::*;
    match ev.code {
        N1 | N2 | N3 | N4 | N5 | N6 | N7 | N8 | N9 | N0 => Some(ev.code as usize - 1),
        _ => None,
    }
}

/// `(name, sub-table index)` of the symbol-table categories and the tables (snapshot section 3)
fn symbol_tables(snap: &str) -> (Vec<(String, Option<usize>)>, Vec<String>) {
    let t: Vec<&str> = sections(snap)[3].split(' ').collect();
    let ncat: usize = t[1].parse().unwrap();
    let mut cats = vec![];
    for k in 0..ncat {
        let name = String::from_utf8(vharness::unhex(t[2 + 2 * k])).unwrap();
        cats.push((name, t[3 + 2 * k].parse().ok()));
    }
    let i = 2 + 2 * ncat;
    let ntab: usize = t[i].parse().unwrap();
    let tabs = (0..ntab).map(|k| String::from_utf8(vharness::unhex(t[i + 1 + k])).unwrap()).collect();
    (cats, tabs)
}

/// the operation chooses a category of the symbol table whose sub-table holds no symbol (FX1 repair: closes the list)
pub fn chose_empty_category(st: &Step) -> bool {
    let (Some(info), Some(v), Some(n)) = (sel_info(st.pre), st.cand_pre, choice_index(st)) else { return false };
    if v.panicked || v.per == 0 || info.kind != 'M' || info.detail != "-" {
        return false;
    }
    let Some(offset) = info.page.checked_mul(v.per).and_then(|x| x.checked_add(n)) else { return false };
    let (cats, tabs) = symbol_tables(st.pre);
    matches!(cats.get(offset), Some((_, Some(ix))) if tabs.get(*ix % 256).is_some_and(|t| t.is_empty()))
}

fn saved_cursor(snap: &str) -> Option<usize> {
    let t = com_tokens(snap);
    let n: usize = t[1].parse().unwrap();
    if n == 0 {
        None
    } else {
        t[1 + n].parse().ok()
    }
}

pub fn check(out: &mut Out, st: &Step) {
    let pre_sel = sel_info(st.pre);
    let post_sel = sel_info(st.post);

    // a list that an option / layout / dictionary call found empty is closed (F32 repair)
    if pre_sel.is_some() && post_sel.is_none() && is_config_or_dict_op(st) {
        STATS.with(|s| s.borrow_mut().reconfigured_closed += 1);
        // closing restores the cursor saved when the list was opened, like cancel_selecting
        if sections(st.post)[0] != "E" || stack_len(st.post) + 1 != stack_len(st.pre).max(1) {
            fail(out, "new", &format!("an option / layout / dictionary call closed the list but left state {} with {} -> {} saved cursors", sections(st.post)[0], stack_len(st.pre), stack_len(st.post)), st);
        }
    }
    // FX1 (repaired): how often the symbol table is asked for in an editor that has none (` / Ctrl-0 / Ctrl-1 while no
    // list is open); check A below reports a list that is opened with nothing in it
    if pre_sel.is_none() && sections(st.pre)[0] == "E" && symbol_tables(st.pre).0.is_empty() {
        if st.key.is_some_and(|k| (k.code == KeyCode::Grave && !k.modifiers.ctrl && !k.modifiers.shift) || (k.modifiers.ctrl && matches!(k.code, KeyCode::N0 | KeyCode::N1))) {
            STATS.with(|s| s.borrow_mut().requests_on_empty_table += 1);
            if post_sel.is_none() && st.ret == "I" {
                STATS.with(|s| s.borrow_mut().requests_on_empty_table_ignored += 1);
            }
        }
    }
    // ---------------------------------------------------------------- A. an open list is consistent
    if let (Some(info), Some(v)) = (&post_sel, st.cand_post) {
        check_view(out, st, info, v, &pre_sel);
    }
    // ---------------------------------------------------------------- B. choosing
    if let (Some(info), Some(v)) = (&pre_sel, st.cand_pre) {
        if let Some(n) = choice_index(st) {
            check_choice(out, st, info, v, n, &post_sel);
        }
    }
    // ---------------------------------------------------------------- D. a freshly opened / re-targeted phrase list
    // offers the longest range at the cursor that has a phrase (shorter ones follow with Down / Space)
    if let (Some(p), Some(v)) = (&post_sel, st.cand_post) {
        let w = st.op.split(' ').next().unwrap_or("");
        let key_plain = st.key.is_some_and(|k| !k.modifiers.ctrl && !k.modifiers.shift);
        let opened = pre_sel.is_none() && (sections(st.pre)[0] == "E" || w == "startsel");
        let moved = pre_sel.is_some() && key_plain && st.key.is_some_and(|k| matches!(k.code, KeyCode::J | KeyCode::K)) && !com_is_empty(st.pre);
        if p.kind == 'P' && (opened || moved) {
            STATS.with(|s| s.borrow_mut().longest_checked += 1);
            if let Some(Some(l)) = v.expect.as_ref().map(|e| e.longer) {
                fail(out, "new", &format!("the list was opened for range {}..{} although the dictionaries hold a phrase for the longer range {}..{} at the cursor", p.begin, p.end, l.0, l.1), st);
            }
        }
    }
    // ---------------------------------------------------------------- C. a new target starts at page 0
    match (&pre_sel, &post_sel) {
        (None, Some(p)) => {
            STATS.with(|s| s.borrow_mut().opened_by_kind[kind_ix(p.kind)] += 1);
            if p.page != 0 {
                fail(out, "new", &format!("list opened on page {}", p.page), st);
            }
        }
        (Some(a), Some(b)) if sel_target(a) != sel_target(b) => {
            STATS.with(|s| {
                let mut s = s.borrow_mut();
                s.retargeted += 1;
                if a.page > 0 {
                    s.retargeted_from_page_gt0 += 1;
                    if let Some(j) = st.op.strip_prefix("jump ") {
                        s.jumps_from_page_gt0[j.parse::<usize>().unwrap_or(0).min(3)] += 1;
                    }
                }
            });
            if b.page != 0 {
                fail(out, "new", &format!("the highlighted range / menu changed ({:?} -> {:?}) but the page stayed {}", sel_target(a), sel_target(b), b.page), st);
            }
        }
        _ => {}
    }
}

fn check_view(out: &mut Out, st: &Step, info: &SelInfo, v: &CandView, pre_sel: &Option<SelInfo>) {
    let k = kind_ix(info.kind);
    STATS.with(|s| {
        let mut s = s.borrow_mut();
        s.views += 1;
        s.views_by_kind[k] += 1;
        if info.kind == 'P' && !info.forward {
            s.views_rearward += 1;
        }
        s.per_hist[v.per.min(10)] += 1;
    });
    if v.panicked {
        STATS.with(|s| s.borrow_mut().getter_panics += 1);
        fail(out, "new", "a candidate getter panicked while the list is open", st);
        return;
    }
    if v.per == 0 {
        return;
    }
    let n = v.all.len();
    STATS.with(|s| {
        let mut s = s.borrow_mut();
        if v.page_no > 0 {
            s.views_page_gt0 += 1;
        }
        s.max_page_seen = s.max_page_seen.max(v.page_no);
        s.max_total = s.max_total.max(n);
        if v.total_page > 1 {
            s.multi_page_views += 1;
        }
        if s.samples < 3 && v.total_page > 1 && v.page_no > 0 {
            s.samples += 1;
            out.sample(&format!("C07 view: kind {} total {} per {} pages {} page {} first-on-page {:?}", info.kind, n, v.per, v.total_page, v.page_no, v.paginated.first()));
        }
    });
    if v.page_no != info.page {
        fail(out, "new", &format!("current_page_no() = {} but the state holds page {}", v.page_no, info.page), st);
    }
    // the page count is the total divided by the page size, rounded up
    let want_pages = n / v.per + (n % v.per != 0) as usize;
    if v.total_page != want_pages {
        fail(out, "new", &format!("total_page() = {} for {} candidates at {} per page (expected {})", v.total_page, n, v.per, want_pages), st);
    }
    // what can be enumerated from the current page on = the list from item page*per on
    let from = v.page_no.saturating_mul(v.per).min(n);
    if v.paginated[..] != v.all[from..] {
        fail(out, "new", &format!("paginated_candidates() on page {} (per {}) = {:?}, all_candidates()[{}..] = {:?}", v.page_no, v.per, v.paginated, from, &v.all[from..]), st);
    }
    // the current page is below the page count (an open list has at least one candidate) - also right
    // after an option / layout / dictionary call made while the list is open (F32, repaired)
    let stale_class = "new";
    if is_config_or_dict_op(st) && pre_sel.is_some() {
        STATS.with(|s| {
            let mut s = s.borrow_mut();
            s.reconfigured_open += 1;
            if st.cand_pre.is_some_and(|p| !p.panicked && p.per > 0 && p.page_no != v.page_no) {
                s.reconfigured_clamped += 1;
            }
        });
    }
    if n == 0 {
        STATS.with(|s| s.borrow_mut().empty_lists += 1);
        fail(out, stale_class, &format!("candidate list of kind {} is open with 0 candidates ({} pages, page {})", info.kind, v.total_page, v.page_no), st);
    } else if v.page_no >= v.total_page {
        STATS.with(|s| s.borrow_mut().stale_page += 1);
        fail(out, stale_class, &format!("current page {} is not below the page count {} ({} candidates, {} per page)", v.page_no, v.total_page, n, v.per), st);
    }
    // completeness of a phrase list against the dictionaries themselves
    if let Some(e) = &v.expect {
        if !e.all_syllables || e.range_len == 0 {
            // (finding F40/F41 - chewing_cand_list_first on the simple engine's single-word list swallowed the
            // following non-syllable symbol - was repaired by `fix: init_single_word remembers the position of
            // the word`; it is no longer a known class: any such range is reported as new)
            STATS.with(|s| s.borrow_mut().non_syllable_ranges += 1);
            fail(out, "new", &format!("the highlighted range {}..{} is empty or contains a non-syllable symbol ({} leading syllables)", info.begin, info.end, e.key.len()), st);
            return;
        }
        STATS.with(|s| {
            let mut s = s.borrow_mut();
            s.complete_checked += 1;
            if !e.alt.is_empty() {
                s.complete_with_alt += 1;
            }
            if e.range_len > 1 {
                s.complete_multi_syllable += 1;
            }
        });
        for p in e.own.iter() {
            if !v.all.contains(p) {
                fail(out, "new", &format!("phrase {:?} is held for the highlighted syllables {}..{} but is not in the list {:?}", p, info.begin, info.end, v.all), st);
            }
        }
        for p in e.alt.iter() {
            if !v.all.contains(p) {
                fail(out, "new", &format!("phrase {:?} is held for an alternative syllable of symbol {} but is not in the list {:?}", p, info.begin, v.all), st);
            }
        }
        for p in v.all.iter() {
            if !e.own.contains(p) && !e.alt.contains(p) {
                fail(out, "new", &format!("candidate {:?} is not held by any dictionary layer for the highlighted syllables {}..{}", p, info.begin, info.end), st);
            }
        }
        // the list is the range's own phrases first (without repetition), then the alternatives
        if v.all.len() >= e.own.len() {
            let head: Vec<&String> = v.all[..e.own.len()].iter().collect();
            let mut a: Vec<&String> = head.clone();
            a.sort();
            a.dedup();
            let mut b: Vec<&String> = e.own.iter().collect();
            b.sort();
            if a != b {
                fail(out, "new", &format!("the first {} candidates {:?} are not the phrases held for the range {:?}", e.own.len(), head, e.own), st);
            }
        }
    }
}

fn check_choice(out: &mut Out, st: &Step, info: &SelInfo, v: &CandView, n: usize, post_sel: &Option<SelInfo>) {
    if v.panicked || v.per == 0 {
        return;
    }
    let k = kind_ix(info.kind);
    let offset = info.page.checked_mul(v.per).and_then(|x| x.checked_add(n));
    if offset.is_none() {
        STATS.with(|s| s.borrow_mut().choices_overflow += 1);
    }
    let in_range = offset.is_some_and(|o| o < v.all.len());
    let (a, b) = (sections(st.pre), sections(st.post));
    let accepted = st.ret == "ok" || st.ret == "A" || st.ret == "C";
    if !in_range {
        STATS.with(|s| s.borrow_mut().choices_out_of_range[k] += 1);
        let unchanged = a[0] == b[0] && a[1] == b[1] && a[2] == b[2] && a[3] == b[3] && a[4] == b[4] && misc(st.pre)[2] == misc(st.post)[2] && st.dict_pre == st.dict_post;
        // every kind of list: rejected (Bell / Err), nothing changed
        if accepted || !unchanged {
            fail(out, "new", &format!("out-of-range choice {} (page {} x {} per page, {} candidates) on a list of kind {} answered {} / changed the state (page -> {:?})", n, info.page, v.per, v.all.len(), info.kind, st.ret, post_sel.as_ref().map(|p| p.page)), st);
        }
        return;
    }
    let offset = offset.unwrap();
    let chosen = &v.all[offset];
    STATS.with(|s| {
        let mut s = s.borrow_mut();
        s.choices_in_range[k] += 1;
        if info.page > 0 {
            s.choices_in_range_page_gt0 += 1;
        }
    });
    if !accepted {
        fail(out, "new", &format!("choice {} on page {} = item {} {:?} of {} was answered {}", n, info.page, offset, chosen, v.all.len(), st.ret), st);
        return;
    }
    let (sa, sb) = (symbols(st.pre), symbols(st.post));
    // a symbol-table category with a sub-table: descend, page 0
    if info.kind == 'M' && info.detail == "-" {
        let (cats, _) = symbol_tables(st.pre);
        if let Some((_, Some(ix))) = cats.get(offset) {
            if chose_empty_category(st) {
                // FX1 repair: a category without symbols has nothing to list - the list is closed like a list that
                // j / k moved onto a symbol with nothing to show: nothing inserted, the saved cursor restored
                STATS.with(|s| s.borrow_mut().choices_empty_category += 1);
                let ok = post_sel.is_none() && sections(st.post)[0] == "E" && sa.ends_with(&sb) && stack_len(st.post) + 1 == stack_len(st.pre).max(1);
                if !ok {
                    fail(out, "new", &format!("choosing category {} without symbols (sub-table {}) did not close the list with the buffer untouched: {:?}, state {}", offset, ix, post_sel, sections(st.post)[0]), st);
                }
                return;
            }
            STATS.with(|s| s.borrow_mut().choices_submenu_descent += 1);
            let ok = post_sel.as_ref().is_some_and(|p| p.kind == 'M' && p.detail == ix.to_string() && p.page == 0 && p.action == info.action) && sa.ends_with(&sb);
            if !ok {
                fail(out, "new", &format!("choosing category {} did not open its sub-table {} on page 0: {:?}", offset, ix, post_sel), st);
            }
            return;
        }
    }
    // everything else closes the list
    if post_sel.is_some() {
        fail(out, "new", &format!("the list is still open after choosing item {} {:?}", offset, chosen), st);
        return;
    }
    if info.kind == 'P' {
        if sa != sb {
            // the choice made the buffer eligible for auto-commit: the front was committed
            STATS.with(|s| s.borrow_mut().choices_then_autocommit += 1);
            return;
        }
        let mut want: Vec<(usize, usize, bool, String)> = selections(st.pre)
            .into_iter()
            .filter(|s| !(s.0.max(info.begin) < s.1.min(info.end)))
            .collect();
        want.push((info.begin, info.end, true, vharness::hx(chosen)));
        want.sort();
        let got = selections(st.post);
        if want != got {
            fail(out, "new", &format!("chose item {} {:?} for range {}..{}: selections afterwards {:?}, expected {:?}", offset, chosen, info.begin, info.end, got, want), st);
        }
        // the cursor saved when the list was opened is restored (then shifted right if auto_shift_cursor)
        let len = sb.len();
        let mut cur = saved_cursor(st.pre).unwrap_or(cursor(st.pre)).min(len);
        if option(st.pre, 3) == 1 {
            cur = (cur + 1).min(len);
        }
        if cursor(st.post) != cur || stack_len(st.post) + 1 != stack_len(st.pre).max(1) {
            fail(out, "new", &format!("after the choice the cursor is {} (expected {}), saved cursors {} -> {}", cursor(st.post), cur, stack_len(st.pre), stack_len(st.post)), st);
        }
    } else {
        // symbol lists: the chosen character is inserted at / replaces the symbol at the cursor
        let ch = chosen.chars().next().map(|c| format!("c{}", c as u32)).unwrap_or_default();
        let cur = cursor(st.pre);
        let mut want: Vec<&str> = sa.clone();
        if info.action == 'I' {
            if cur <= want.len() {
                want.insert(cur, &ch);
            }
        } else if cur < want.len() {
            want[cur] = &ch;
        }
        if want.len() != sb.len() {
            STATS.with(|s| s.borrow_mut().choices_then_autocommit += 1);
            if !want.ends_with(&sb) {
                fail(out, "new", &format!("chose symbol {:?}: buffer afterwards {:?} is not a suffix of {:?}", chosen, sb, want), st);
            }
            return;
        }
        if want != sb {
            fail(out, "new", &format!("chose symbol item {} {:?} (action {}) at cursor {}: buffer afterwards {:?}, expected {:?}", offset, chosen, info.action, cur, sb, want), st);
        }
    }
}

/// the operation panicked: a choice (in range or not) must never do that
pub fn check_panic(out: &mut Out, st: &Step) {
    if let (Some(info), Some(n)) = (sel_info(st.pre), choice_index(st)) {
        STATS.with(|s| s.borrow_mut().choice_panics += 1);
        fail(out, "new", &format!("choosing index {} on page {} of an open list of kind {} panicked instead of being answered", n, info.page, info.kind), st);
    }
}

pub fn finish(out: &mut Out) {
    STATS.with(|s| {
        let s = s.borrow();
        out.stat("c07_views", s.views);
        out.stat("c07_views_phrase", s.views_by_kind[0]);
        out.stat("c07_views_symbol_table", s.views_by_kind[1]);
        out.stat("c07_views_special_symbol", s.views_by_kind[2]);
        out.stat("c07_opened_phrase", s.opened_by_kind[0]);
        out.stat("c07_opened_symbol_table", s.opened_by_kind[1]);
        out.stat("c07_opened_special_symbol", s.opened_by_kind[2]);
        out.stat("c07_range_or_menu_changes", s.retargeted);
        out.stat("c07_range_or_menu_changes_from_page_gt0", s.retargeted_from_page_gt0);
        for (i, name) in ["first", "last", "next", "prev"].iter().enumerate() {
            out.stat(&format!("c07_jump_{}_moved_range_from_page_gt0", name), s.jumps_from_page_gt0[i]);
        }
        out.stat("c07_views_rearward", s.views_rearward);
        out.stat("c07_views_page_gt0", s.views_page_gt0);
        out.stat("c07_views_multi_page", s.multi_page_views);
        out.stat("c07_max_page_seen", s.max_page_seen);
        out.stat("c07_max_candidates", s.max_total);
        for (i, c) in s.per_hist.iter().enumerate().skip(1) {
            out.stat(&format!("c07_views_per_page_{}", i), c);
        }
        out.stat("c07_complete_checked", s.complete_checked);
        out.stat("c07_complete_with_alt_syllables", s.complete_with_alt);
        out.stat("c07_complete_multi_syllable", s.complete_multi_syllable);
        out.stat("c07_opened_longest_range_checked", s.longest_checked);
        out.stat("c07_ranges_with_non_syllable", s.non_syllable_ranges);
        out.stat("c07_choices_phrase", s.choices_in_range[0]);
        out.stat("c07_choices_symbol_table", s.choices_in_range[1]);
        out.stat("c07_choices_special_symbol", s.choices_in_range[2]);
        out.stat("c07_choices_on_page_gt0", s.choices_in_range_page_gt0);
        out.stat("c07_choices_submenu_descent", s.choices_submenu_descent);
        out.stat("c07_choices_then_autocommit", s.choices_then_autocommit);
        out.stat("c07_out_of_range_phrase", s.choices_out_of_range[0]);
        out.stat("c07_out_of_range_symbol_table", s.choices_out_of_range[1]);
        out.stat("c07_out_of_range_special_symbol", s.choices_out_of_range[2]);
        out.stat("c07_choices_index_overflow", s.choices_overflow);
        out.stat("c07_empty_open_lists", s.empty_lists);
        out.stat("c07_symbol_table_requests_without_a_table", s.requests_on_empty_table);
        out.stat("c07_symbol_table_requests_without_a_table_ignored", s.requests_on_empty_table_ignored);
        out.stat("c07_choices_of_a_category_without_symbols", s.choices_empty_category);
        out.stat("c07_stale_pages", s.stale_page);
        out.stat("c07_config_calls_list_stays_open", s.reconfigured_open);
        out.stat("c07_config_calls_page_clamped", s.reconfigured_clamped);
        out.stat("c07_config_calls_empty_list_closed", s.reconfigured_closed);
        out.stat("c07_getter_panics", s.getter_panics);
        out.stat("c07_choice_panics", s.choice_panics);
    });
}
