//! C17 (queries are pure, contexts are independent, reset gives a clean editor) evaluated directly on
//! the real editor through the pure Rust API.
//!
//! * `after_step` (main stream, after every successful operation): every `&self` getter twice — equal
//!   answers, complete snapshot (hook H1) and dictionary contents unchanged; with `--queries` one
//!   `edq` record per step so that the Lean model's `Editor.query` is compared with the real getters.
//! * `run_pairs` (`--c17-pairs`): paired executions of generated histories
//!     G  the same history with / without bursts of getters at random positions,
//!     R  reset issued in whatever state a random prefix ends in, against a NEWLY constructed editor
//!        with the same configuration, user dictionary and estimator clock,
//!     P  context A alone against A interleaved with another context B (same thread, and B running
//!        freely on a second thread).
//!   Compared after every operation: return value, complete snapshot, dictionary contents; all getter
//!   answers at random positions and at the end.
use super::*;
use crate::step::{misc, sections};

fn b01(b: bool) -> &'static str {
    if b { "1" } else { "0" }
}

fn guarded<F: FnOnce() -> String>(f: F) -> String {
    // every read gets a fresh look-up budget (C01's `FuelDict`): the answer of a getter must not depend on how
    // many look-ups the reads before it made
    crate::LOOKUPS.with(|c| c.set(0));
    catch_unwind(AssertUnwindSafe(f)).unwrap_or_else(|_| "P".into())
}

fn cands_s(r: Result<Vec<String>, chewing::editor::EditorError>) -> String {
    match r {
        Ok(v) => {
            let mut o = format!("{}", v.len());
            for c in v {
                let _ = write!(o, " {}", hx(&c));
            }
            o
        }
        Err(_) => "E".into(),
    }
}

fn num_s(r: Result<usize, chewing::editor::EditorError>) -> String {
    match r {
        Ok(n) => n.to_string(),
        Err(_) => "E".into(),
    }
}

/// number of getters in `getter`
pub const N_GETTERS: u64 = 21;

const TAGS: [&str; 21] = ["D", "C", "N", "I", "U", "Y", "L", "E", "Fe", "Fs", "Fy", "Fb", "A", "G", "T", "Tc", "Jn", "Jp", "O", "K", "B"];

/// the answer of getter `i` as text: `<tag> <value…>` (`<tag> P` = the getter panicked)
pub fn getter(ed: &Editor, i: u64) -> String {
    let body = guarded(|| match i {
        0 => hx(&ed.display()),
        1 => hx(ed.display_commit()),
        2 => hx(ed.notification()),
        3 => {
            let ivs: Vec<Interval> = ed.intervals().collect();
            let mut o = format!("{}", ivs.len());
            for iv in ivs {
                let _ = write!(o, " {} {} {} {}", iv.start, iv.end, iv.is_phrase as u8, hx(&iv.str));
            }
            o
        }
        4 => format!("{}", ed.cursor()),
        5 => {
            let mut o = format!("{}", ed.symbols().len());
            for s in ed.symbols() {
                match s.to_syllable() {
                    Some(syl) => {
                        let _ = write!(o, " s{}", syl.to_u16());
                    }
                    None => {
                        let _ = write!(o, " c{}", s.to_char().map(|c| c as u32).unwrap_or(0));
                    }
                }
            }
            o
        }
        6 => format!("{}", ed.len()),
        7 => b01(ed.is_empty()).into(),
        8 => b01(ed.is_entering()).into(),
        9 => b01(ed.is_selecting()).into(),
        10 => b01(ed.entering_syllable()).into(),
        11 => format!("{}", ed.syllable_buffer().to_u16()),
        12 => cands_s(ed.all_candidates()),
        13 => cands_s(ed.paginated_candidates()),
        14 => num_s(ed.total_page()),
        15 => num_s(ed.current_page_no()),
        16 => b01(ed.has_next_selection_point()).into(),
        17 => b01(ed.has_prev_selection_point()).into(),
        18 => opts_s(&ed.editor_options()),
        19 => kb_s(ed.last_key_behavior()).into(),
        // not in the Lean model (needs the layout's key sequence): harness only
        _ => hx(&ed.syllable_buffer_display()),
    });
    format!("{} {}", TAGS[i.min(20) as usize], body)
}

/// the answers of the getters the Lean model covers (0..=19), in order
pub fn getters_model(ed: &Editor) -> String {
    (0..20).map(|i| getter(ed, i)).collect::<Vec<_>>().join(" ")
}

/// all getters
pub fn getters_all(ed: &Editor) -> String {
    (0..N_GETTERS).map(|i| getter(ed, i)).collect::<Vec<_>>().join(" ")
}

pub struct Stats {
    pub steps: u64,
    pub getter_panics: u64,
    pub edq: u64,
}

impl Stats {
    pub fn new() -> Stats {
        Stats { steps: 0, getter_panics: 0, edq: 0 }
    }
    pub fn print(&self, out: &mut Out) {
        out.stat("c17_steps_getters_twice", self.steps);
        out.stat("c17_getter_panics", self.getter_panics);
        out.stat("c17_edq_records", self.edq);
    }
}

/// main stream: the state after a successful operation, read through every getter twice
pub fn after_step(out: &mut Out, st: &Step, s: &Session, queries: bool, stats: &mut Stats) {
    stats.steps += 1;
    s.conv_log.borrow_mut().clear();
    let g1 = getters_model(&s.ed);
    // conversions the getters asked for (display, intervals): the model needs the engine's answers
    let conv = s.conv_answers();
    let extra1 = getter(&s.ed, 20);
    let g2 = getters_model(&s.ed);
    let extra2 = getter(&s.ed, 20);
    if g1.split(' ').any(|t| t == "P") {
        stats.getter_panics += 1;
    }
    if g1 != g2 || extra1 != extra2 {
        out.oracle_fail("C17", "new", &format!("a getter answers differently when repeated: first [{}] second [{}] after {}", g1, g2, st.hist()));
    }
    let snap = s.ed.verif_snapshot();
    let dict = s.dict_s();
    if snap != st.post {
        out.oracle_fail("C17", "new", &format!("getters changed the editor state: before [{}] after [{}] history {}", st.post, snap, st.hist()));
    }
    if dict != st.dict_post {
        out.oracle_fail("C17", "new", &format!("getters changed the dictionary: history {}", st.hist()));
    }
    if queries {
        stats.edq += 1;
        out.rec(&format!("edq all | {} | {} | {} {} => {}", st.post, st.dict_post, s.layout_answers(None), conv, g1));
    }
}

// ------------------------------------------------------------------ paired executions

type UserEntries = (Vec<(Vec<Syllable>, String, u32, u64)>, Vec<(Vec<Syllable>, String)>);

/// everything a constructor call needs
#[derive(Clone)]
struct Cfg {
    sys: Vec<SysLayer>,
    engine_kind: u8,
    layout_kind: u8,
    opts: EditorOptions,
    time: u64,
    user: UserEntries,
}

fn gen_cfg(rng: &mut Rng, pool: &[(Syllable, Vec<KeyCode>)]) -> Cfg {
    let sys: Vec<SysLayer> = (0..(1 + rng.below(2))).map(|_| gen_layer(rng, pool, true)).collect();
    let engine_kind = if rng.chance(1, 2) { 1 } else { rng.below(3) as u8 };
    let layout_kind = if rng.chance(2, 3) { 0 } else { rng.below(10) as u8 };
    let mut o = EditorOptions::default();
    for _ in 0..rng.below(4) {
        o = gen_opts(rng, &o, engine_kind, false);
    }
    Cfg { sys, engine_kind, layout_kind, opts: o, time: rng.below(3) * 5000, user: (vec![], vec![]) }
}

fn engine_opts(mut o: EditorOptions, k: u8) -> EditorOptions {
    o.conversion_engine = match k {
        0 => ConversionEngineKind::SimpleEngine,
        2 => ConversionEngineKind::FuzzyChewingEngine,
        _ => ConversionEngineKind::ChewingEngine,
    };
    o.lookup_strategy = if k == 2 { LookupStrategy::FuzzyPartialPrefix } else { LookupStrategy::Standard };
    o
}

/// the public constructors, as an application creates an editor
fn build(cfg: &Cfg, keep_strategy: bool) -> Session {
    let sys_boxes: Vec<Box<dyn Dictionary>> = cfg
        .sys
        .iter()
        .map(|layer| {
            let mut d = TrieBuf::new_in_memory();
            for (k, p, f) in layer {
                DictionaryMut::add_phrase(&mut d, k, Phrase::new(p.as_str(), *f)).unwrap();
            }
            // C01's transparent look-up counter: a selector loop that never ends becomes a panic of the operation
            Box::new(crate::FuelDict(d)) as Box<dyn Dictionary>
        })
        .collect();
    let probes: Vec<TrieBuf> = cfg
        .sys
        .iter()
        .map(|layer| {
            let mut d = TrieBuf::new_in_memory();
            for (k, p, f) in layer {
                DictionaryMut::add_phrase(&mut d, k, Phrase::new(p.as_str(), *f)).unwrap();
            }
            d
        })
        .collect();
    let mut user = Box::new(TrieBuf::new_in_memory());
    for (k, p) in &cfg.user.1 {
        DictionaryMut::remove_phrase(&mut *user, k, p).unwrap();
    }
    for (k, p, f, t) in &cfg.user.0 {
        DictionaryMut::update_phrase(&mut *user, k, Phrase::new(p.as_str(), *f), *f, *t).unwrap();
    }
    let user_ptr: *const TrieBuf = &*user;
    let dict = Layered::new(sys_boxes, user);
    let conv_log: ConvLog = Rc::new(RefCell::new(vec![]));
    let lay: LayoutCell = Rc::new(RefCell::new(layout(cfg.layout_kind)));
    let abbr = {
        let mut f = tempfile::NamedTempFile::new().unwrap();
        writeln!(f, "a 測試").unwrap();
        writeln!(f, "Z 𠀀們").unwrap();
        f.flush().unwrap();
        AbbrevTable::open(f.path()).unwrap()
    };
    let sym_sel = SymbolSelector::new(std::io::Cursor::new("…\n※\n常用符號=，、。\n括號=（）「」\n")).unwrap();
    let mut ed = Editor::new(engine(cfg.engine_kind, &conv_log), dict, LaxUserFreqEstimate::new(cfg.time), abbr, sym_sel);
    ed.set_syllable_editor(Box::new(SharedLayout(lay.clone())));
    ed.set_editor_options(if keep_strategy { cfg.opts } else { engine_opts(cfg.opts, cfg.engine_kind) });
    crate::register_user(&conv_log, user_ptr);
    Session { ed, lay, conv_log, user: user_ptr, sys: cfg.sys.clone(), layout_kind: cfg.layout_kind, probes, engine_kind: cfg.engine_kind }
}

/// one operation on a session, as `main` applies it; Err = the editor panicked
fn apply(s: &mut Session, op: &Op, ev: Option<KeyEvent>) -> Result<String, ()> {
    fn okerr<T, E>(r: Result<T, E>) -> String {
        if r.is_ok() { "ok".into() } else { "err".into() }
    }
    crate::LOOKUPS.with(|c| c.set(0));
    catch_unwind(AssertUnwindSafe(|| -> String {
        match op {
            Op::Key(..) => kb_s(s.ed.process_keyevent(ev.unwrap())).to_string(),
            Op::Select(n) => okerr(s.ed.select(*n)),
            Op::StartSel => okerr(s.ed.start_selecting()),
            Op::CancelSel => okerr(s.ed.cancel_selecting()),
            Op::Commit => okerr(s.ed.commit()),
            Op::Clear => {
                s.ed.clear();
                "ok".into()
            }
            Op::Ack => {
                s.ed.ack();
                "ok".into()
            }
            Op::ClearSyl => {
                s.ed.clear_syllable_editor();
                "ok".into()
            }
            Op::SetOpts(o) => {
                s.ed.set_editor_options(*o);
                "ok".into()
            }
            Op::SetLayout(k) => {
                let cell: LayoutCell = Rc::new(RefCell::new(layout(*k)));
                s.ed.set_syllable_editor(Box::new(SharedLayout(cell.clone())));
                s.lay = cell;
                s.layout_kind = *k;
                "ok".into()
            }
            Op::SetEngine(k) => {
                let o = s.ed.editor_options();
                s.ed.set_conversion_engine(engine(*k, &s.conv_log));
                s.engine_kind = *k;
                s.ed.set_editor_options(engine_opts(o, *k));
                "ok".into()
            }
            Op::Learn(k, p) => okerr(s.ed.learn_phrase(k, p)),
            Op::Unlearn(k, p) => okerr(s.ed.unlearn_phrase(k, p)),
            Op::Jump(j) => okerr(match j {
                0 => s.ed.jump_to_first_selection_point(),
                1 => s.ed.jump_to_last_selection_point(),
                2 => s.ed.jump_to_next_selection_point(),
                _ => s.ed.jump_to_prev_selection_point(),
            }),
        }
    }))
    .map_err(|_| ())
}

fn event(op: &Op) -> Option<KeyEvent> {
    match op {
        Op::Key(c, m) => Some(Qwerty.map_with_mod(*c, *m)),
        _ => None,
    }
}

/// the snapshot with the pending-flush level (the one field a reset carries over; it is 0 after every key)
/// and / or the estimator clock blanked
fn mask_meta(snap: &str, dirty: bool, clock: bool) -> String {
    let sec = sections(snap);
    let mut m: Vec<String> = misc(snap).iter().map(|x| x.to_string()).collect();
    if dirty {
        m[1] = "_".into();
    }
    if clock {
        m[5] = "_".into();
    }
    let mut parts: Vec<String> = sec[..5].iter().map(|x| x.to_string()).collect();
    parts.push(m.join(" "));
    parts.join(" ; ")
}

struct PairStats {
    g_sessions: u64,
    g_ops: u64,
    g_getter_calls: u64,
    r_sessions: u64,
    r_ops: u64,
    r_state: [u64; 4],
    r_saved_cursors: u64,
    r_nth_nonzero: u64,
    r_user_entries: u64,
    r_dirty: u64,
    r_other_clock: u64,
    r_learned: u64,
    p_sessions: u64,
    p_ops: u64,
    p_other_ops: u64,
    p_threaded: u64,
    panics: u64,
    full_compares: u64,
}

fn observe(s: &Session) -> (String, String) {
    (s.ed.verif_snapshot(), s.dict_s())
}

/// the user dictionary without the time stamps (what remains comparable when the clocks differ)
fn user_dict_no_time(s: &Session) -> String {
    // SAFETY: see Session::dict_s
    let (btree, grave, _, _, _) = unsafe { (*s.user).verif_snapshot() };
    let mut o = String::new();
    for (k, p, f, _t) in &btree {
        let _ = write!(o, "{} {} {} ; ", syls_s(k), hx(p), f);
    }
    o.push_str("| ");
    for (k, p) in &grave {
        let _ = write!(o, "{} {} ; ", syls_s(k), hx(p));
    }
    o
}

/// compare two sessions that must be indistinguishable
fn same(out: &mut Out, what: &str, a: &Session, b: &Session, ra: &Result<String, ()>, rb: &Result<String, ()>, mask: (bool, bool), full: bool, hist: &str) -> bool {
    if ra != rb {
        out.oracle_fail("C17", "new", &format!("{}: return values differ ({:?} vs {:?}): {}", what, ra, rb, hist));
        return false;
    }
    if ra.is_err() {
        return true;
    }
    let (sa, da) = observe(a);
    let (sb, db) = observe(b);
    let eq = mask_meta(&sa, mask.0, mask.1) == mask_meta(&sb, mask.0, mask.1);
    let (da, db) = if mask.1 { (user_dict_no_time(a), user_dict_no_time(b)) } else { (da, db) };
    if !eq {
        out.oracle_fail("C17", "new", &format!("{}: states differ [{}] vs [{}]: {}", what, sa, sb, hist));
        return false;
    }
    if da != db {
        out.oracle_fail("C17", "new", &format!("{}: dictionaries differ [{}] vs [{}]: {}", what, da, db, hist));
        return false;
    }
    if full {
        let (ga, gb) = (getters_all(&a.ed), getters_all(&b.ed));
        if ga != gb {
            out.oracle_fail("C17", "new", &format!("{}: getter answers differ [{}] vs [{}]: {}", what, ga, gb, hist));
            return false;
        }
    }
    true
}

fn hist_s(cfg_seed: u64, ops: &[String]) -> String {
    format!("pair-seed {} ops [{}]", cfg_seed, ops.join(" ; "))
}

/// G: the same history with and without getter bursts
fn pair_getters(out: &mut Out, rng: &mut Rng, pool: &[(Syllable, Vec<KeyCode>)], cfg_seed: u64, n_ops: u64, ps: &mut PairStats) {
    let cfg = gen_cfg(&mut Rng::new(cfg_seed), pool);
    let mut a = build(&cfg, false);
    let mut b = build(&cfg, false);
    let uniform = rng.chance(1, 8);
    let mut pending = vec![];
    let mut hist: Vec<String> = vec![];
    ps.g_sessions += 1;
    for _ in 0..n_ops {
        let op = gen_op(rng, &a, pool, &mut pending, uniform, false, None);
        let ev = event(&op);
        // the burst: any getters, any number, repeated, before the operation on twin B only
        let burst = if rng.chance(1, 3) { 0 } else { 1 + rng.below(6) };
        let mut names = String::new();
        for _ in 0..burst {
            let g = rng.below(N_GETTERS);
            let _ = getter(&b.ed, g);
            let _ = write!(names, "{} ", g);
            ps.g_getter_calls += 1;
        }
        if burst > 0 {
            hist.push(format!("getters {}", names.trim_end()));
        }
        hist.push(op_s(&op, &ev));
        let ra = apply(&mut a, &op, ev);
        let rb = apply(&mut b, &op, ev);
        ps.g_ops += 1;
        let full = rng.chance(1, 6);
        if full {
            ps.full_compares += 1;
        }
        if !same(out, "with/without getters", &a, &b, &ra, &rb, (false, false), full, &hist_s(cfg_seed, &hist)) {
            return;
        }
        if ra.is_err() {
            ps.panics += 1;
            return;
        }
    }
    ps.full_compares += 1;
    same(out, "with/without getters (end)", &a, &b, &Ok(String::new()), &Ok(String::new()), (false, false), true, &hist_s(cfg_seed, &hist));
}

/// R: reset after a random prefix vs. a newly constructed editor with the same configuration and user dictionary
fn pair_reset(out: &mut Out, rng: &mut Rng, pool: &[(Syllable, Vec<KeyCode>)], cfg_seed: u64, n_ops: u64, ps: &mut PairStats) {
    let cfg = gen_cfg(&mut Rng::new(cfg_seed), pool);
    let mut a = build(&cfg, false);
    let mut pending = vec![];
    let mut hist: Vec<String> = vec![];
    // prefix of random length, biased to stop inside a candidate list / with a syllable pending
    let n_prefix = 1 + rng.below(n_ops);
    let want_selecting = rng.chance(1, 2);
    let mut i = 0;
    loop {
        let op = gen_op(rng, &a, pool, &mut pending, false, false, None);
        let ev = event(&op);
        hist.push(op_s(&op, &ev));
        if apply(&mut a, &op, ev).is_err() {
            ps.panics += 1;
            return;
        }
        i += 1;
        if i >= n_prefix && (!want_selecting || a.ed.is_selecting() || i >= 2 * n_ops) {
            break;
        }
    }
    // every sixth session: make sure a range is being highlighted (Shift-Left after two syllables)
    if rng.chance(1, 6) {
        let mut forced: Vec<Op> = vec![];
        if a.ed.is_selecting() {
            forced.push(Op::Key(KeyCode::Esc, Modifiers::default()));
        }
        for _ in 0..2 {
            forced.extend(rng.pick(pool).1.iter().map(|k| Op::Key(*k, Modifiers::default())));
        }
        forced.push(Op::Key(KeyCode::Left, Modifiers::shift()));
        for op in forced {
            let ev = event(&op);
            hist.push(op_s(&op, &ev));
            if apply(&mut a, &op, ev).is_err() {
                ps.panics += 1;
                return;
            }
        }
    }
    let pre = a.ed.verif_snapshot();
    ps.r_sessions += 1;
    ps.r_state[match pre.as_bytes()[0] { b'E' => 0, b'Y' => 1, b'S' => 2, _ => 3 }] += 1;
    let com: Vec<&str> = sections(&pre)[1].split(' ').collect();
    if com[1] != "0" {
        ps.r_saved_cursors += 1;
    }
    let m = misc(&pre);
    if m[1] != "0" {
        ps.r_dirty += 1;
    }
    if m[2] != "0" {
        ps.r_nth_nonzero += 1;
    }
    hist.push("RESET".into());
    a.ed.clear();
    // the fresh editor: same configuration, same user dictionary, same estimator clock
    // SAFETY: see Session::dict_s
    let (btree, grave, _, _, _) = unsafe { (*a.user).verif_snapshot() };
    if !btree.is_empty() {
        ps.r_user_entries += 1;
    }
    let other_clock = rng.chance(1, 2);
    let engine_now: u8 = sections(&pre)[3].split(' ').next().unwrap().parse().unwrap();
    let fresh_cfg = Cfg {
        sys: cfg.sys.clone(),
        engine_kind: engine_now,
        layout_kind: a.layout_kind,
        opts: a.ed.editor_options(),
        // half of the sessions: the fresh editor's clock restarts from the newest stored time, as a new C context's
        // does (LaxUserFreqEstimate::max_from); then clocks and time stamps are left out of the comparison
        time: if other_clock { btree.iter().map(|e| e.3).max().unwrap_or(0) } else { m[5].parse().unwrap() },
        user: (btree, grave),
    };
    let mut b = build(&fresh_cfg, true);
    let mut masked = true;
    if other_clock {
        ps.r_other_clock += 1;
    }
    if !same(out, "reset vs fresh (immediately)", &a, &b, &Ok(String::new()), &Ok(String::new()), (masked, other_clock), true, &hist_s(cfg_seed, &hist)) {
        return;
    }
    pending.clear();
    let dict_at_reset = user_dict_no_time(&a);
    let mut learned = false;
    for _ in 0..n_ops {
        let op = gen_op(rng, &a, pool, &mut pending, false, false, None);
        let ev = event(&op);
        hist.push(op_s(&op, &ev));
        let ra = apply(&mut a, &op, ev);
        let rb = apply(&mut b, &op, ev);
        ps.r_ops += 1;
        if !learned && user_dict_no_time(&a) != dict_at_reset {
            learned = true;
            ps.r_learned += 1;
        }
        if ev.is_some() {
            masked = false;
        }
        let full = rng.chance(1, 4);
        if full {
            ps.full_compares += 1;
        }
        if !same(out, if other_clock { "reset vs fresh with a restarted clock" } else { "reset vs fresh" }, &a, &b, &ra, &rb, (masked, other_clock), full, &hist_s(cfg_seed, &hist)) {
            return;
        }
        if ra.is_err() {
            ps.panics += 1;
            return;
        }
    }
}

/// P: A alone vs. A interleaved with another context B
fn pair_contexts(out: &mut Out, rng: &mut Rng, pool: &[(Syllable, Vec<KeyCode>)], cfg_seed: u64, n_ops: u64, threaded: bool, ps: &mut PairStats) {
    let cfg = gen_cfg(&mut Rng::new(cfg_seed), pool);
    let mut a = build(&cfg, false);
    let mut a2 = build(&cfg, false);
    ps.p_sessions += 1;
    // B on the same thread (deterministic interleaving) …
    let cfg_b = gen_cfg(&mut Rng::new(cfg_seed ^ 0x5555), pool);
    let mut b = build(&cfg_b, false);
    let mut rng_b = Rng::new(cfg_seed.wrapping_add(77));
    let mut pending_b = vec![];
    // … or a third context running freely on another thread while A' works
    let stop = std::sync::Arc::new(std::sync::atomic::AtomicBool::new(false));
    let counter = std::sync::Arc::new(std::sync::atomic::AtomicU64::new(0));
    let handle = if threaded {
        ps.p_threaded += 1;
        let (stop, counter) = (stop.clone(), counter.clone());
        let seed = cfg_seed ^ 0xABCD;
        Some(std::thread::spawn(move || {
            let pool = super::pool(false);
            let cfg_c = gen_cfg(&mut Rng::new(seed), &pool);
            let mut c = build(&cfg_c, false);
            let mut rng_c = Rng::new(seed.wrapping_add(1));
            let mut pending_c = vec![];
            while !stop.load(std::sync::atomic::Ordering::Relaxed) {
                let op = gen_op(&mut rng_c, &c, &pool, &mut pending_c, false, false, None);
                let ev = event(&op);
                if apply(&mut c, &op, ev).is_err() {
                    c = build(&cfg_c, false);
                    pending_c.clear();
                }
                counter.fetch_add(1, std::sync::atomic::Ordering::Relaxed);
            }
        }))
    } else {
        None
    };
    let mut pending = vec![];
    let mut hist: Vec<String> = vec![];
    let uniform = rng.chance(1, 8);
    for _ in 0..n_ops {
        let op = gen_op(rng, &a, pool, &mut pending, uniform, false, None);
        let ev = event(&op);
        // operations of the other context between two operations of A'
        for _ in 0..rng.below(4) {
            let opb = gen_op(&mut rng_b, &b, pool, &mut pending_b, false, false, None);
            let evb = event(&opb);
            hist.push(format!("B:{}", op_s(&opb, &evb)));
            if apply(&mut b, &opb, evb).is_err() {
                b = build(&cfg_b, false);
                pending_b.clear();
            }
            ps.p_other_ops += 1;
        }
        hist.push(op_s(&op, &ev));
        let ra = apply(&mut a, &op, ev);
        let rb = apply(&mut a2, &op, ev);
        ps.p_ops += 1;
        let full = rng.chance(1, 6);
        if full {
            ps.full_compares += 1;
        }
        if !same(out, if threaded { "alone vs beside other contexts (one on a second thread)" } else { "alone vs interleaved with another context" },
                 &a, &a2, &ra, &rb, (false, false), full, &hist_s(cfg_seed, &hist)) {
            break;
        }
        if ra.is_err() {
            ps.panics += 1;
            break;
        }
    }
    stop.store(true, std::sync::atomic::Ordering::Relaxed);
    if let Some(h) = handle {
        let _ = h.join();
        ps.p_other_ops += counter.load(std::sync::atomic::Ordering::Relaxed);
    }
}

pub fn run_pairs(out: &mut Out, seed: u64, thorough: bool) {
    let pool = pool(false);
    let n: u64 = if thorough { 4000 } else { 220 };
    let n_ops: u64 = 40;
    let mut ps = PairStats {
        g_sessions: 0, g_ops: 0, g_getter_calls: 0, r_sessions: 0, r_ops: 0, r_state: [0; 4], r_saved_cursors: 0,
        r_nth_nonzero: 0, r_user_entries: 0, r_dirty: 0, r_other_clock: 0, r_learned: 0, p_sessions: 0, p_ops: 0, p_other_ops: 0, p_threaded: 0,
        panics: 0, full_compares: 0,
    };
    for i in 0..n {
        let cfg_seed = seed.wrapping_mul(7_000_003).wrapping_add(i);
        let mut rng = Rng::new(cfg_seed.wrapping_add(0x1717));
        pair_getters(out, &mut rng, &pool, cfg_seed, n_ops, &mut ps);
        let mut rng = Rng::new(cfg_seed.wrapping_add(0x2717));
        pair_reset(out, &mut rng, &pool, cfg_seed, n_ops, &mut ps);
        let mut rng = Rng::new(cfg_seed.wrapping_add(0x3717));
        pair_contexts(out, &mut rng, &pool, cfg_seed, n_ops, i % 4 == 0, &mut ps);
    }
    out.stat("pairs_getters_sessions", ps.g_sessions);
    out.stat("pairs_getters_ops", ps.g_ops);
    out.stat("pairs_getters_inserted_calls", ps.g_getter_calls);
    out.stat("pairs_reset_sessions", ps.r_sessions);
    out.stat("pairs_reset_continuation_ops", ps.r_ops);
    out.stat("pairs_reset_in_entering", ps.r_state[0]);
    out.stat("pairs_reset_in_entering_syllable", ps.r_state[1]);
    out.stat("pairs_reset_in_selecting", ps.r_state[2]);
    out.stat("pairs_reset_in_highlighting", ps.r_state[3]);
    out.stat("pairs_reset_with_saved_cursors", ps.r_saved_cursors);
    out.stat("pairs_reset_with_nth_conversion_nonzero", ps.r_nth_nonzero);
    out.stat("pairs_reset_with_user_entries", ps.r_user_entries);
    out.stat("pairs_reset_with_pending_flush", ps.r_dirty);
    out.stat("pairs_reset_fresh_clock_restarted", ps.r_other_clock);
    out.stat("pairs_reset_continuations_that_changed_the_user_dictionary", ps.r_learned);
    out.stat("pairs_contexts_sessions", ps.p_sessions);
    out.stat("pairs_contexts_ops", ps.p_ops);
    out.stat("pairs_contexts_ops_of_other_contexts", ps.p_other_ops);
    out.stat("pairs_contexts_with_second_thread", ps.p_threaded);
    out.stat("pairs_full_getter_compares", ps.full_compares);
    out.stat("pairs_sessions_ended_by_panic", ps.panics);
}
