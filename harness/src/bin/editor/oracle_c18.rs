//! C18 evaluated directly on the real editor, written from the property statement (no table or code
//! shared with the editor or the Lean model):
//!
//! * a printable ASCII key in English mode (and a shifted letter in Chinese mode, which shares the
//!   branch): empty buffer => answered Commit, the commit string is exactly ONE character, the buffer
//!   stays empty; non-empty buffer => that one character is inserted exactly at the cursor.  Half-width
//!   form: the character is the typed one.  Full-width form: it is a wide character (not ASCII), the
//!   standard full-width form for letters, digits and the space, and the mapping observed over the run
//!   is a function and injective (distinct characters stay distinct);
//! * a keypad key (NumLock modifier) yields its character verbatim in every mode (as coded; outside the
//!   statement, checked so that the scope boundary is observed);
//! * CapsLock toggles the language mode and nothing else among the 14 options; Shift-Space (state
//!   Entering) toggles the character form iff the toggle key is enabled; no other key changes any
//!   option; neither toggle nor a configuration call alters the text in the buffer.
use crate::step::*;
use chewing::editor::keyboard::KeyCode;
use std::cell::RefCell;
use std::collections::{BTreeMap, BTreeSet};
use vharness::{unhex, Out};

#[derive(Default)]
struct Seen {
    fwd: BTreeMap<u32, u32>,
    back: BTreeMap<u32, u32>,
    /// (character, full, english, empty buffer) cells on which the character rule was evaluated
    cells: BTreeSet<(u32, bool, bool, bool)>,
    toggles_caps: u64,
    toggles_form: u64,
    toggles_nonempty: u64,
    setopts: u64,
    numlock: u64,
}

thread_local! {
    static SEEN: RefCell<Seen> = RefCell::new(Seen::default());
}

fn opts(snap: &str) -> Vec<&str> {
    sections(snap)[4].split(' ').collect()
}

fn flip(x: &str) -> &'static str {
    if x == "0" { "1" } else { "0" }
}

pub fn finish(out: &mut Out) {
    SEEN.with(|s| {
        let s = s.borrow();
        out.stat("c18_char_cells", s.cells.len());
        out.stat("c18_cells_english", s.cells.iter().filter(|c| c.2).count());
        out.stat("c18_fullwidth_pairs_seen", s.fwd.len());
        out.stat("c18_capslock_events", s.toggles_caps);
        out.stat("c18_shiftspace_toggles", s.toggles_form);
        out.stat("c18_toggles_with_text_in_buffer", s.toggles_nonempty);
        out.stat("c18_setopts_calls", s.setopts);
        out.stat("c18_numlock_keys", s.numlock);
    });
}

pub fn check(out: &mut Out, st: &Step) {
    let (pre, post) = (st.pre, st.post);
    let (a, b) = (sections(pre), sections(post));
    let (o0, o1) = (opts(pre), opts(post));
    let ev = match st.key {
        Some(ev) => ev,
        None => {
            if st.op.starts_with("setopts") {
                SEEN.with(|s| s.borrow_mut().setopts += 1);
                if a[1] != b[1] || misc(pre)[3] != misc(post)[3] {
                    out.oracle_fail("C18", "new", &format!("a configuration call altered the buffer, the cursor or the commit string: {}", st.hist()));
                }
            }
            return;
        }
    };
    let state0 = a[0].as_bytes()[0];
    let (s0, s1) = (symbols(pre), symbols(post));
    let c0: usize = com_tokens(pre)[0].parse().unwrap();
    let thr: usize = o0[6].parse().unwrap();
    let m = ev.modifiers;
    // ---- which options may change
    let is_caps = ev.code == KeyCode::Unknown && m.capslock && !(state0 == b'S' && (m.ctrl || m.shift));
    let is_shsp = state0 == b'E' && ev.code == KeyCode::Space && m.shift && o0[13] == "1";
    let mut want: Vec<String> = o0.iter().map(|s| s.to_string()).collect();
    if is_caps {
        want[8] = flip(o0[8]).to_string();
    } else if is_shsp {
        want[9] = flip(o0[9]).to_string();
    }
    if want.iter().zip(&o1).any(|(x, y)| x != y) {
        out.oracle_fail("C18", "new", &format!(
            "options after the key are [{}], expected [{}] (CapsLock event: {}, effective Shift-Space: {}): {}",
            o1.join(" "), want.join(" "), is_caps, is_shsp, st.hist()));
    }
    if is_caps || is_shsp {
        SEEN.with(|s| {
            let mut s = s.borrow_mut();
            if is_caps { s.toggles_caps += 1 } else { s.toggles_form += 1 }
            if !s0.is_empty() { s.toggles_nonempty += 1 }
        });
        // the text in the buffer is not altered (beyond an auto-commit of a buffer that was already over the limit)
        let same_text = s0 == s1 && misc(post)[3] == "x";
        let within = s0.len() <= thr;
        if within && !same_text {
            out.oracle_fail("C18", "new", &format!("a mode toggle altered the text: [{}] -> [{}], commit {}: {}", s0.join(" "), s1.join(" "), misc(post)[3], st.hist()));
        }
        if within && state0 != b'S' && a[1] != b[1] {
            out.oracle_fail("C18", "new", &format!("a mode toggle moved the cursor or changed gaps/selections: {}", st.hist()));
        }
        return;
    }
    // ---- the character rule
    let code = ev.code as u8;
    let u = ev.unicode as u32;
    let printable_key = state0 == b'E' && (1..=48).contains(&code) && (0x20..=0x7e).contains(&u) && !m.ctrl && !m.numlock
        && !(ev.code == KeyCode::Space && m.shift);
    // keypad keys (NumLock modifier) are passed through verbatim in either form and language mode
    let numlock_key = state0 == b'E' && (1..=48).contains(&code) && (0x20..=0x7e).contains(&u) && !m.ctrl && m.numlock
        && !(ev.code == KeyCode::Space && m.shift && o0[13] == "1") && !(ev.code == KeyCode::Space && o0[2] == "1" && o0[8] == "0");
    if !printable_key && !numlock_key {
        return;
    }
    let english = o0[8] == "1" || numlock_key;
    let full = o0[9] == "1" && !numlock_key;
    if numlock_key {
        SEEN.with(|s| s.borrow_mut().numlock += 1);
    }
    let shifted_letter_in_chinese = !english && o0[0] == "0" && m.shift && (b'A' as u32..=b'Z' as u32).contains(&u);
    if !numlock_key {
        SEEN.with(|s| s.borrow_mut().cells.insert((u, full, english, s0.is_empty())));
    }
    if !(english || shifted_letter_in_chinese) {
        return;
    }
    // the one character the key produced
    let produced: Option<u32> = if s0.is_empty() {
        let commit = String::from_utf8(unhex(misc(post)[3])).unwrap_or_default();
        let mut it = commit.chars();
        match (it.next(), it.next()) {
            (Some(ch), None) if st.ret == "C" && s1.is_empty() && b[0] == "E" => Some(ch as u32),
            _ => {
                out.oracle_fail("C18", "new", &format!(
                    "printable key {:?} (U+{:04X}) on an empty buffer: expected Commit of exactly one character and an empty buffer, got {} commit {:?} buffer [{}]: {}",
                    ev.code, u, st.ret, commit, s1.join(" "), st.hist()));
                None
            }
        }
    } else if s0.len() + 1 <= thr {
        let ok = st.ret == "A" && s1.len() == s0.len() + 1 && s1[..c0] == s0[..c0] && s1[c0 + 1..] == s0[c0..]
            && s1[c0].starts_with('c') && com_tokens(post)[0] == (c0 + 1).to_string() && misc(post)[3] == "x" && b[0] == "E";
        if ok {
            s1[c0][1..].parse().ok()
        } else {
            out.oracle_fail("C18", "new", &format!(
                "printable key {:?} (U+{:04X}) with text in the buffer: expected one character inserted at the cursor {}, got {} [{}] -> [{}] cursor {}: {}",
                ev.code, u, c0, st.ret, s0.join(" "), s1.join(" "), com_tokens(post)[0], st.hist()));
            None
        }
    } else {
        None
    };
    let ch = match produced {
        Some(ch) => ch,
        None => return,
    };
    if !full {
        if ch != u {
            out.oracle_fail("C18", "new", &format!("half-width form: key U+{:04X} produced U+{:04X}: {}", u, ch, st.hist()));
        }
        return;
    }
    if ch <= 0x7e {
        out.oracle_fail("C18", "new", &format!("full-width form: key U+{:04X} produced the ASCII character U+{:04X}: {}", u, ch, st.hist()));
    }
    let alnum = (b'0' as u32..=b'9' as u32).contains(&u) || (b'a' as u32..=b'z' as u32).contains(&u) || (b'A' as u32..=b'Z' as u32).contains(&u);
    if (alnum && ch != u + 0xFEE0) || (u == 0x20 && ch != 0x3000) {
        out.oracle_fail("C18", "new", &format!("full-width form: key U+{:04X} produced U+{:04X}, not its full-width form: {}", u, ch, st.hist()));
    }
    SEEN.with(|s| {
        let mut s = s.borrow_mut();
        if let Some(&prev) = s.fwd.get(&u) {
            if prev != ch {
                out.oracle_fail("C18", "new", &format!("full-width form is not a function: U+{:04X} produced U+{:04X} before and U+{:04X} now: {}", u, prev, ch, st.hist()));
            }
        }
        if let Some(&other) = s.back.get(&ch) {
            if other != u {
                out.oracle_fail("C18", "new", &format!("full-width form is not injective: U+{:04X} and U+{:04X} both produce U+{:04X}: {}", other, u, ch, st.hist()));
            }
        }
        s.fwd.insert(u, ch);
        s.back.entry(ch).or_insert(u);
    });
}
