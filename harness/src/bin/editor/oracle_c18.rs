//! C18 evaluated directly on the real editor, written from the property statement (no table or code
//! shared with the editor or the Lean model):
//!
//! * a printable ASCII key in English mode (and a shifted letter in Chinese mode, which shares the
//!   branch): empty buffer => answered Commit, the commit string is exactly ONE character, the buffer
//!   stays empty; non-empty buffer => that one character is inserted exactly at the cursor.  Half-width
//!   form: the character is the typed one.  Full-width form: it is a wide character (not ASCII), the
//!   standard full-width form for letters, digits and the space, and the mapping observed over the run
//!   is a function and injective (distinct characters stay distinct);
//! * a keypad key (NumLock modifier) yields its character verbatim in every mode (as coded; outside the
//!   statement, checked so that the scope boundary is observed);
//! * CapsLock toggles the language mode and nothing else among the 14 options; Shift-Space (state
//!   Entering) toggles the character form iff the toggle key is enabled; no other key changes any
//!   option; neither toggle nor a configuration call alters the text in the buffer;
//! * "changing a mode never alters text already in the buffer", at EVERY mode change — the CapsLock key in
//!   any of the four states, the effective Shift-Space key, a `set_editor_options` call that changes the
//!   language mode or the character form (both directions): the STRING `display()` shows, the composition
//!   (symbols, gaps, selections), the chosen alternative (`nth_conversion`), the cursor and the saved cursors
//!   are exactly as before.  What the code legitimately does besides flipping the option, and nothing more:
//!   the pending phonetic keys may be dropped (CapsLock in EnteringSyllable, a language change through the
//!   setter), an open candidate list is closed by CapsLock (the cursor returns to the saved one), the state
//!   becomes Entering after a key toggle, and a buffer that was ALREADY over `auto_commit_threshold` has its
//!   leading part pushed out by the key's auto-commit (the rest is a suffix of the old buffer; `nth` still
//!   unchanged).  `alts_pre` (all alternatives the engine offered for the text shown before) tells how many
//!   toggles met a non-default alternative that READS differently from the default one — only those expose a
//!   toggle that resets the choice.
use crate::step::*;
use chewing::editor::keyboard::KeyCode;
use std::cell::RefCell;
use std::collections::{BTreeMap, BTreeSet};
use vharness::{unhex, Out};

#[derive(Default)]
struct Seen {
    fwd: BTreeMap<u32, u32>,
    back: BTreeMap<u32, u32>,
    /// (character, full, english, empty buffer) cells on which the character rule was evaluated
    cells: BTreeSet<(u32, bool, bool, bool)>,
    toggles_caps: u64,
    toggles_form: u64,
    toggles_nonempty: u64,
    setopts: u64,
    numlock: u64,
    /// mode changes by kind (`caps` | `shsp` | `setter_lang` | `setter_form` | `setter_both`) x state before (E Y S H)
    toggle_by: BTreeMap<String, u64>,
    toggles_nth_nonzero: u64,
    toggles_nth_nonzero_by: BTreeMap<String, u64>,
    /// … of which the alternative shown reads differently from the default one (they alone expose a reset of `nth`)
    toggles_nth_exposing: u64,
    toggles_nth_exposing_by: BTreeMap<String, u64>,
    display_compared: u64,
    display_not_comparable: u64,
    toggles_over_limit: u64,
}

thread_local! {
    static SEEN: RefCell<Seen> = RefCell::new(Seen::default());
}

fn opts(snap: &str) -> Vec<&str> {
    sections(snap)[4].split(' ').collect()
}

fn flip(x: &str) -> &'static str {
    if x == "0" { "1" } else { "0" }
}

pub fn finish(out: &mut Out) {
    SEEN.with(|s| {
        let s = s.borrow();
        out.stat("c18_char_cells", s.cells.len());
        out.stat("c18_cells_english", s.cells.iter().filter(|c| c.2).count());
        out.stat("c18_fullwidth_pairs_seen", s.fwd.len());
        out.stat("c18_capslock_events", s.toggles_caps);
        out.stat("c18_shiftspace_toggles", s.toggles_form);
        out.stat("c18_toggles_with_text_in_buffer", s.toggles_nonempty);
        out.stat("c18_setopts_calls", s.setopts);
        out.stat("c18_numlock_keys", s.numlock);
        for (k, n) in &s.toggle_by {
            out.stat(&format!("c18_mode_change.{}", k), n);
        }
        out.stat("c18_mode_changes_with_nth_nonzero", s.toggles_nth_nonzero);
        for (k, n) in &s.toggles_nth_nonzero_by {
            out.stat(&format!("c18_mode_changes_with_nth_nonzero.{}", k), n);
        }
        out.stat("c18_mode_changes_with_nth_nonzero_reading_differently", s.toggles_nth_exposing);
        for (k, n) in &s.toggles_nth_exposing_by {
            out.stat(&format!("c18_mode_changes_with_nth_nonzero_reading_differently.{}", k), n);
        }
        out.stat("c18_mode_changes_display_strings_compared", s.display_compared);
        out.stat("c18_mode_changes_display_not_comparable", s.display_not_comparable);
        out.stat("c18_key_toggles_with_buffer_over_limit", s.toggles_over_limit);
        // the crossing-phrase sessions exist to put a differently reading non-default alternative under every kind of
        // mode change: if they ran and none did, the generator has lost its teeth
        let cross = crate::script_c18::cross_sessions_built();
        out.stat("c18_crossing_sessions", cross);
        if cross > 0 {
            for kind in ["caps.E", "caps.Y", "caps.H", "shsp.E", "setter_lang.E", "setter_form.E"] {
                if s.toggles_nth_exposing_by.get(kind).copied().unwrap_or(0) == 0 {
                    out.oracle_fail("C18", "new", &format!(
                        "generator: {} crossing-phrase sessions ran but no mode change of kind {} met a non-default alternative that reads differently from the default one (the only situation exposing a toggle that resets the choice)",
                        cross, kind));
                }
            }
        }
    });
}

/// (cursor, saved cursors, composition = symbols + gaps + selections as text)
fn com_parts(snap: &str) -> (usize, Vec<usize>, String) {
    let t = com_tokens(snap);
    let nstack: usize = t[1].parse().unwrap();
    let stack = t[2..2 + nstack].iter().map(|x| x.parse().unwrap()).collect();
    (t[0].parse().unwrap(), stack, t[2 + nstack..].join(" "))
}

fn state_name(c: u8) -> &'static str {
    match c {
        b'E' => "Entering",
        b'Y' => "EnteringSyllable",
        b'S' => "Selecting",
        _ => "Highlighting",
    }
}

/// "Changing a mode never alters text already in the buffer": `kind` = caps | shsp (keys) | setter_* (configuration call)
fn check_mode_change(out: &mut Out, st: &Step, kind: &str) {
    let (pre, post) = (st.pre, st.post);
    let (a, b) = (sections(pre), sections(post));
    let (state0, state1) = (a[0].as_bytes()[0], b[0].as_bytes()[0]);
    let is_key = st.key.is_some();
    let (s0, s1) = (symbols(pre), symbols(post));
    let thr = option(pre, 6);
    let (nth0, nth1) = (misc(pre)[2], misc(post)[2]);
    let nth: usize = nth0.parse().unwrap_or(0);
    let tag = format!("{}.{}", kind, state0 as char);
    let shown_alt = if st.alts_pre.is_empty() { 0 } else { nth % st.alts_pre.len() };
    let exposing = nth != 0 && !st.alts_pre.is_empty() && st.alts_pre[shown_alt] != st.alts_pre[0];
    // a key toggle ends with the auto-commit: a buffer already over the limit loses its leading part
    let over = is_key && s0.len() > thr;
    SEEN.with(|s| {
        let mut s = s.borrow_mut();
        *s.toggle_by.entry(tag.clone()).or_insert(0) += 1;
        if nth != 0 {
            s.toggles_nth_nonzero += 1;
            *s.toggles_nth_nonzero_by.entry(tag.clone()).or_insert(0) += 1;
        }
        if exposing {
            s.toggles_nth_exposing += 1;
            *s.toggles_nth_exposing_by.entry(tag.clone()).or_insert(0) += 1;
        }
        if over {
            s.toggles_over_limit += 1;
        }
    });
    let what = format!("a mode change ({}, state {})", match kind {
        "caps" => "CapsLock key",
        "shsp" => "Shift-Space key",
        "setter_lang" => "set_editor_options changing the language mode",
        "setter_form" => "set_editor_options changing the character form",
        _ => "set_editor_options changing both modes",
    }, state_name(state0));
    let shown = |d: Option<&str>| d.map(|x| format!("{:?}", x)).unwrap_or_else(|| "<display() panicked>".into());
    let alts = format!("alternatives offered before: {:?}, shown: #{}", st.alts_pre, shown_alt);
    // 1. the chosen alternative, always (the auto-commit does not touch it either)
    if nth0 != nth1 {
        out.oracle_fail("C18", "new", &format!(
            "{} changed the chosen alternative: nth_conversion {} -> {}; text shown {} -> {} ({}): {}",
            what, nth0, nth1, shown(st.display_pre), shown(st.display_post), alts, st.hist()));
        return;
    }
    // 2. the phonetic buffer: as before, or dropped
    if a[2] != b[2] && !syl_is_empty(post) {
        out.oracle_fail("C18", "new", &format!("{} changed the pending phonetic keys to something else than nothing: [{}] -> [{}]: {}", what, a[2], b[2], st.hist()));
        return;
    }
    // 3. the state afterwards
    let state_ok = if is_key {
        state1 == b'E'
    } else {
        state1 == state0 || (state0 == b'Y' && state1 == b'E' && syl_is_empty(post))
            || (state0 == b'S' && state1 == b'E' && st.cand_pre.is_some_and(|c| c.all.is_empty()))
    };
    if !state_ok {
        out.oracle_fail("C18", "new", &format!("{} left the editor in state {}: {}", what, state_name(state1), st.hist()));
        return;
    }
    if over {
        // what stays is the tail of what was there
        if s1.len() > s0.len() || s0[s0.len() - s1.len()..] != s1[..] {
            out.oracle_fail("C18", "new", &format!("{} with the buffer over the limit: [{}] -> [{}] is not a suffix: {}", what, s0.join(" "), s1.join(" "), st.hist()));
        }
        return;
    }
    // 4. the composition: symbols, gaps (break / glue marks), selections
    let ((cur0, stack0, comp0), (cur1, stack1, comp1)) = (com_parts(pre), com_parts(post));
    if comp0 != comp1 {
        out.oracle_fail("C18", "new", &format!(
            "{} altered the text: symbols / gaps / selections [{}] -> [{}]; text shown {} -> {}: {}",
            what, comp0, comp1, shown(st.display_pre), shown(st.display_post), st.hist()));
        return;
    }
    // 5. cursor and saved cursors: untouched, except that closing a candidate list returns to the saved cursor
    let closes_list = state0 == b'S' && state1 == b'E';
    let (want_cur, want_stack) = if closes_list {
        let mut stk = stack0.clone();
        let c = stk.pop().unwrap_or(cur0).min(s0.len());
        (c, stk)
    } else {
        (cur0, stack0.clone())
    };
    if (cur1, &stack1) != (want_cur, &want_stack) {
        out.oracle_fail("C18", "new", &format!(
            "{} moved the cursor: cursor {} saved {:?} -> cursor {} saved {:?}, expected cursor {} saved {:?}: {}",
            what, cur0, stack0, cur1, stack1, want_cur, want_stack, st.hist()));
        return;
    }
    // 6. the commit string: a key toggle commits nothing; the configuration call leaves it alone
    let commit_ok = if is_key { misc(post)[3] == "x" } else { misc(post)[3] == misc(pre)[3] };
    if !commit_ok {
        out.oracle_fail("C18", "new", &format!("{} changed the commit string: {} -> {}: {}", what, misc(pre)[3], misc(post)[3], st.hist()));
        return;
    }
    // 7. the STRING the application shows
    match (st.display_pre, st.display_post) {
        (Some(d0), Some(d1)) => {
            SEEN.with(|s| s.borrow_mut().display_compared += 1);
            if d0 != d1 {
                out.oracle_fail("C18", "new", &format!(
                    "{} altered the text shown: {:?} -> {:?} (nth_conversion {} -> {}; {}): {}",
                    what, d0, d1, nth0, nth1, alts, st.hist()));
            }
        }
        (None, None) => SEEN.with(|s| s.borrow_mut().display_not_comparable += 1),
        (d0, d1) => out.oracle_fail("C18", "new", &format!("{} altered what display() answers: {} -> {}: {}", what, shown(d0), shown(d1), st.hist())),
    }
}

pub fn check(out: &mut Out, st: &Step) {
    let (pre, post) = (st.pre, st.post);
    let (a, b) = (sections(pre), sections(post));
    let (o0, o1) = (opts(pre), opts(post));
    let ev = match st.key {
        Some(ev) => ev,
        None => {
            if st.op.starts_with("setopts") {
                SEEN.with(|s| s.borrow_mut().setopts += 1);
                // a change of a mode through the configuration interface (leaving the engine / look-up options alone)
                let (lang, form) = (o0[8] != o1[8], o0[9] != o1[9]);
                if (lang || form) && o0[11] == o1[11] && o0[12] == o1[12] {
                    check_mode_change(out, st, if lang && form { "setter_both" } else if lang { "setter_lang" } else { "setter_form" });
                } else if a[1] != b[1] || misc(pre)[3] != misc(post)[3] {
                    out.oracle_fail("C18", "new", &format!("a configuration call altered the buffer, the cursor or the commit string: {}", st.hist()));
                }
            }
            return;
        }
    };
    let state0 = a[0].as_bytes()[0];
    let (s0, s1) = (symbols(pre), symbols(post));
    let c0: usize = com_tokens(pre)[0].parse().unwrap();
    let thr: usize = o0[6].parse().unwrap();
    let m = ev.modifiers;
    // ---- which options may change
    let is_caps = ev.code == KeyCode::Unknown && m.capslock && !(state0 == b'S' && (m.ctrl || m.shift));
    let is_shsp = state0 == b'E' && ev.code == KeyCode::Space && m.shift && o0[13] == "1";
    let mut want: Vec<String> = o0.iter().map(|s| s.to_string()).collect();
    if is_caps {
        want[8] = flip(o0[8]).to_string();
    } else if is_shsp {
        want[9] = flip(o0[9]).to_string();
    }
    if want.iter().zip(&o1).any(|(x, y)| x != y) {
        out.oracle_fail("C18", "new", &format!(
            "options after the key are [{}], expected [{}] (CapsLock event: {}, effective Shift-Space: {}): {}",
            o1.join(" "), want.join(" "), is_caps, is_shsp, st.hist()));
    }
    if is_caps || is_shsp {
        SEEN.with(|s| {
            let mut s = s.borrow_mut();
            if is_caps { s.toggles_caps += 1 } else { s.toggles_form += 1 }
            if !s0.is_empty() { s.toggles_nonempty += 1 }
        });
        // the text in the buffer is not altered (beyond an auto-commit of a buffer that was already over the limit)
        check_mode_change(out, st, if is_caps { "caps" } else { "shsp" });
        return;
    }
    // ---- the character rule
    let code = ev.code as u8;
    let u = ev.unicode as u32;
    let printable_key = state0 == b'E' && (1..=48).contains(&code) && (0x20..=0x7e).contains(&u) && !m.ctrl && !m.numlock
        && !(ev.code == KeyCode::Space && m.shift);
    // keypad keys (NumLock modifier) are passed through verbatim in either form and language mode
    let numlock_key = state0 == b'E' && (1..=48).contains(&code) && (0x20..=0x7e).contains(&u) && !m.ctrl && m.numlock
        && !(ev.code == KeyCode::Space && m.shift && o0[13] == "1") && !(ev.code == KeyCode::Space && o0[2] == "1" && o0[8] == "0");
    if !printable_key && !numlock_key {
        return;
    }
    let english = o0[8] == "1" || numlock_key;
    let full = o0[9] == "1" && !numlock_key;
    if numlock_key {
        SEEN.with(|s| s.borrow_mut().numlock += 1);
    }
    let shifted_letter_in_chinese = !english && o0[0] == "0" && m.shift && (b'A' as u32..=b'Z' as u32).contains(&u);
    if !numlock_key {
        SEEN.with(|s| s.borrow_mut().cells.insert((u, full, english, s0.is_empty())));
    }
    if !(english || shifted_letter_in_chinese) {
        return;
    }
    // the one character the key produced
    let produced: Option<u32> = if s0.is_empty() {
        let commit = String::from_utf8(unhex(misc(post)[3])).unwrap_or_default();
        let mut it = commit.chars();
        match (it.next(), it.next()) {
            (Some(ch), None) if st.ret == "C" && s1.is_empty() && b[0] == "E" => Some(ch as u32),
            _ => {
                out.oracle_fail("C18", "new", &format!(
                    "printable key {:?} (U+{:04X}) on an empty buffer: expected Commit of exactly one character and an empty buffer, got {} commit {:?} buffer [{}]: {}",
                    ev.code, u, st.ret, commit, s1.join(" "), st.hist()));
                None
            }
        }
    } else if s0.len() + 1 <= thr {
        let ok = st.ret == "A" && s1.len() == s0.len() + 1 && s1[..c0] == s0[..c0] && s1[c0 + 1..] == s0[c0..]
            && s1[c0].starts_with('c') && com_tokens(post)[0] == (c0 + 1).to_string() && misc(post)[3] == "x" && b[0] == "E";
        if ok {
            s1[c0][1..].parse().ok()
        } else {
            out.oracle_fail("C18", "new", &format!(
                "printable key {:?} (U+{:04X}) with text in the buffer: expected one character inserted at the cursor {}, got {} [{}] -> [{}] cursor {}: {}",
                ev.code, u, c0, st.ret, s0.join(" "), s1.join(" "), com_tokens(post)[0], st.hist()));
            None
        }
    } else {
        None
    };
    let ch = match produced {
        Some(ch) => ch,
        None => return,
    };
    if !full {
        if ch != u {
            out.oracle_fail("C18", "new", &format!("half-width form: key U+{:04X} produced U+{:04X}: {}", u, ch, st.hist()));
        }
        return;
    }
    if ch <= 0x7e {
        out.oracle_fail("C18", "new", &format!("full-width form: key U+{:04X} produced the ASCII character U+{:04X}: {}", u, ch, st.hist()));
    }
    let alnum = (b'0' as u32..=b'9' as u32).contains(&u) || (b'a' as u32..=b'z' as u32).contains(&u) || (b'A' as u32..=b'Z' as u32).contains(&u);
    if (alnum && ch != u + 0xFEE0) || (u == 0x20 && ch != 0x3000) {
        out.oracle_fail("C18", "new", &format!("full-width form: key U+{:04X} produced U+{:04X}, not its full-width form: {}", u, ch, st.hist()));
    }
    SEEN.with(|s| {
        let mut s = s.borrow_mut();
        if let Some(&prev) = s.fwd.get(&u) {
            if prev != ch {
                out.oracle_fail("C18", "new", &format!("full-width form is not a function: U+{:04X} produced U+{:04X} before and U+{:04X} now: {}", u, prev, ch, st.hist()));
            }
        }
        if let Some(&other) = s.back.get(&ch) {
            if other != u {
                out.oracle_fail("C18", "new", &format!("full-width form is not injective: U+{:04X} and U+{:04X} both produce U+{:04X}: {}", other, u, ch, st.hist()));
            }
        }
        s.fwd.insert(u, ch);
        s.back.entry(ch).or_insert(u);
    });
}
