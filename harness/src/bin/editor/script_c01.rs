//! Scripted scenario family for C01 (`editor --script c01`): candidate choices over BREAK / GLUE marks.
//!
//! For every dictionary phrase of 2..4 syllables of a small dictionary: type it (alone, or with a neighbour syllable
//! before and / or after), put marks with Tab at the gaps INSIDE it (one Tab = break or glue, depending on the
//! conversion at that moment; two Tabs at one gap; marks at two different gaps), then from EVERY cursor position open
//! the candidate list (Down) under forward and rearward phrase choice and the chewing / fuzzy / simple engine, cycle
//! the range (Down / Space / j / k), choose EVERY candidate index (digit key and `Editor::select(n)`, one index past the
//! end included) — the multi-syllable candidates that cover a marked gap among them — and go on: Enter, Tab at the
//! end of the buffer (next alternative), more syllables, the list again, `commit()`, another mark.
//!
//! Every probe starts from a freshly built editor that replays the scenario so far, so probes are independent.  Each
//! operation runs as the steps of the generated sessions do: under `guarded` (catch_unwind + look-up fuel), followed by
//! every read-only accessor (`display()` = the next conversion, …), with C01's verdict (`oracle_c01`: `!oracle C01 new …`
//! with the complete history) and a normal `ed …` step record the model recomputes (plus the `ed cands` record).
use crate::step::{gaps, sel_info, CandView, Step};
use crate::{engine, guarded, kb_s, layout, op_s, sink, ConvLog, LayoutCell, Op, Session, SharedLayout, SysLayer, ALL_CODES, CHARS, LOOKUPS, LOOKUP_FUEL};
use chewing::dictionary::{Dictionary, DictionaryMut, Layered, LookupStrategy, Phrase, TrieBuf};
use chewing::editor::keyboard::{KeyCode, KeyEvent, KeyboardLayout, Modifiers, Qwerty};
use chewing::editor::{
    AbbrevTable, BasicEditor, CharacterForm, ConversionEngineKind, Editor, EditorOptions, LanguageMode, LaxUserFreqEstimate,
    SymbolSelector, UserPhraseAddDirection,
};
use chewing::zhuyin::Syllable;
use std::cell::RefCell;
use std::collections::{BTreeMap, BTreeSet};
use std::io::Write as _;
use std::rc::Rc;
use vharness::Out;

const SYMBOLS: &str = "…\n※\n常用符號=，、。\n括號=（）「」\n";
const PER: usize = 10;
const NO_TAIL: usize = usize::MAX;

fn opts() -> EditorOptions {
    EditorOptions {
        easy_symbol_input: false,
        esc_clear_all_buffer: false,
        space_is_select_key: false,
        auto_shift_cursor: false,
        phrase_choice_rearward: false,
        disable_auto_learn_phrase: false,
        auto_commit_threshold: 20,
        candidates_per_page: PER,
        language_mode: LanguageMode::Chinese,
        character_form: CharacterForm::Halfwidth,
        user_phrase_add_dir: UserPhraseAddDirection::Forward,
        lookup_strategy: LookupStrategy::Standard,
        conversion_engine: ConversionEngineKind::ChewingEngine,
        enable_fullwidth_toggle_key: true,
    }
}

/// index of the neighbour syllable typed BEFORE / AFTER a phrase
const NB_BEFORE: usize = 4;
const NB_AFTER: usize = 5;

/// one system layer over the syllables s0..s5: three words each; phrases over (s0 s1) [two of them], (s1 s2), (s0 s1 s2),
/// (s1 s2 s3), (s0 s1 s2 s3) and — crossing the boundary to the neighbour typed before a phrase — (s4 s0), (s4 s1)
fn system_layer(syls: &[Syllable]) -> SysLayer {
    let mut layer: SysLayer = vec![];
    for (i, s) in syls.iter().enumerate().take(6) {
        for j in 0..3 {
            layer.push((vec![*s], CHARS[(i * 3 + j) % CHARS.len()].to_string(), (100 - j) as u32));
        }
    }
    let ph = |ix: &[usize], f: u32| -> (Vec<Syllable>, String, u32) {
        (ix.iter().map(|i| syls[*i]).collect(), ix.iter().map(|i| CHARS[(*i * 5 + f as usize) % CHARS.len()]).collect(), 200 + f)
    };
    layer.extend([
        ph(&[0, 1], 1), ph(&[0, 1], 2), ph(&[1, 2], 1), ph(&[0, 1, 2], 1), ph(&[1, 2, 3], 2), ph(&[0, 1, 2, 3], 1),
        ph(&[NB_BEFORE, 0], 3), ph(&[NB_BEFORE, 1], 3),
    ]);
    layer
}

fn build(layer: &SysLayer, abbr_path: &std::path::Path) -> Session {
    let mk = || {
        let mut d = TrieBuf::new_in_memory();
        for (k, p, f) in layer {
            DictionaryMut::add_phrase(&mut d, k, Phrase::new(p.as_str(), *f)).unwrap();
        }
        d
    };
    let sys_boxes: Vec<Box<dyn Dictionary>> = vec![Box::new(crate::FuelDict(mk()))];
    let user = Box::new(TrieBuf::new_in_memory());
    let user_ptr: *const TrieBuf = &*user;
    let dict = Layered::new(sys_boxes, user);
    let conv_log: ConvLog = Rc::new(RefCell::new(vec![]));
    let lay: LayoutCell = Rc::new(RefCell::new(layout(0)));
    let abbr = AbbrevTable::open(abbr_path).unwrap();
    let sym_sel = SymbolSelector::new(std::io::Cursor::new(SYMBOLS)).unwrap();
    let mut ed = Editor::new(engine(1, &conv_log), dict, LaxUserFreqEstimate::new(0), abbr, sym_sel);
    ed.set_syllable_editor(Box::new(SharedLayout(lay.clone())));
    ed.set_editor_options(opts());
    crate::register_user(&conv_log, user_ptr);
    Session { ed, lay, conv_log, user: user_ptr, sys: vec![layer.clone()], layout_kind: 0, probes: vec![mk()], engine_kind: 1 }
}

fn event(op: &Op) -> Option<KeyEvent> {
    match op {
        Op::Key(c, m) => Some(Qwerty.map_with_mod(*c, *m)),
        _ => None,
    }
}

/// the operation itself, as `main` applies it (fresh look-up budget); Err("panic" | "hang")
fn apply(s: &mut Session, op: &Op) -> Result<String, &'static str> {
    let ev = event(op);
    guarded(|| -> String {
        match op {
            Op::Key(..) => kb_s(s.ed.process_keyevent(ev.unwrap())).to_string(),
            Op::Select(n) => (if s.ed.select(*n).is_ok() { "ok" } else { "err" }).into(),
            Op::Commit => (if s.ed.commit().is_ok() { "ok" } else { "err" }).into(),
            Op::SetOpts(o) => {
                s.ed.set_editor_options(*o);
                "ok".into()
            }
            Op::SetEngine(k) => {
                let mut o = s.ed.editor_options();
                s.ed.set_conversion_engine(engine(*k, &s.conv_log));
                s.engine_kind = *k;
                o.conversion_engine = match k {
                    0 => ConversionEngineKind::SimpleEngine,
                    2 => ConversionEngineKind::FuzzyChewingEngine,
                    _ => ConversionEngineKind::ChewingEngine,
                };
                o.lookup_strategy = if *k == 2 { LookupStrategy::FuzzyPartialPrefix } else { LookupStrategy::Standard };
                s.ed.set_editor_options(o);
                "ok".into()
            }
            _ => unreachable!("script c01 uses keys, select, commit, setopts and setengine only"),
        }
    })
}

/// replay without records (the same operations were recorded before); false = one of them failed
fn replay(s: &mut Session, ops: &[Op]) -> bool {
    let ok = ops.iter().all(|op| apply(s, op).is_ok());
    s.conv_log.borrow_mut().clear();
    ok
}

#[derive(Default)]
struct Tally {
    steps: u64,
    failures: u64,
    max_lookups: u64,
}

/// One recorded step, the way `main` runs the steps of a generated session: operation under `guarded`, every
/// read-only accessor on the post-state, C01's verdict, the transcript record(s).  Some((ret, post-state)) iff the
/// operation AND every accessor returned.
fn record(out: &mut Out, s: &mut Session, op: &Op, history: &mut Vec<String>, seed: u64, sid: u64, t: &mut Tally) -> Option<(String, String)> {
    let ev = event(op);
    let pre = s.ed.verif_snapshot();
    let dict_pre = s.dict_s();
    let lay_ans = s.layout_answers(ev);
    LOOKUPS.with(|c| c.set(0));
    let cand_pre: Option<CandView> = s.cand_view(&pre);
    let display_pre = guarded(|| s.ed.display()).ok();
    let alts_pre: Vec<String> = s.conv_log.borrow().last().map(|c| c.2.iter().map(|p| p.iter().map(|iv| &*iv.str).collect()).collect()).unwrap_or_default();
    let len_pre = s.ed.len();
    s.conv_log.borrow_mut().clear();
    let no_word_pre = s.no_word(&pre);
    let res = apply(s, op);
    t.steps += 1;
    t.max_lookups = t.max_lookups.max(LOOKUPS.with(|c| c.get()).min(LOOKUP_FUEL));
    let conv_ans = s.conv_answers();
    let conv_step = s.conv_log.borrow().clone();
    let opstr = op_s(op, &ev);
    history.push(opstr.clone());
    match res {
        Ok(ret) => {
            let post = s.ed.verif_snapshot();
            let dict_post = s.dict_s();
            let no_word_post = s.no_word(&post);
            // every read-only accessor on the post-state (`display()` runs the next conversion)
            let mut getter_fail: Option<(&str, &str)> = None;
            {
                let ed = &s.ed;
                let accessors: [(&str, &dyn Fn()); 12] = [
                    ("display", &|| sink(ed.display())),
                    ("intervals", &|| sink(ed.intervals().count())),
                    ("len/cursor/is_empty", &|| sink((ed.len(), ed.cursor(), ed.is_empty(), ed.is_entering(), ed.is_selecting(), ed.entering_syllable(), ed.last_key_behavior()))),
                    ("syllable_buffer_display", &|| sink((ed.syllable_buffer_display(), ed.syllable_buffer()))),
                    ("display_commit/notification", &|| sink((ed.display_commit().len(), ed.notification().len()))),
                    ("paginated_candidates", &|| sink(ed.paginated_candidates())),
                    ("all_candidates", &|| sink(ed.all_candidates())),
                    ("total_page", &|| sink(ed.total_page())),
                    ("current_page_no", &|| sink(ed.current_page_no())),
                    ("has_next_selection_point", &|| sink(ed.has_next_selection_point())),
                    ("has_prev_selection_point", &|| sink(ed.has_prev_selection_point())),
                    ("editor_options/symbols", &|| sink((ed.editor_options(), ed.symbols().len()))),
                ];
                for (name, f) in accessors.iter() {
                    if let Err(how) = guarded(f) {
                        getter_fail = Some((name, how));
                        break;
                    }
                    t.max_lookups = t.max_lookups.max(LOOKUPS.with(|c| c.get()).min(LOOKUP_FUEL));
                }
            }
            s.conv_log.borrow_mut().clear();
            LOOKUPS.with(|c| c.set(0));
            let cand_post = if getter_fail.is_none() { s.cand_view(&post) } else { None };
            let display_post = if getter_fail.is_none() { guarded(|| s.ed.display()).ok() } else { None };
            let commit_post = s.ed.display_commit().to_string();
            s.conv_log.borrow_mut().clear();
            let step = Step {
                op: &opstr, key: ev, pre: &pre, post: &post, ret: &ret,
                dict_pre: &dict_pre, dict_post: &dict_post, history: &history[..], seed, sid,
                cand_pre: cand_pre.as_ref(), cand_post: cand_post.as_ref(),
                outcome: "ok", no_word_pre: no_word_pre.as_deref(), no_word_post: no_word_post.as_deref(), getter_fail,
                display_pre: display_pre.as_deref(), display_post: display_post.as_deref(),
                len_pre, len_post: s.ed.len(), commit_post: &commit_post, conv: &conv_step, alts_pre: &alts_pre,
            };
            crate::oracle_c01::check(out, &step);
            out.rec(&format!("ed {} | {} | {} | {} {} => ok | {} | {} | {}", opstr, pre, dict_pre, lay_ans, conv_ans, post, ret, dict_post));
            if let Some(c) = &cand_post {
                out.rec(&format!(
                    "ed cands | {} | {} | {} C 0 => ok | {} | {} | {}",
                    post, dict_post, s.layout_answers(None), post, crate::step::cand_token(c), dict_post
                ));
            }
            if getter_fail.is_some() {
                t.failures += 1;
                return None;
            }
            Some((ret, post))
        }
        Err(how) => {
            let step = Step {
                op: &opstr, key: ev, pre: &pre, post: &pre, ret: "panic",
                dict_pre: &dict_pre, dict_post: &dict_pre, history: &history[..], seed, sid,
                cand_pre: cand_pre.as_ref(), cand_post: None,
                outcome: how, no_word_pre: no_word_pre.as_deref(), no_word_post: None, getter_fail: None,
                display_pre: display_pre.as_deref(), display_post: None,
                len_pre, len_post: len_pre, commit_post: "", conv: &conv_step, alts_pre: &alts_pre,
            };
            crate::oracle_c01::check(out, &step);
            t.failures += 1;
            if how == "hang" {
                // as in `main`: no record (the model's verdict for a loop that does not end cannot be compared)
                out.sample(&format!("hang (look-up fuel) in `{}` script-c01 scenario {}", opstr, sid));
            } else {
                out.rec(&format!("ed {} | {} | {} | {} {} => panic", opstr, pre, dict_pre, lay_ans, conv_ans));
            }
            None
        }
    }
}

/// record a sequence; None = one step failed (reported by the oracle)
fn record_all(out: &mut Out, s: &mut Session, ops: &[Op], history: &mut Vec<String>, seed: u64, sid: u64, t: &mut Tally) -> Option<(String, String)> {
    let mut last = Some((String::new(), s.ed.verif_snapshot()));
    for op in ops {
        last = record(out, s, op, history, seed, sid, t);
        last.as_ref()?;
    }
    last
}

struct Base {
    engine: u8,
    rear: bool,
    /// the phrase's syllables (indices into the rotated pool)
    target: Vec<usize>,
    before: bool,
    after: bool,
    /// (gap inside the phrase, 1 = between its first two syllables …; number of Tabs there)
    marks: Vec<(usize, u8)>,
}

fn mark_sets(len: usize, thorough: bool) -> Vec<Vec<(usize, u8)>> {
    let gaps: Vec<usize> = (1..len).collect();
    let mut v: Vec<Vec<(usize, u8)>> = vec![vec![]];
    for g in &gaps {
        v.push(vec![(*g, 1)]);
    }
    for g in &gaps {
        v.push(vec![(*g, 2)]);
    }
    for (i, a) in gaps.iter().enumerate() {
        for b in &gaps[i + 1..] {
            v.push(vec![(*a, 1), (*b, 1)]);
            if thorough {
                v.extend([vec![(*a, 1), (*b, 2)], vec![(*a, 2), (*b, 1)], vec![(*a, 2), (*b, 2)]]);
            }
        }
    }
    if len == 4 {
        v.push(vec![(1, 1), (2, 1), (3, 1)]);
    }
    v
}

fn bases(targets: &[Vec<usize>], thorough: bool) -> Vec<Base> {
    let mut out = vec![];
    for (ti, target) in targets.iter().enumerate() {
        let crossing = target.contains(&NB_BEFORE);
        let nbs: Vec<(bool, bool)> = if thorough {
            vec![(false, false), (true, false), (false, true), (true, true)]
        } else if crossing {
            vec![(false, false)]
        } else if target.len() == 2 {
            vec![(false, false), (true, false), (false, true), (true, true)]
        } else {
            vec![(false, false), [(true, false), (false, true), (true, true)][ti % 3]]
        };
        for (before, after) in nbs {
            let alone = !before && !after;
            for marks in mark_sets(target.len(), thorough) {
                let glue = marks.iter().any(|m| m.1 > 1);
                let triple = marks.len() > 2;
                if !thorough && ((marks.is_empty() || glue || triple) && !alone) {
                    continue;
                }
                for (engine, rear) in [(1u8, false), (1, true), (2, false), (2, true), (0, false), (0, true)] {
                    let wanted = (thorough && (engine != 0 || alone))
                        || match engine {
                            1 => true,
                            2 => !glue,
                            _ => alone && !glue && (!rear || marks.len() == 1),
                        };
                    if wanted {
                        out.push(Base { engine, rear, target: target.clone(), before, after, marks: marks.clone() });
                    }
                }
            }
        }
    }
    out
}

pub fn run(out: &mut Out, seed: u64, thorough: bool) {
    use KeyCode::*;
    let pool = crate::pool(false);
    // which syllables play s0..s5 rotates with the seed
    let n = pool.len();
    let off = (seed as usize) % n;
    let pool: Vec<(Syllable, Vec<KeyCode>)> = (0..n).map(|i| pool[(off + i) % n].clone()).collect();
    let syls: Vec<Syllable> = pool.iter().map(|p| p.0).collect();
    let layer = system_layer(&syls);
    let abbr_file = {
        let mut f = tempfile::NamedTempFile::new().unwrap();
        writeln!(f, "a 測試").unwrap();
        f.flush().unwrap();
        f
    };
    let plain = Modifiers::default();
    let key = |c: KeyCode| Op::Key(c, plain);
    let typed = |ix: &[usize]| -> Vec<Op> { ix.iter().flat_map(|i| pool[*i].1.iter().map(|k| Op::Key(*k, plain))).collect() };
    // every key of 2..4 syllables the dictionary holds a phrase for, in the order of the layer
    let mut targets: Vec<Vec<usize>> = vec![];
    for (k, _, _) in &layer {
        if (2..=4).contains(&k.len()) {
            let ix: Vec<usize> = k.iter().map(|s| syls.iter().position(|x| x == s).unwrap()).collect();
            if !targets.contains(&ix) {
                targets.push(ix);
            }
        }
    }
    let variants: Vec<Vec<KeyCode>> = if thorough {
        vec![vec![], vec![Down], vec![Down, Down], vec![Down, Down, Down], vec![Space], vec![J], vec![K], vec![J, J], vec![K, K], vec![Down, J], vec![Down, K], vec![J, Down]]
    } else {
        vec![vec![], vec![Down], vec![Down, Down], vec![Space], vec![J], vec![K]]
    };
    let tails: Vec<Vec<Op>> = vec![
        vec![key(Enter)],
        vec![key(End), key(Tab), key(Tab), key(Enter)],
        { let mut v = typed(&[NB_AFTER]); v.push(key(Enter)); v },
        vec![key(Down), key(N1), key(Enter)],
        vec![Op::Commit],
        vec![key(Home), key(Right), key(Tab), key(End), key(Left), key(Tab), key(Enter)],
    ];
    let mut stats: BTreeMap<String, u64> = BTreeMap::new();
    let mut bump = |k: &str| *stats.entry(k.to_string()).or_insert(0) += 1;
    let mut t = Tally::default();
    let (mut n_scen, mut n_lists, mut n_choices, mut n_probes) = (0u64, 0u64, 0u64, 0u64);
    let mut tail_rr = 0usize;
    for (sid, b) in bases(&targets, thorough).iter().enumerate() {
        let sid = sid as u64;
        let nb_before = b.before as usize;
        let total = b.target.len() + nb_before + b.after as usize;
        let label = format!(
            "script-c01 engine={} choice={} phrase={} before={} after={} marks={}",
            b.engine, if b.rear { "rearward" } else { "forward" },
            b.target.iter().map(|i| format!("s{}", i)).collect::<Vec<_>>().join("+"), b.before as u8, b.after as u8,
            if b.marks.is_empty() { "-".to_string() } else { b.marks.iter().map(|m| format!("{}x{}", m.0, m.1)).collect::<Vec<_>>().join(",") }
        );
        // ---- the scenario: configuration, the syllables, the marks (recorded once)
        let mut prefix: Vec<Op> = vec![];
        if b.rear {
            let mut o = opts();
            o.phrase_choice_rearward = true;
            prefix.push(Op::SetOpts(o));
        }
        // (with the simple engine every completed syllable opens its list at once: the buffer is composed and marked
        // under the chewing engine and the engine is switched afterwards, mid-composition)
        if b.engine == 2 {
            prefix.push(Op::SetEngine(b.engine));
        }
        let mut ix: Vec<usize> = vec![];
        if b.before {
            ix.push(NB_BEFORE);
        }
        ix.extend(&b.target);
        if b.after {
            ix.push(NB_AFTER);
        }
        prefix.extend(typed(&ix));
        let mut cursor = total;
        let mut marks = b.marks.clone();
        marks.sort_by(|a, b| b.0.cmp(&a.0));
        for (g, tabs) in &marks {
            let at = nb_before + g;
            while cursor > at {
                prefix.push(key(Left));
                cursor -= 1;
            }
            for _ in 0..*tabs {
                prefix.push(key(Tab));
            }
        }
        if b.engine == 0 {
            prefix.push(Op::SetEngine(0));
        }
        let mut s = build(&layer, abbr_file.path());
        let mut history: Vec<String> = vec![label.clone()];
        let Some((_, snap)) = record_all(out, &mut s, &prefix, &mut history, seed, sid, &mut t) else {
            bump("c01_break_scenarios_failed_in_prefix");
            continue;
        };
        drop(s);
        n_scen += 1;
        let g0 = gaps(&snap);
        if g0.len() != total {
            bump("c01_break_scenarios_with_unexpected_length");
            continue;
        }
        for g in &g0 {
            match g {
                'K' => bump("c01_break_marks_set.break"),
                'G' => bump("c01_break_marks_set.glue"),
                _ => {}
            }
        }
        bump(&format!("c01_break_scenarios.engine{}", b.engine));
        bump(if b.rear { "c01_break_scenarios.choice_rearward" } else { "c01_break_scenarios.choice_forward" });
        bump(&format!("c01_break_scenarios.phrase_len{}", b.target.len()));
        let prefix_hist = history;
        // ---- every cursor position: open the list
        for c in 0..=total {
            let mut opened = prefix.clone();
            let mut nav: Vec<Op> = vec![];
            for _ in c..cursor {
                nav.push(key(Left));
            }
            for _ in cursor..c {
                nav.push(key(Right));
            }
            nav.push(key(Down));
            let mut s = build(&layer, abbr_file.path());
            if !replay(&mut s, &prefix) {
                continue;
            }
            let mut history = prefix_hist.clone();
            if record_all(out, &mut s, &nav, &mut history, seed, sid, &mut t).is_none() {
                continue;
            }
            opened.extend(nav);
            if !s.ed.is_selecting() {
                bump("c01_break_list_not_opened");
                continue;
            }
            drop(s);
            n_lists += 1;
            let opened_hist = history;
            let mut seen: BTreeSet<String> = BTreeSet::new();
            // ---- cycle the range / page, then choose every index
            for var in &variants {
                let mut s = build(&layer, abbr_file.path());
                if !replay(&mut s, &opened) {
                    continue;
                }
                let mut history = opened_hist.clone();
                let var_ops: Vec<Op> = var.iter().map(|k| key(*k)).collect();
                if record_all(out, &mut s, &var_ops, &mut history, seed, sid, &mut t).is_none() {
                    continue;
                }
                if !s.ed.is_selecting() {
                    bump("c01_break_list_closed_by_cycling");
                    continue;
                }
                let here = s.ed.verif_snapshot();
                if !seen.insert(here.clone()) {
                    continue;
                }
                let Some(info) = sel_info(&here) else { continue };
                let n_cand = s.ed.all_candidates().map(|v| v.len()).unwrap_or(0);
                drop(s);
                let gp = gaps(&here);
                let inner = |k: char| (info.begin + 1..info.end).any(|i| gp.get(i) == Some(&k));
                let (over_break, over_glue, multi) = (inner('K'), inner('G'), info.end - info.begin >= 2);
                let mut at: Vec<Op> = opened.clone();
                at.extend(var_ops);
                let at_hist = history;
                for idx in 0..=n_cand.min(PER - 1) {
                    for via_select in [false, true] {
                        if idx == n_cand && !via_select {
                            // one index past the end: through the API only
                            continue;
                        }
                        let choice = if via_select { Op::Select(idx) } else { key(ALL_CODES[1 + idx]) };
                        // quick tier: ONE continuation per choice made with a digit key (round robin) - every one of those
                        // that chose a multi-syllable candidate or covered a mark, every second of the others; the
                        // accessors (`display()` = the next conversion, …) run after every choice anyway
                        // (thorough tier: two continuations, each from a fresh replay, after EVERY choice made with a digit key)
                        let todo: Vec<usize> = if thorough {
                            tail_rr += 1;
                            if via_select { vec![NO_TAIL] } else { vec![tail_rr % tails.len(), (tail_rr + 3) % tails.len()] }
                        } else {
                            tail_rr += 1;
                            let go_on = !via_select && (multi || over_break || over_glue || tail_rr % 2 == 0);
                            if go_on { vec![(tail_rr / 2) % tails.len()] } else { vec![NO_TAIL] }
                        };
                        for (k, tail) in todo.iter().enumerate() {
                            let mut s = build(&layer, abbr_file.path());
                            if !replay(&mut s, &at) {
                                continue;
                            }
                            let mut history = at_hist.clone();
                            let chosen = if k == 0 {
                                n_probes += 1;
                                record(out, &mut s, &choice, &mut history, seed, sid, &mut t)
                            } else {
                                // the choice itself was recorded with the first tail
                                let r = apply(&mut s, &choice).ok();
                                history.push(op_s(&choice, &event(&choice)));
                                s.conv_log.borrow_mut().clear();
                                r.map(|r| (r, s.ed.verif_snapshot()))
                            };
                            if k == 0 {
                                let made = matches!(&chosen, Some((r, post)) if (r == "A" || r == "ok") && !post.starts_with('S'));
                                let failed = chosen.is_none();
                                // a choice that crashed counts as made: it is the one the statistics are about
                                if made || (failed && idx < n_cand) {
                                    n_choices += 1;
                                    bump(if via_select { "c01_break_choices.by_select" } else { "c01_break_choices.by_digit_key" });
                                    if multi {
                                        bump("c01_break_choices.multi_syllable");
                                    }
                                    if over_break {
                                        bump("c01_break_choices.covering_break");
                                    }
                                    if over_glue {
                                        bump("c01_break_choices.covering_glue");
                                    }
                                    if multi && over_break {
                                        bump("c01_break_choices.multi_syllable_over_break");
                                        bump(&format!("c01_break_choices.multi_syllable_over_break.engine{}", b.engine));
                                        bump(if info.forward { "c01_break_choices.multi_syllable_over_break.forward" } else { "c01_break_choices.multi_syllable_over_break.rearward" });
                                        if gp.get(info.end - 1) == Some(&'K') {
                                            bump("c01_break_choices.multi_syllable_over_break.before_last_syllable");
                                        }
                                    }
                                    if failed {
                                        bump("c01_break_choices.failed");
                                    }
                                } else if !failed {
                                    bump("c01_break_choices_rejected");
                                }
                            }
                            let Some((r, post)) = chosen else { break };
                            if !((r == "A" || r == "ok") && !post.starts_with('S')) {
                                // rejected (index past the end): nothing to go on with
                                break;
                            }
                            if *tail == NO_TAIL {
                                break;
                            }
                            if record_all(out, &mut s, &tails[*tail], &mut history, seed, sid, &mut t).is_some() {
                                bump(&format!("c01_break_tails.{}", tail));
                            }
                        }
                    }
                }
            }
        }
    }
    out.stat("c01_break_scenarios", n_scen);
    out.stat("c01_break_phrases", targets.len());
    out.stat("c01_break_lists_opened", n_lists);
    out.stat("c01_break_choice_probes", n_probes);
    out.stat("c01_break_choices", n_choices);
    for k in ["c01_break_choices.covering_break", "c01_break_choices.covering_glue", "c01_break_choices.multi_syllable_over_break", "c01_break_choices.failed"] {
        stats.entry(k.to_string()).or_insert(0);
    }
    for (k, v) in &stats {
        out.stat(k, v);
    }
    out.stat("c01_break_steps", t.steps);
    out.stat("c01_break_failures", t.failures);
    out.stat("c01_max_lookups_in_one_operation", t.max_lookups);
}
