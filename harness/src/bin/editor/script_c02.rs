//! Scripted sessions for C02 "the characters pushed out form a leading part of the conversion of the full buffer"
//! (`editor --script c02`): the shape in which the alternative the user cycled to with Tab pushes out OTHER text than
//! the default segmentation would:
//!   * two CROSSING phrases (a b) / (b c) with pairwise different characters, learnt into the user dictionary together
//!     with a one-character word for every syllable used (so that the session's generated dictionary does not matter);
//!   * 0..2 syllables in front / behind, the three syllables a b c typed, Tab pressed 0..4 times at the end of the
//!     buffer (0 = control), the buffer limit set to the current length or below it;
//!   * one more syllable (overflow after a key), or `start_selecting` + `select(0)` (overflow after select), or a Tab at
//!     the end with the limit already below the length (overflow in the step that changes the alternative), or Enter /
//!     `commit()` (whole-buffer control);
//!   * a second round on what remains.
//! Everything is derived from the session number (reproducible, independent of VERIF_SEED); how often the chosen
//! alternative really pushed out other text is counted by the oracle (`c02_auto_commits_alt_pushes_out_other_text_*`).
use crate::script_c18::base_opts;
use crate::Op;
use chewing::editor::keyboard::{KeyCode, Modifiers};
use chewing::zhuyin::Syllable;
use std::collections::VecDeque;
use vharness::Rng;

pub fn n_sessions(thorough: bool) -> u64 {
    if thorough { 3000 } else { 240 }
}

pub struct Script {
    queue: VecDeque<Op>,
}

fn key(c: KeyCode) -> Op {
    Op::Key(c, Modifiers::default())
}

/// pairwise different characters: singles for up to five syllables, then the two crossing phrases
const SINGLE: [&str; 5] = ["心", "酷", "音", "哈", "囉"];
const CROSS: [(&str, &str); 3] = [("新酷", "庫音"), ("星光", "廣場"), ("甲乙", "丙丁")];

impl Script {
    pub fn new(sid: u64, _thorough: bool, pool: &[(Syllable, Vec<KeyCode>)]) -> Script {
        use KeyCode::*;
        let mut rng = Rng::new(0xC02_u64.wrapping_mul(1_000_003).wrapping_add(sid));
        let mut q = VecDeque::new();
        q.push_back(Op::SetLayout(0));
        // mostly the engine that offers alternatives; the fuzzy one; the simple one as a control
        q.push_back(Op::SetEngine(*rng.pick(&[1u8, 1, 1, 1, 2, 2, 0])));
        let mut o = base_opts();
        o.auto_commit_threshold = 39;
        o.disable_auto_learn_phrase = rng.chance(1, 2);
        q.push_back(Op::SetOpts(o));
        // five different syllables of the pool
        let mut ix: Vec<usize> = (0..pool.len()).collect();
        for i in 0..5.min(ix.len()) {
            let j = i + rng.below((ix.len() - i) as u64) as usize;
            ix.swap(i, j);
        }
        let syl = |i: usize| pool[ix[i % ix.len()]].0;
        let keys = |i: usize| pool[ix[i % ix.len()]].1.clone();
        for (i, ch) in SINGLE.iter().enumerate() {
            q.push_back(Op::Learn(vec![syl(i)], ch.to_string()));
        }
        let mut len = 0usize;
        for round in 0..2 {
            let (ab, bc) = *rng.pick(&CROSS);
            q.push_back(Op::Learn(vec![syl(0), syl(1)], ab.to_string()));
            q.push_back(Op::Learn(vec![syl(1), syl(2)], bc.to_string()));
            let mut typed: Vec<usize> = vec![];
            if round == 0 {
                for _ in 0..*rng.pick(&[0u64, 0, 0, 1, 2]) {
                    typed.push(3 + rng.below(2) as usize);
                }
            }
            typed.extend([0, 1, 2]);
            for _ in 0..*rng.pick(&[0u64, 0, 1, 2]) {
                typed.push(3 + rng.below(2) as usize);
            }
            for i in &typed {
                q.extend(keys(*i).into_iter().map(key));
            }
            len += typed.len();
            q.push_back(key(End));
            let tabs = *rng.pick(&[0u64, 1, 1, 1, 2, 2, 3, 4]);
            for _ in 0..tabs {
                q.push_back(key(Tab));
            }
            let mut lim = o;
            match rng.below(10) {
                0..=4 => {
                    // at the limit (or already over it by up to two), one more syllable
                    lim.auto_commit_threshold = len.saturating_sub(*rng.pick(&[0usize, 0, 0, 1, 2]));
                    q.push_back(Op::SetOpts(lim));
                    q.extend(keys(3 + rng.below(2) as usize).into_iter().map(key));
                    len = lim.auto_commit_threshold.min(len + 1);
                }
                5 | 6 => {
                    lim.auto_commit_threshold = rng.below(len as u64) as usize;
                    q.push_back(Op::SetOpts(lim));
                    q.push_back(Op::StartSel);
                    q.push_back(Op::Select(0));
                    len = lim.auto_commit_threshold.min(len);
                }
                7 => {
                    lim.auto_commit_threshold = rng.below(len as u64) as usize;
                    q.push_back(Op::SetOpts(lim));
                    q.push_back(key(Tab));
                    len = lim.auto_commit_threshold.min(len);
                }
                8 => {
                    q.push_back(key(Enter));
                    len = 0;
                }
                _ => {
                    q.push_back(Op::Commit);
                    len = 0;
                }
            }
            // the limit back up for the second round
            q.push_back(Op::SetOpts(o));
        }
        Script { queue: q }
    }

    pub fn next(&mut self, _snap: &str) -> Option<Op> {
        self.queue.pop_front()
    }
}
