//! Scripted sessions for C02 "the characters pushed out form a leading part of the conversion of the full buffer"
//! (`editor --script c02`): the shape in which the alternative the user cycled to with Tab pushes out OTHER text than
//! the default segmentation would:
//!   * two CROSSING phrases (a b) / (b c) with pairwise different characters, learnt into the user dictionary together
//!     with a one-character word for every syllable used (so that the session's generated dictionary does not matter);
//!   * 0..2 syllables in front / behind, the three syllables a b c typed, Tab pressed 0..4 times at the end of the
//!     buffer (0 = control), the buffer limit set to the current length or below it;
//!   * one more syllable (overflow after a key), or `start_selecting` + `select(0)` (overflow after select), or a Tab at
//!     the end with the limit already below the length (overflow in the step that changes the alternative), or Enter /
//!     `commit()` (whole-buffer control);
//!   * a second round on what remains.
//! Everything is derived from the session number (reproducible, independent of VERIF_SEED); how often the chosen
//! alternative really pushed out other text is counted by the oracle (`c02_auto_commits_alt_pushes_out_other_text_*`).
//!
//! Second family (the sessions after those, `Script::wordless`): regression histories for the shape the thorough
//! tier found in generated histories (seed 1 sessions 638, 1056, 1322, 2235, 2285, 3331, 3448, 3621) — a syllable
//! that LOST ITS ONLY WORD while it is in the buffer (a user-only word learnt, the syllable typed between neighbours
//! that have words, the word forgotten again) is shown and committed as its Bopomofo spelling (2..4 characters for one
//! symbol), and a GLUE mark (Tab in the middle of the buffer) makes the engine merge that spelling with the
//! neighbour's character into ONE interval of two symbols; then every commit route (overflow by a key, by `select`,
//! by Tab at the end, Enter, `commit()`), optionally after an engine switch.  Counted by the oracle:
//! `c02_wordless_spelling_inside_longer_interval`.
use crate::script_c18::base_opts;
use crate::Op;
use chewing::editor::keyboard::{KeyCode, KeyboardLayout, Modifiers, Qwerty};
use chewing::editor::zhuyin_layout::{KeyBehavior, Standard, SyllableEditor};
use chewing::zhuyin::Syllable;
use std::collections::VecDeque;
use vharness::Rng;

/// sessions of the first family (crossing phrases + Tab + overflow)
fn n_crossing(thorough: bool) -> u64 {
    if thorough { 3000 } else { 240 }
}

pub fn n_sessions(thorough: bool) -> u64 {
    n_crossing(thorough) + if thorough { 1200 } else { 120 }
}

/// Standard-layout key sequences of syllables OUTSIDE the pool: the session's generated system layers hold no word
/// for them, a word learnt for one of them is its only word (spellings of 2, 2, 2, 2, 2 and 3 characters)
const EXTRA: [&[KeyCode]; 6] = {
    use KeyCode::*;
    [&[P, N7], &[Comma, N4], &[B, N6], &[M, N3], &[I, Space], &[T, J, N4]]
};

pub struct Script {
    queue: VecDeque<Op>,
}

fn key(c: KeyCode) -> Op {
    Op::Key(c, Modifiers::default())
}

/// pairwise different characters: singles for up to five syllables, then the two crossing phrases
const SINGLE: [&str; 5] = ["心", "酷", "音", "哈", "囉"];
const CROSS: [(&str, &str); 3] = [("新酷", "庫音"), ("星光", "廣場"), ("甲乙", "丙丁")];

impl Script {
    pub fn new(sid: u64, thorough: bool, pool: &[(Syllable, Vec<KeyCode>)]) -> Script {
        if sid >= n_crossing(thorough) {
            return Script::wordless(sid - n_crossing(thorough), pool);
        }
        Script::crossing(sid, pool)
    }

    /// a word-less syllable, spelled out, glued to a neighbour, then a commit route (see the module comment)
    fn wordless(k: u64, pool: &[(Syllable, Vec<KeyCode>)]) -> Script {
        use KeyCode::*;
        let mut rng = Rng::new(0xC02F_u64.wrapping_mul(1_000_003).wrapping_add(k));
        let mut q = VecDeque::new();
        q.push_back(Op::SetLayout(0));
        let engine = *rng.pick(&[1u8, 1, 1, 2, 2, 0]);
        q.push_back(Op::SetEngine(engine));
        let mut o = base_opts();
        o.auto_commit_threshold = 39;
        o.disable_auto_learn_phrase = rng.chance(1, 2);
        q.push_back(Op::SetOpts(o));
        // the syllables outside the pool, as the Standard layout composes them
        let extra: Vec<(Syllable, &[KeyCode])> = EXTRA
            .iter()
            .filter_map(|seq| {
                let mut l = Standard::new();
                let mut last = KeyBehavior::Ignore;
                for c in seq.iter() {
                    last = l.key_press(Qwerty.map(*c));
                }
                (last == KeyBehavior::Commit && !l.read().is_empty() && !pool.iter().any(|p| p.0 == l.read())).then(|| (l.read(), *seq))
            })
            .collect();
        let mut ix: Vec<usize> = (0..pool.len()).collect();
        for i in 0..5.min(ix.len()) {
            let j = i + rng.below((ix.len() - i) as u64) as usize;
            ix.swap(i, j);
        }
        let syl = |i: usize| pool[ix[i % ix.len()]].0;
        let keys = |i: usize| pool[ix[i % ix.len()]].1.clone();
        for (i, ch) in SINGLE.iter().enumerate() {
            q.push_back(Op::Learn(vec![syl(i)], ch.to_string()));
        }
        if extra.is_empty() {
            return Script { queue: q };
        }
        let (x, xkeys) = *rng.pick(&extra);
        let xword = *rng.pick(&["祂", "囍", "𠀀"]);
        q.push_back(Op::Learn(vec![x], xword.to_string()));
        // neighbours with words in front / behind (at least one), the word-less-to-be syllable between them
        let (mut before, after) = (rng.below(3) as usize, rng.below(3) as usize);
        if before + after == 0 {
            before = 1;
        }
        for _ in 0..before {
            q.extend(keys(rng.below(5) as usize).into_iter().map(key));
        }
        q.extend(xkeys.iter().copied().map(key));
        for _ in 0..after {
            q.extend(keys(rng.below(5) as usize).into_iter().map(key));
        }
        let mut len = before + 1 + after;
        // glue marks: the cursor onto the boundary in front of / behind the syllable, Tab
        let glue = |q: &mut VecDeque<Op>, at: usize| {
            q.push_back(key(Home));
            for _ in 0..at {
                q.push_back(key(Right));
            }
            q.push_back(key(Tab));
        };
        let sides: Vec<usize> = match (before > 0, after > 0, rng.below(4)) {
            (true, true, 0) => vec![before, before + 1],
            (true, true, 1) | (true, false, _) => vec![before],
            _ => vec![before + 1],
        };
        let unlearn_first = rng.chance(1, 2);
        if unlearn_first {
            q.push_back(Op::Unlearn(vec![x], xword.to_string()));
        }
        for at in &sides {
            glue(&mut q, *at);
        }
        if !unlearn_first {
            q.push_back(Op::Unlearn(vec![x], xword.to_string()));
        }
        if rng.chance(1, 4) {
            q.push_back(Op::SetEngine(*rng.pick(&[0u8, 1, 2])));
        }
        if rng.chance(1, 2) {
            q.push_back(key(End));
        }
        let mut lim = o;
        match rng.below(10) {
            0..=3 => {
                lim.auto_commit_threshold = len.saturating_sub(*rng.pick(&[0usize, 0, 1, 2]));
                q.push_back(Op::SetOpts(lim));
                q.extend(keys(rng.below(5) as usize).into_iter().map(key));
                len = lim.auto_commit_threshold.min(len + 1);
            }
            4 | 5 => {
                lim.auto_commit_threshold = rng.below(len as u64) as usize;
                q.push_back(Op::SetOpts(lim));
                // a list that opens: on a neighbour that has words
                q.push_back(key(if after > 0 { End } else { Home }));
                q.push_back(Op::StartSel);
                q.push_back(Op::Select(0));
                len = lim.auto_commit_threshold.min(len);
            }
            6 => {
                lim.auto_commit_threshold = rng.below(len as u64) as usize;
                q.push_back(Op::SetOpts(lim));
                q.push_back(key(End));
                q.push_back(key(Tab));
                len = lim.auto_commit_threshold.min(len);
            }
            7 | 8 => {
                q.push_back(key(Enter));
                len = 0;
            }
            _ => {
                q.push_back(Op::Commit);
                len = 0;
            }
        }
        // what remains goes out as a whole
        q.push_back(Op::SetOpts(o));
        if len > 0 {
            q.push_back(if rng.chance(1, 2) { key(Enter) } else { Op::Commit });
        }
        Script { queue: q }
    }

    fn crossing(sid: u64, pool: &[(Syllable, Vec<KeyCode>)]) -> Script {
        use KeyCode::*;
        let mut rng = Rng::new(0xC02_u64.wrapping_mul(1_000_003).wrapping_add(sid));
        let mut q = VecDeque::new();
        q.push_back(Op::SetLayout(0));
        // mostly the engine that offers alternatives; the fuzzy one; the simple one as a control
        q.push_back(Op::SetEngine(*rng.pick(&[1u8, 1, 1, 1, 2, 2, 0])));
        let mut o = base_opts();
        o.auto_commit_threshold = 39;
        o.disable_auto_learn_phrase = rng.chance(1, 2);
        q.push_back(Op::SetOpts(o));
        // five different syllables of the pool
        let mut ix: Vec<usize> = (0..pool.len()).collect();
        for i in 0..5.min(ix.len()) {
            let j = i + rng.below((ix.len() - i) as u64) as usize;
            ix.swap(i, j);
        }
        let syl = |i: usize| pool[ix[i % ix.len()]].0;
        let keys = |i: usize| pool[ix[i % ix.len()]].1.clone();
        for (i, ch) in SINGLE.iter().enumerate() {
            q.push_back(Op::Learn(vec![syl(i)], ch.to_string()));
        }
        let mut len = 0usize;
        for round in 0..2 {
            let (ab, bc) = *rng.pick(&CROSS);
            q.push_back(Op::Learn(vec![syl(0), syl(1)], ab.to_string()));
            q.push_back(Op::Learn(vec![syl(1), syl(2)], bc.to_string()));
            let mut typed: Vec<usize> = vec![];
            if round == 0 {
                for _ in 0..*rng.pick(&[0u64, 0, 0, 1, 2]) {
                    typed.push(3 + rng.below(2) as usize);
                }
            }
            typed.extend([0, 1, 2]);
            for _ in 0..*rng.pick(&[0u64, 0, 1, 2]) {
                typed.push(3 + rng.below(2) as usize);
            }
            for i in &typed {
                q.extend(keys(*i).into_iter().map(key));
            }
            len += typed.len();
            q.push_back(key(End));
            let tabs = *rng.pick(&[0u64, 1, 1, 1, 2, 2, 3, 4]);
            for _ in 0..tabs {
                q.push_back(key(Tab));
            }
            let mut lim = o;
            match rng.below(10) {
                0..=4 => {
                    // at the limit (or already over it by up to two), one more syllable
                    lim.auto_commit_threshold = len.saturating_sub(*rng.pick(&[0usize, 0, 0, 1, 2]));
                    q.push_back(Op::SetOpts(lim));
                    q.extend(keys(3 + rng.below(2) as usize).into_iter().map(key));
                    len = lim.auto_commit_threshold.min(len + 1);
                }
                5 | 6 => {
                    lim.auto_commit_threshold = rng.below(len as u64) as usize;
                    q.push_back(Op::SetOpts(lim));
                    q.push_back(Op::StartSel);
                    q.push_back(Op::Select(0));
                    len = lim.auto_commit_threshold.min(len);
                }
                7 => {
                    lim.auto_commit_threshold = rng.below(len as u64) as usize;
                    q.push_back(Op::SetOpts(lim));
                    q.push_back(key(Tab));
                    len = lim.auto_commit_threshold.min(len);
                }
                8 => {
                    q.push_back(key(Enter));
                    len = 0;
                }
                _ => {
                    q.push_back(Op::Commit);
                    len = 0;
                }
            }
            // the limit back up for the second round
            q.push_back(Op::SetOpts(o));
        }
        Script { queue: q }
    }

    pub fn next(&mut self, _snap: &str) -> Option<Op> {
        self.queue.pop_front()
    }
}
