//! Scripted sessions for C05 "the buffer stays bounded" (`editor --script c05`): histories in which a
//! single step overshoots `auto_commit_threshold` by MORE than one symbol, so that the auto-commit must
//! remove several leading intervals at once:
//!  (a) easy-symbol input on, a key whose abbreviation expands to two characters, typed when the buffer
//!      holds exactly `limit`, `limit - 1` or `limit - 2` symbols, at a random cursor position;
//!  (b) the limit lowered by >= 2 below the current length by a configuration call in mid-composition,
//!      followed by editing keys (cursor keys, Backspace, Delete, a symbol, a mode toggle, a syllable).
//!  (c) an editing sweep: Delete / Backspace / a symbol / a syllable at every cursor position of a buffer
//!      of 3..10 symbols.
//!  (d) appended sessions: a candidate list that is open while the language mode / an option changes, and the cursor
//!      bookkeeping LATER: fill, put the cursor anywhere, open a list (Down / `start_selecting` / the backquote symbol
//!      table), optionally move it (j / k), then one of the mode / option events CapsLock (closes the list),
//!      Shift-Space (rejected, the list stays), `set_editor_options` with the language mode changed (what
//!      `chewing_set_ChiEngMode` does; the list stays) or with the character form changed, closed by Esc / Up /
//!      Backspace / `cancel_selecting` / CapsLock; back to Chinese mode (CapsLock or the configuration call); the cursor
//!      moved elsewhere; then each later site that restores a saved cursor: a symbol chosen from the backquote symbol
//!      table (leaf, or category + leaf), another list left with Esc, a phrase chosen, another list closed by CapsLock,
//!      `start_selecting` + `cancel_selecting`; a syllable typed in between, twice over.
//!  (e) appended sessions (FX3): the fuzzy engine (prefix lookup) and N x the SAME initial key (N beyond the limit):
//!      every repetition makes `fuzzy_key_press` answer `Fuzzy(previous partial syllable)`, which is inserted while the
//!      editor stays in `EnteringSyllable` (each bare initial is first learnt as a user phrase: the harness
//!      dictionaries are in-memory and match exact keys only); variants with another initial in between, a cursor move, a limit lowered
//!      in mid-run.
//!  (f) appended sessions (FX4): the simple engine and cycles "type a syllable (its one-word list opens at once),
//!      close the list WITHOUT choosing by `cancel_selecting` (= chewing_cand_close)", more cycles than the limit;
//!      variants closing by Esc, by a `set_editor_options` call that leaves the list alone, a Down in between.
//! Everything is derived from the session number (reproducible, independent of VERIF_SEED).
use crate::script_c18::base_opts;
use crate::step::option;
use crate::Op;
use chewing::editor::keyboard::{KeyCode, Modifiers};
use chewing::dictionary::LookupStrategy;
use chewing::editor::{CharacterForm, ConversionEngineKind, EditorOptions, LanguageMode, UserPhraseAddDirection};
use std::collections::VecDeque;
use vharness::Rng;

fn n_old(thorough: bool) -> u64 {
    if thorough { 6000 } else { 360 }
}

fn n_d(thorough: bool) -> u64 {
    if thorough { 3000 } else { 240 }
}

/// families (e) + (f)
fn n_ef(thorough: bool) -> u64 {
    if thorough { 1200 } else { 120 }
}

pub fn n_sessions(thorough: bool) -> u64 {
    n_old(thorough) + n_d(thorough) + n_ef(thorough)
}

thread_local! {
    /// (sessions of family (e), of family (f)) built so far
    static BUILT: std::cell::Cell<(u64, u64)> = const { std::cell::Cell::new((0, 0)) };
}

/// `#stat` lines of this script (cumulative; printed by main.rs at the end)
pub fn finish(out: &mut vharness::Out) {
    let (e, f) = BUILT.with(|b| b.get());
    out.stat("c05_script_sessions_fuzzy_engine_repeated_initial", e);
    out.stat("c05_script_sessions_simple_engine_syllable_cancel_cycles", f);
}

/// one scripted step: an operation, or one that depends on the options in force when its turn comes
enum Item {
    Op(Op),
    /// `set_editor_options` with the language mode flipped (`chewing_set_ChiEngMode`)
    FlipLanguageByCall,
    /// `set_editor_options` with the character form flipped (`chewing_set_ShapeMode`)
    FlipFormByCall,
    /// if the editor is in English mode: back to Chinese, by CapsLock (true) or by the configuration call
    BackToChinese(bool),
}

pub struct Script {
    queue: VecDeque<Item>,
}

/// the options in force, read from the snapshot (struct order, see `opts_s`)
fn opts_of(snap: &str) -> EditorOptions {
    let b = |i: usize| option(snap, i) != 0;
    EditorOptions {
        easy_symbol_input: b(0),
        esc_clear_all_buffer: b(1),
        space_is_select_key: b(2),
        auto_shift_cursor: b(3),
        phrase_choice_rearward: b(4),
        disable_auto_learn_phrase: b(5),
        auto_commit_threshold: option(snap, 6),
        candidates_per_page: option(snap, 7),
        language_mode: if b(8) { LanguageMode::English } else { LanguageMode::Chinese },
        character_form: if b(9) { CharacterForm::Fullwidth } else { CharacterForm::Halfwidth },
        user_phrase_add_dir: if b(10) { UserPhraseAddDirection::Backward } else { UserPhraseAddDirection::Forward },
        lookup_strategy: if b(11) { LookupStrategy::FuzzyPartialPrefix } else { LookupStrategy::Standard },
        conversion_engine: match option(snap, 12) {
            0 => ConversionEngineKind::SimpleEngine,
            2 => ConversionEngineKind::FuzzyChewingEngine,
            _ => ConversionEngineKind::ChewingEngine,
        },
        enable_fullwidth_toggle_key: b(13),
    }
}

fn key(c: KeyCode) -> Op {
    Op::Key(c, Modifiers::default())
}

/// fill the buffer with `n` symbols: special symbols (work on every layout, no dictionary needed) mixed
/// with syllables typed on the Standard layout (inserted only if the session's dictionary has a word)
fn fill(q: &mut VecDeque<Op>, rng: &mut Rng, n: u64) {
    use KeyCode::*;
    let syls: [&[KeyCode]; 4] = [&[H, K, N4], &[G, N4], &[S, U, N3], &[C, L, N3]];
    for _ in 0..n {
        if rng.chance(1, 3) {
            for k in *rng.pick(&syls) {
                q.push_back(key(*k));
            }
        } else {
            q.push_back(Op::Key(*rng.pick(&[Comma, Dot, N1, LBracket]), Modifiers::shift()));
        }
    }
}

fn wander(q: &mut VecDeque<Op>, rng: &mut Rng) {
    use KeyCode::*;
    for _ in 0..rng.below(4) {
        q.push_back(key(*rng.pick(&[Left, Left, Right, Home, End])));
    }
}

impl Script {
    pub fn new(sid: u64, thorough: bool) -> Script {
        use KeyCode::*;
        let mut rng = Rng::new(0xC05_u64.wrapping_mul(1_000_003).wrapping_add(sid));
        if sid >= n_old(thorough) + n_d(thorough) {
            let fuzzy = sid % 2 == 0;
            BUILT.with(|b| {
                let (e, f) = b.get();
                b.set(if fuzzy { (e + 1, f) } else { (e, f + 1) });
            });
            let q = if fuzzy { fuzzy_repeated_initial(&mut rng) } else { simple_cancel_cycles(&mut rng) };
            return Script { queue: q.into_iter().map(Item::Op).collect() };
        }
        if sid >= n_old(thorough) {
            return Script { queue: list_under_mode_change(&mut rng) };
        }
        let mut q = VecDeque::new();
        q.push_back(Op::SetLayout(0));
        let mut o = base_opts();
        o.auto_shift_cursor = rng.chance(1, 2);
        o.easy_symbol_input = sid % 3 == 0;
        if sid % 3 == 2 {
            // (c) editing sweep: every cursor position of a buffer of 3..10 symbols x Delete / Backspace /
            //     a symbol / a syllable, far below the limit
            o.auto_commit_threshold = 39;
            q.push_back(Op::SetOpts(o));
            let n = 3 + rng.below(8);
            fill(&mut q, &mut rng, n);
            for _ in 0..8 {
                q.push_back(key(Home));
                for _ in 0..rng.below(n + 1) {
                    q.push_back(key(Right));
                }
                match rng.below(6) {
                    0 | 1 => q.push_back(key(Del)),
                    2 | 3 => q.push_back(key(Backspace)),
                    4 => q.push_back(Op::Key(Dot, Modifiers::shift())),
                    _ => {
                        for k in [G, N4] {
                            q.push_back(key(k));
                        }
                    }
                }
            }
        } else if sid % 3 == 0 {
            // (a) multi-symbol expansion at / near a full buffer
            let limit = *rng.pick(&[0u64, 1, 2, 3, 4, 5, 6, 8, 12, 20, 39]);
            o.auto_commit_threshold = limit as usize;
            q.push_back(Op::SetOpts(o));
            let short = rng.below(3).min(limit);
            fill(&mut q, &mut rng, limit - short);
            for _ in 0..(2 + rng.below(4)) {
                wander(&mut q, &mut rng);
                // 'a' -> two characters, Shift+Z -> two characters (the harness's abbreviation table)
                if rng.chance(1, 2) { q.push_back(key(A)) } else { q.push_back(Op::Key(Z, Modifiers::shift())) }
            }
        } else {
            // (b) the limit lowered by >= 2 in mid-composition, then editing keys
            let n = 2 + rng.below(10);
            o.auto_commit_threshold = 39;
            q.push_back(Op::SetOpts(o));
            fill(&mut q, &mut rng, n);
            wander(&mut q, &mut rng);
            let mut o2 = o;
            o2.auto_commit_threshold = (n - 2 - rng.below(n - 1).min(n - 2)) as usize;
            q.push_back(Op::SetOpts(o2));
            for _ in 0..(1 + rng.below(4)) {
                let op = match rng.below(10) {
                    0 | 1 => key(Left),
                    2 => key(Right),
                    3 => key(Home),
                    4 => key(End),
                    5 => key(Backspace),
                    6 => key(Del),
                    7 => Op::Key(Comma, Modifiers::shift()),
                    8 => Op::Key(Unknown, Modifiers::capslock()),
                    _ => Op::Key(Space, Modifiers::shift()),
                };
                q.push_back(op);
            }
            for k in [G, N4] {
                q.push_back(key(k));
            }
        }
        Script { queue: q.into_iter().map(Item::Op).collect() }
    }

    pub fn next(&mut self, snap: &str) -> Option<Op> {
        loop {
            return Some(match self.queue.pop_front()? {
                Item::Op(op) => op,
                Item::FlipLanguageByCall => {
                    let mut o = opts_of(snap);
                    o.language_mode = if o.language_mode == LanguageMode::Chinese { LanguageMode::English } else { LanguageMode::Chinese };
                    Op::SetOpts(o)
                }
                Item::FlipFormByCall => {
                    let mut o = opts_of(snap);
                    o.character_form = if o.character_form == CharacterForm::Halfwidth { CharacterForm::Fullwidth } else { CharacterForm::Halfwidth };
                    Op::SetOpts(o)
                }
                Item::BackToChinese(by_key) => {
                    if option(snap, 8) == 0 {
                        continue;
                    }
                    if by_key {
                        Op::Key(KeyCode::Unknown, Modifiers::capslock())
                    } else {
                        let mut o = opts_of(snap);
                        o.language_mode = LanguageMode::Chinese;
                        Op::SetOpts(o)
                    }
                }
            });
        }
    }
}

/// family (d), see the module comment
fn list_under_mode_change(rng: &mut Rng) -> VecDeque<Item> {
    use KeyCode::*;
    let mut ops: VecDeque<Op> = VecDeque::new();
    let mut q: VecDeque<Item> = VecDeque::new();
    ops.push_back(Op::SetLayout(0));
    if rng.chance(2, 3) {
        ops.push_back(Op::SetEngine(1));
    }
    let mut o = base_opts();
    o.auto_shift_cursor = rng.chance(1, 3);
    o.phrase_choice_rearward = rng.chance(1, 3);
    o.auto_commit_threshold = if rng.chance(1, 5) { 4 + rng.below(5) as usize } else { 39 };
    ops.push_back(Op::SetOpts(o));
    let n = 3 + rng.below(5);
    // syllables the session's dictionary very likely has words for, mixed with punctuation
    for _ in 0..n {
        if rng.chance(2, 3) {
            for k in *rng.pick(&[&[H, K, N4][..], &[G, N4], &[S, U, N3], &[C, L, N3]]) {
                ops.push_back(key(*k));
            }
        } else {
            ops.push_back(Op::Key(*rng.pick(&[Comma, Dot, N1, LBracket]), Modifiers::shift()));
        }
    }
    q.extend(ops.drain(..).map(Item::Op));
    let place = |q: &mut VecDeque<Item>, rng: &mut Rng| match rng.below(4) {
        0 => q.push_back(Item::Op(key(End))),
        1 => {
            q.push_back(Item::Op(key(End)));
            for _ in 0..1 + rng.below(3) {
                q.push_back(Item::Op(key(Left)));
            }
        }
        _ => {
            q.push_back(Item::Op(key(Home)));
            for _ in 0..rng.below(n + 1) {
                q.push_back(Item::Op(key(Right)));
            }
        }
    };
    let open = |q: &mut VecDeque<Item>, rng: &mut Rng, table: bool| {
        if table {
            q.push_back(Item::Op(key(Grave)));
        } else if rng.chance(1, 4) {
            q.push_back(Item::Op(Op::StartSel));
        } else {
            q.push_back(Item::Op(key(Down)));
        }
    };
    // the cursor anywhere, a list opened there, possibly moved
    place(&mut q, rng);
    let table = rng.chance(1, 6);
    open(&mut q, rng, table);
    if !table {
        for _ in 0..*rng.pick(&[0u64, 0, 0, 1, 2]) {
            q.push_back(Item::Op(key(*rng.pick(&[J, K, Down]))));
        }
    }
    // the mode / option event while the list is open, and how the list goes away
    let leave = |q: &mut VecDeque<Item>, rng: &mut Rng| match rng.below(6) {
        0 | 1 => q.push_back(Item::Op(key(Esc))),
        2 => q.push_back(Item::Op(key(Up))),
        3 => q.push_back(Item::Op(key(Backspace))),
        4 => q.push_back(Item::Op(Op::CancelSel)),
        _ => q.push_back(Item::Op(Op::Key(Unknown, Modifiers::capslock()))),
    };
    match rng.below(8) {
        0 | 1 | 2 | 3 => q.push_back(Item::Op(Op::Key(Unknown, Modifiers::capslock()))),
        4 => {
            q.push_back(Item::Op(Op::Key(Space, Modifiers::shift())));
            leave(&mut q, rng);
        }
        5 | 6 => {
            q.push_back(Item::FlipLanguageByCall);
            leave(&mut q, rng);
        }
        _ => {
            q.push_back(Item::FlipFormByCall);
            leave(&mut q, rng);
        }
    }
    if rng.chance(7, 8) {
        q.push_back(Item::BackToChinese(rng.chance(2, 3)));
    }
    // later: the cursor elsewhere, and every site that restores a saved cursor
    for round in 0..2 {
        place(&mut q, rng);
        if rng.chance(1, 2) {
            for k in [G, N4] {
                q.push_back(Item::Op(key(k)));
            }
        }
        if round == 1 && rng.chance(1, 2) {
            q.push_back(Item::Op(key(Left)));
        }
        match rng.below(10) {
            0 | 1 | 2 => {
                q.push_back(Item::Op(key(Grave)));
                q.push_back(Item::Op(key(*rng.pick(&[N1, N2]))));
            }
            3 | 4 => {
                q.push_back(Item::Op(key(Grave)));
                q.push_back(Item::Op(key(*rng.pick(&[N3, N4]))));
                q.push_back(Item::Op(if rng.chance(1, 3) { Op::Select(rng.below(3) as usize) } else { key(*rng.pick(&[N1, N2, N3])) }));
            }
            5 | 6 => {
                open(&mut q, rng, false);
                q.push_back(Item::Op(key(Esc)));
            }
            7 => {
                open(&mut q, rng, false);
                q.push_back(Item::Op(if rng.chance(1, 2) { Op::Select(0) } else { key(N1) }));
            }
            8 => {
                open(&mut q, rng, false);
                q.push_back(Item::Op(Op::Key(Unknown, Modifiers::capslock())));
                q.push_back(Item::BackToChinese(true));
            }
            _ => {
                q.push_back(Item::Op(Op::StartSel));
                q.push_back(Item::Op(Op::CancelSel));
            }
        }
        for k in [H, K, N4] {
            q.push_back(Item::Op(key(k)));
        }
    }
    q
}

/// family (e), see the module comment
fn fuzzy_repeated_initial(rng: &mut Rng) -> VecDeque<Op> {
    use KeyCode::*;
    let mut q = VecDeque::new();
    q.push_back(Op::SetLayout(0));
    q.push_back(Op::SetEngine(2));
    let mut o = base_opts();
    o.conversion_engine = ConversionEngineKind::FuzzyChewingEngine;
    o.lookup_strategy = LookupStrategy::FuzzyPartialPrefix;
    let limit = *rng.pick(&[0u64, 1, 2, 3, 4, 6, 9, 39]);
    o.auto_commit_threshold = limit as usize;
    q.push_back(Op::SetOpts(o));
    // the harness dictionaries are in-memory (exact keys also under prefix lookup): give each bare initial a word of
    // its own, as a user phrase, so that the partial syllable `fuzzy_key_press` hands back is inserted
    for (code, word) in [(20u16 << 9, "測"), (17 << 9, "試"), (7 << 9, "你"), (11 << 9, "好")] {
        q.push_back(Op::Learn(vec![chewing::zhuyin::Syllable::try_from(code).unwrap()], word.to_string()));
    }
    let initials = [H, G, S, C];
    let main = *rng.pick(&initials);
    let n = limit + 3 + rng.below(6);
    let lower_at = if limit >= 3 && rng.chance(1, 3) { Some(1 + rng.below(limit)) } else { None };
    for i in 0..=n {
        q.push_back(key(if rng.chance(1, 6) { *rng.pick(&initials) } else { main }));
        if rng.chance(1, 12) {
            q.push_back(key(*rng.pick(&[Left, Home, End])));
        }
        if lower_at == Some(i) {
            let mut o2 = o;
            o2.auto_commit_threshold = rng.below(limit - 1) as usize;
            q.push_back(Op::SetOpts(o2));
        }
    }
    // finish the pending syllable one way or another
    match rng.below(3) {
        0 => q.push_back(key(Space)),
        1 => q.push_back(key(Esc)),
        _ => q.push_back(key(N4)),
    }
    q
}

/// family (f), see the module comment
fn simple_cancel_cycles(rng: &mut Rng) -> VecDeque<Op> {
    use KeyCode::*;
    let mut q = VecDeque::new();
    q.push_back(Op::SetLayout(0));
    q.push_back(Op::SetEngine(0));
    let mut o = base_opts();
    o.conversion_engine = ConversionEngineKind::SimpleEngine;
    let limit = *rng.pick(&[0u64, 1, 2, 3, 4, 6, 9, 39]);
    o.auto_commit_threshold = limit as usize;
    q.push_back(Op::SetOpts(o));
    let syls: [&[KeyCode]; 4] = [&[H, K, N4], &[G, N4], &[S, U, N3], &[C, L, N3]];
    let cycles = limit + 3 + rng.below(4);
    for _ in 0..cycles {
        for k in *rng.pick(&syls) {
            q.push_back(key(*k));
        }
        match rng.below(8) {
            0 => q.push_back(key(Esc)),
            1 => {
                // an option call under the open list (revalidate_selecting leaves a non-empty list alone), then close
                let mut o2 = o;
                o2.auto_shift_cursor = !o.auto_shift_cursor;
                q.push_back(Op::SetOpts(o2));
                q.push_back(Op::CancelSel);
            }
            2 => {
                q.push_back(Op::CancelSel);
                // re-open a list over the over-full buffer and close it again
                q.push_back(key(Down));
                q.push_back(Op::CancelSel);
            }
            _ => q.push_back(Op::CancelSel),
        }
        if rng.chance(1, 10) {
            q.push_back(key(*rng.pick(&[Left, Home, End])));
        }
    }
    // one more key of each kind after the last closed list
    q.push_back(Op::Key(Comma, Modifiers::shift()));
    for k in [G, N4] {
        q.push_back(key(k));
    }
    q
}
