//! Scripted sessions for C05 "the buffer stays bounded" (`editor --script c05`): histories in which a
//! single step overshoots `auto_commit_threshold` by MORE than one symbol, so that the auto-commit must
//! remove several leading intervals at once:
//!  (a) easy-symbol input on, a key whose abbreviation expands to two characters, typed when the buffer
//!      holds exactly `limit`, `limit - 1` or `limit - 2` symbols, at a random cursor position;
//!  (b) the limit lowered by >= 2 below the current length by a configuration call in mid-composition,
//!      followed by editing keys (cursor keys, Backspace, Delete, a symbol, a mode toggle, a syllable).
//!  (c) an editing sweep: Delete / Backspace / a symbol / a syllable at every cursor position of a buffer
//!      of 3..10 symbols.
//! Everything is derived from the session number (reproducible, independent of VERIF_SEED).
use crate::script_c18::base_opts;
use crate::Op;
use chewing::editor::keyboard::{KeyCode, Modifiers};
use std::collections::VecDeque;
use vharness::Rng;

pub fn n_sessions(thorough: bool) -> u64 {
    if thorough { 6000 } else { 360 }
}

pub struct Script {
    queue: VecDeque<Op>,
}

fn key(c: KeyCode) -> Op {
    Op::Key(c, Modifiers::default())
}

/// fill the buffer with `n` symbols: special symbols (work on every layout, no dictionary needed) mixed
/// with syllables typed on the Standard layout (inserted only if the session's dictionary has a word)
fn fill(q: &mut VecDeque<Op>, rng: &mut Rng, n: u64) {
    use KeyCode::*;
    let syls: [&[KeyCode]; 4] = [&[H, K, N4], &[G, N4], &[S, U, N3], &[C, L, N3]];
    for _ in 0..n {
        if rng.chance(1, 3) {
            for k in *rng.pick(&syls) {
                q.push_back(key(*k));
            }
        } else {
            q.push_back(Op::Key(*rng.pick(&[Comma, Dot, N1, LBracket]), Modifiers::shift()));
        }
    }
}

fn wander(q: &mut VecDeque<Op>, rng: &mut Rng) {
    use KeyCode::*;
    for _ in 0..rng.below(4) {
        q.push_back(key(*rng.pick(&[Left, Left, Right, Home, End])));
    }
}

impl Script {
    pub fn new(sid: u64, _thorough: bool) -> Script {
        use KeyCode::*;
        let mut rng = Rng::new(0xC05_u64.wrapping_mul(1_000_003).wrapping_add(sid));
        let mut q = VecDeque::new();
        q.push_back(Op::SetLayout(0));
        let mut o = base_opts();
        o.auto_shift_cursor = rng.chance(1, 2);
        o.easy_symbol_input = sid % 3 == 0;
        if sid % 3 == 2 {
            // (c) editing sweep: every cursor position of a buffer of 3..10 symbols x Delete / Backspace /
            //     a symbol / a syllable, far below the limit
            o.auto_commit_threshold = 39;
            q.push_back(Op::SetOpts(o));
            let n = 3 + rng.below(8);
            fill(&mut q, &mut rng, n);
            for _ in 0..8 {
                q.push_back(key(Home));
                for _ in 0..rng.below(n + 1) {
                    q.push_back(key(Right));
                }
                match rng.below(6) {
                    0 | 1 => q.push_back(key(Del)),
                    2 | 3 => q.push_back(key(Backspace)),
                    4 => q.push_back(Op::Key(Dot, Modifiers::shift())),
                    _ => {
                        for k in [G, N4] {
                            q.push_back(key(k));
                        }
                    }
                }
            }
        } else if sid % 3 == 0 {
            // (a) multi-symbol expansion at / near a full buffer
            let limit = *rng.pick(&[0u64, 1, 2, 3, 4, 5, 6, 8, 12, 20, 39]);
            o.auto_commit_threshold = limit as usize;
            q.push_back(Op::SetOpts(o));
            let short = rng.below(3).min(limit);
            fill(&mut q, &mut rng, limit - short);
            for _ in 0..(2 + rng.below(4)) {
                wander(&mut q, &mut rng);
                // 'a' -> two characters, Shift+Z -> two characters (the harness's abbreviation table)
                if rng.chance(1, 2) { q.push_back(key(A)) } else { q.push_back(Op::Key(Z, Modifiers::shift())) }
            }
        } else {
            // (b) the limit lowered by >= 2 in mid-composition, then editing keys
            let n = 2 + rng.below(10);
            o.auto_commit_threshold = 39;
            q.push_back(Op::SetOpts(o));
            fill(&mut q, &mut rng, n);
            wander(&mut q, &mut rng);
            let mut o2 = o;
            o2.auto_commit_threshold = (n - 2 - rng.below(n - 1).min(n - 2)) as usize;
            q.push_back(Op::SetOpts(o2));
            for _ in 0..(1 + rng.below(4)) {
                let op = match rng.below(10) {
                    0 | 1 => key(Left),
                    2 => key(Right),
                    3 => key(Home),
                    4 => key(End),
                    5 => key(Backspace),
                    6 => key(Del),
                    7 => Op::Key(Comma, Modifiers::shift()),
                    8 => Op::Key(Unknown, Modifiers::capslock()),
                    _ => Op::Key(Space, Modifiers::shift()),
                };
                q.push_back(op);
            }
            for k in [G, N4] {
                q.push_back(key(k));
            }
        }
        Script { queue: q }
    }

    pub fn next(&mut self, _snap: &str) -> Option<Op> {
        self.queue.pop_front()
    }
}
