//! Scripted, finite sweep for C06 (`editor --script c06`): EVERY key code x modifier set is sent ONCE from every
//! kind of situation the state machine distinguishes — every kind of open candidate list (phrase list at several
//! cursor positions, forward / rearward choice, second range, simple-engine list; symbol-category table opened by
//! backquote / Ctrl-1 / Ctrl-0 on an EMPTY and on a NON-EMPTY buffer; a category's member list; the symbol table
//! offered in place of a symbol without special alternatives (action Replace); the special-symbol list), with a
//! small and the default page size, on page 0, 1, 2 and on the last page — and from the other three states
//! (Entering with an empty / non-empty buffer, English mode; EnteringSyllable; Highlighting).
//!
//! Every probe starts from a freshly built editor that replays the scenario's prefix, so probes are independent.
//! The prefix is recorded once per scenario, every probe is recorded (`ed key …` records the model recomputes), and
//! C06's oracle looks at every recorded step (with the candidate getters and `display()` before / after).
use crate::step::{sel_info, symbols, CandView, Step};
use crate::{engine, kb_s, layout, op_s, ConvLog, LayoutCell, Op, Session, SharedLayout, SysLayer, ALL_CODES, CHARS};
use chewing::dictionary::{Dictionary, DictionaryMut, Layered, LookupStrategy, Phrase, TrieBuf};
use chewing::editor::keyboard::{KeyCode, KeyEvent, KeyboardLayout, Modifiers, Qwerty};
use chewing::editor::{
    AbbrevTable, BasicEditor, CharacterForm, ConversionEngineKind, Editor, EditorOptions, LanguageMode, LaxUserFreqEstimate,
    SymbolSelector, UserPhraseAddDirection,
};
use chewing::zhuyin::Syllable;
use std::cell::RefCell;
use std::collections::BTreeMap;
use std::io::Write as _;
use std::panic::{catch_unwind, AssertUnwindSafe};
use std::rc::Rc;
use vharness::Out;

/// 13 categories (two pages at the default page size 10, like the shipped symbols.dat): two plain symbols, then
/// tables; `數字` has 12 members (two pages at the default page size)
const SYMBOLS: &str = "…\n※\n常用符號=，、。\n括號=（）「」\n數字=０１２３４５６７８９⑩⑪\n箭頭=←→↑↓\n單位=℃％\n希臘=αβγδε\n線段=─│┌┐\n圖形=○●△▲\n數學=＋－×÷\n注音=ㄅㄆㄇ\n星號=＊\n";
/// index of `數字` in the category list
const CAT_DIGITS: usize = 4;

fn opts(per: usize) -> EditorOptions {
    EditorOptions {
        easy_symbol_input: false,
        esc_clear_all_buffer: false,
        space_is_select_key: false,
        auto_shift_cursor: false,
        phrase_choice_rearward: false,
        disable_auto_learn_phrase: false,
        auto_commit_threshold: 20,
        candidates_per_page: per,
        language_mode: LanguageMode::Chinese,
        character_form: CharacterForm::Halfwidth,
        user_phrase_add_dir: UserPhraseAddDirection::Forward,
        lookup_strategy: LookupStrategy::Standard,
        conversion_engine: ConversionEngineKind::ChewingEngine,
        enable_fullwidth_toggle_key: true,
    }
}

/// one system layer: the first syllable has 12 words (two pages at the default page size), the others 5;
/// phrases over (s0 s1), (s1 s2), (s0 s1 s2)
fn system_layer(syls: &[Syllable]) -> SysLayer {
    let mut layer: SysLayer = vec![];
    for (i, s) in syls.iter().enumerate() {
        let n = if i == 0 { 12 } else { 5 };
        for j in 0..n {
            layer.push((vec![*s], CHARS[(i * 3 + j) % CHARS.len()].to_string(), (100 - j) as u32));
        }
    }
    let ph = |ix: &[usize], f: u32| -> (Vec<Syllable>, String, u32) {
        (ix.iter().map(|i| syls[*i]).collect(), ix.iter().map(|i| CHARS[(*i * 5 + f as usize) % CHARS.len()]).collect(), 200 + f)
    };
    layer.extend([ph(&[0, 1], 1), ph(&[0, 1], 2), ph(&[0, 1], 3), ph(&[1, 2], 1), ph(&[1, 2], 4), ph(&[0, 1, 2], 1)]);
    // two overlapping phrases and no phrase over all three: the engine's alternatives for (s3 s4 s5) read differently
    layer.extend([ph(&[3, 4], 2), ph(&[4, 5], 3)]);
    layer
}

fn build(layer: &SysLayer, abbr_path: &std::path::Path, per: usize) -> Session {
    let mk = || {
        let mut d = TrieBuf::new_in_memory();
        for (k, p, f) in layer {
            DictionaryMut::add_phrase(&mut d, k, Phrase::new(p.as_str(), *f)).unwrap();
        }
        d
    };
    let sys_boxes: Vec<Box<dyn Dictionary>> = vec![Box::new(crate::FuelDict(mk()))];
    let user = Box::new(TrieBuf::new_in_memory());
    let user_ptr: *const TrieBuf = &*user;
    let dict = Layered::new(sys_boxes, user);
    let conv_log: ConvLog = Rc::new(RefCell::new(vec![]));
    let lay: LayoutCell = Rc::new(RefCell::new(layout(0)));
    let abbr = AbbrevTable::open(abbr_path).unwrap();
    let sym_sel = SymbolSelector::new(std::io::Cursor::new(SYMBOLS)).unwrap();
    let mut ed = Editor::new(engine(1, &conv_log), dict, LaxUserFreqEstimate::new(0), abbr, sym_sel);
    ed.set_syllable_editor(Box::new(SharedLayout(lay.clone())));
    ed.set_editor_options(opts(per));
    crate::register_user(&conv_log, user_ptr);
    Session { ed, lay, conv_log, user: user_ptr, sys: vec![layer.clone()], layout_kind: 0, probes: vec![mk()], engine_kind: 1 }
}

fn event(op: &Op) -> Option<KeyEvent> {
    match op {
        Op::Key(c, m) => Some(Qwerty.map_with_mod(*c, *m)),
        _ => None,
    }
}

/// the operation itself (the three kinds the script uses), as `main` applies it; Err = the editor panicked
fn apply(s: &mut Session, op: &Op) -> Result<String, ()> {
    crate::LOOKUPS.with(|c| c.set(0));
    let ev = event(op);
    catch_unwind(AssertUnwindSafe(|| -> String {
        match op {
            Op::Key(..) => kb_s(s.ed.process_keyevent(ev.unwrap())).to_string(),
            Op::SetOpts(o) => {
                s.ed.set_editor_options(*o);
                "ok".into()
            }
            Op::SetEngine(k) => {
                let mut o = s.ed.editor_options();
                s.ed.set_conversion_engine(engine(*k, &s.conv_log));
                s.engine_kind = *k;
                o.conversion_engine = match k {
                    0 => ConversionEngineKind::SimpleEngine,
                    2 => ConversionEngineKind::FuzzyChewingEngine,
                    _ => ConversionEngineKind::ChewingEngine,
                };
                o.lookup_strategy = if *k == 2 { LookupStrategy::FuzzyPartialPrefix } else { LookupStrategy::Standard };
                s.ed.set_editor_options(o);
                "ok".into()
            }
            _ => unreachable!("script c06 uses keys, setopts and setengine only"),
        }
    }))
    .map_err(|_| ())
}

/// one recorded step: transcript record + C06's oracle (with the getters before / after); returns the key result
fn record(out: &mut Out, s: &mut Session, op: &Op, history: &mut Vec<String>, seed: u64, sid: u64) -> Option<String> {
    let ev = event(op);
    let pre = s.ed.verif_snapshot();
    let dict_pre = s.dict_s();
    let lay_ans = s.layout_answers(ev);
    crate::LOOKUPS.with(|c| c.set(0));
    let cand_pre: Option<CandView> = s.cand_view(&pre);
    let display_pre = catch_unwind(AssertUnwindSafe(|| s.ed.display())).ok();
    let len_pre = s.ed.len();
    s.conv_log.borrow_mut().clear();
    let res = apply(s, op);
    let conv_ans = s.conv_answers();
    let conv_step = s.conv_log.borrow().clone();
    let opstr = op_s(op, &ev);
    history.push(opstr.clone());
    match res {
        Ok(ret) => {
            let post = s.ed.verif_snapshot();
            let dict_post = s.dict_s();
            s.conv_log.borrow_mut().clear();
            crate::LOOKUPS.with(|c| c.set(0));
            let cand_post = s.cand_view(&post);
            let display_post = catch_unwind(AssertUnwindSafe(|| s.ed.display())).ok();
            let commit_post = s.ed.display_commit().to_string();
            s.conv_log.borrow_mut().clear();
            let step = Step {
                op: &opstr, key: ev, pre: &pre, post: &post, ret: &ret,
                dict_pre: &dict_pre, dict_post: &dict_post, history: &history[..], seed, sid,
                cand_pre: cand_pre.as_ref(), cand_post: cand_post.as_ref(),
                outcome: "ok", no_word_pre: None, no_word_post: None, getter_fail: None,
                display_pre: display_pre.as_deref(), display_post: display_post.as_deref(),
                len_pre, len_post: s.ed.len(), commit_post: &commit_post, conv: &conv_step, alts_pre: &[],
            };
            crate::oracle_c06::check(out, &step);
            out.rec(&format!("ed {} | {} | {} | {} {} => ok | {} | {} | {}", opstr, pre, dict_pre, lay_ans, conv_ans, post, ret, dict_post));
            Some(ret)
        }
        Err(()) => {
            // a panic is C01's subject; the record lets the model say whether it expects one
            out.rec(&format!("ed {} | {} | {} | {} {} => panic", opstr, pre, dict_pre, lay_ans, conv_ans));
            None
        }
    }
}

struct Scenario {
    /// `<state kind>[.<list kind>].<how it was reached>`
    name: String,
    prefix: Vec<Op>,
    /// the key that pages forward in this scenario
    pager: KeyCode,
    /// quick tier: swept with the default page size too, and on page 1 as well as on page 0 / the last page
    core: bool,
}

fn scenarios(pool: &[(Syllable, Vec<KeyCode>)], per: usize) -> Vec<Scenario> {
    use KeyCode::*;
    let plain = Modifiers::default();
    let key = |c: KeyCode| Op::Key(c, plain);
    let typed = |ix: &[usize]| -> Vec<Op> { ix.iter().flat_map(|i| pool[*i].1.iter().map(|k| Op::Key(*k, plain))).collect() };
    let mut out: Vec<Scenario> = vec![];
    let pagers = [Right, PageDown, Space, Down];
    let mut add = |name: &str, prefix: Vec<Op>| {
        let pager = pagers[out.len() % pagers.len()];
        let core = [
            "list.symtab.empty.grave", "list.symtab.empty.ctrl1", "list.symtab.nonempty_end.grave", "list.symcat.empty.grave",
            "list.symcat.nonempty_end.grave", "list.phrase.one_syllable", "list.symtab_replace.after_syllables", "list.special.after_syllables",
        ]
        .contains(&name);
        out.push(Scenario { name: name.to_string(), prefix, pager, core });
    };
    let cat = |mut p: Vec<Op>, idx: usize| -> Vec<Op> {
        // choose category `idx` of the symbol table: page forward, then the digit of its place on the page
        for _ in 0..idx / per {
            p.push(key(Right));
        }
        p.push(key(ALL_CODES[1 + idx % per]));
        p
    };
    let with = |o: EditorOptions, mut rest: Vec<Op>| -> Vec<Op> {
        let mut p = vec![Op::SetOpts(o)];
        p.append(&mut rest);
        p
    };
    let abc = || typed(&[0, 1, 2]);
    let join = |mut a: Vec<Op>, b: Vec<Op>| -> Vec<Op> {
        a.extend(b);
        a
    };
    // ---- the other three states
    add("entering.empty", vec![]);
    add("entering.empty_english", vec![Op::Key(Unknown, Modifiers::capslock())]);
    add("entering.nonempty_end", abc());
    add("entering.nonempty_home", join(abc(), vec![key(Home)]));
    add("entering.nonempty_mid", join(abc(), vec![key(Home), key(Right)]));
    // Tab at the end of the buffer chooses the next conversion alternative (what `display()` shows changes)
    add("entering.alternative_chosen", join(typed(&[3, 4, 5]), vec![key(Tab)]));
    add("syllable.empty_buffer", vec![Op::Key(pool[0].1[0], plain)]);
    add("syllable.nonempty_buffer", join(typed(&[0, 1]), vec![Op::Key(pool[2].1[0], plain)]));
    add("highlight.left", join(abc(), vec![Op::Key(Left, Modifiers::shift())]));
    add("highlight.right2", join(abc(), vec![key(Home), Op::Key(Right, Modifiers::shift()), Op::Key(Right, Modifiers::shift())]));
    // ---- phrase lists
    add("list.phrase.one_syllable", join(typed(&[0]), vec![key(Down)]));
    add("list.phrase.home", join(abc(), vec![key(Home), key(Down)]));
    add("list.phrase.mid", join(abc(), vec![key(Home), key(Right), key(Down)]));
    add("list.phrase.end", join(abc(), vec![key(Down)]));
    add("list.phrase.home_second_range", join(abc(), vec![key(Home), key(Down), key(Down)]));
    // (s0 s1 s2) has one phrase, (s0 s1) three: Down pages through them before it moves on to the range (s0)
    add("list.phrase.home_third_range", join(abc(), join(vec![key(Home), key(Down), key(Down)], vec![key(Down); 3usize.div_ceil(per)])));
    let mut rear = opts(per);
    rear.phrase_choice_rearward = true;
    add("list.phrase.rearward_end", with(rear, join(abc(), vec![key(Down)])));
    add("list.phrase.rearward_mid", with(rear, join(abc(), vec![key(Left), key(Down)])));
    add("list.phrase.rearward_end_third_range", with(rear, join(abc(), vec![key(Down), key(Down), key(Down)])));
    let mut sp = opts(per);
    sp.space_is_select_key = true;
    add("list.phrase.space_key", with(sp, join(abc(), vec![key(Home), key(Space)])));
    add("list.phrase.simple_engine", join(vec![Op::SetEngine(0)], typed(&[0])));
    add("list.phrase.after_j", join(abc(), vec![key(Down), key(J)]));
    // ---- the symbol-category table (action Insert), empty / non-empty buffer
    add("list.symtab.empty.grave", vec![key(Grave)]);
    add("list.symtab.empty.ctrl1", vec![Op::Key(N1, Modifiers::control())]);
    add("list.symtab.empty.ctrl0", vec![Op::Key(N0, Modifiers::control())]);
    add("list.symtab.nonempty_end.grave", join(abc(), vec![key(Grave)]));
    add("list.symtab.nonempty_home.ctrl1", join(abc(), vec![key(Home), Op::Key(N1, Modifiers::control())]));
    add("list.symtab.nonempty_mid.grave", join(abc(), vec![key(Left), key(Grave)]));
    // ---- a category's member list
    add("list.symcat.empty.grave", cat(vec![key(Grave)], CAT_DIGITS));
    add("list.symcat.empty.ctrl1_small", cat(vec![Op::Key(N1, Modifiers::control())], 2));
    add("list.symcat.nonempty_end.grave", cat(join(abc(), vec![key(Grave)]), CAT_DIGITS));
    add("list.symcat.nonempty_home.ctrl1", cat(join(abc(), vec![key(Home), Op::Key(N1, Modifiers::control())]), CAT_DIGITS));
    // ---- the symbol table in place of a symbol that has no special alternatives (action Replace), and its member list
    let digit = Op::Key(N1, Modifiers::numlock());
    // (NumLock + 1 on an EMPTY buffer commits the digit: there is no such list without something in the buffer)
    add("list.symtab_replace.after_syllables", join(abc(), vec![digit.clone(), key(Down)]));
    add("list.symtab_replace.after_one_syllable_home", join(typed(&[0]), vec![digit.clone(), key(Down)]));
    add("list.symcat_replace.after_syllables", cat(join(abc(), vec![digit.clone(), key(Down)]), CAT_DIGITS));
    // ---- the special-symbol list
    // Shift + '-' inserts a dash, which has 18 alternatives (two pages at the default page size); '，' has two
    let comma = Op::Key(Comma, Modifiers::shift());
    let dash = Op::Key(Minus, Modifiers::shift());
    add("list.special.only_symbol", vec![dash.clone(), key(Down)]);
    add("list.special.after_syllables", join(abc(), vec![dash, key(Down)]));
    add("list.special.comma", vec![comma.clone(), key(Down)]);
    add("list.special.k_from_phrase", join(typed(&[0]), vec![comma, key(Home), key(Down), key(K)]));
    out
}

fn mod_sets(thorough: bool) -> Vec<Modifiers> {
    if thorough {
        (0..16u8).map(|b| Modifiers { shift: b & 1 != 0, ctrl: b & 2 != 0, capslock: b & 4 != 0, numlock: b & 8 != 0 }).collect()
    } else {
        vec![
            Modifiers::default(),
            Modifiers::shift(),
            Modifiers::control(),
            Modifiers::capslock(),
            Modifiers::numlock(),
        ]
    }
}

pub fn run(out: &mut Out, seed: u64, thorough: bool) {
    let pool = crate::pool(false);
    // which syllables play s0 s1 s2 rotates with the seed
    let n = pool.len();
    let off = (seed as usize) % n;
    let pool: Vec<(Syllable, Vec<KeyCode>)> = (0..n).map(|i| pool[(off + i) % n].clone()).collect();
    let layer = system_layer(&pool.iter().map(|p| p.0).collect::<Vec<_>>());
    let abbr_file = {
        let mut f = tempfile::NamedTempFile::new().unwrap();
        writeln!(f, "a 測試").unwrap();
        writeln!(f, "Z 𠀀們").unwrap();
        f.flush().unwrap();
        f
    };
    let pers: Vec<usize> = if thorough { vec![1, 2, 10] } else { vec![2, 10] };
    let mods = mod_sets(thorough);
    let mut stats: BTreeMap<String, u64> = BTreeMap::new();
    let mut bump = |k: String| *stats.entry(k).or_insert(0) += 1;
    let (mut n_sit, mut n_probe, mut n_panic, mut sid) = (0u64, 0u64, 0u64, 0u64);
    for per in &pers {
        for sc in scenarios(&pool, *per) {
            if !thorough && *per == 10 && !sc.core {
                continue;
            }
            // the prefix, recorded once; then how many pages the open list has
            let label = format!("script-c06 {} per={}", sc.name, per);
            let mut s = build(&layer, abbr_file.path(), *per);
            let mut history: Vec<String> = vec![label.clone()];
            let mut ok = true;
            for op in &sc.prefix {
                ok &= record(out, &mut s, op, &mut history, seed, sid).is_some();
            }
            if !ok {
                n_panic += 1;
                continue;
            }
            let total = if s.ed.is_selecting() { s.ed.total_page().unwrap_or(0) } else { 0 };
            let want_list = sc.name.starts_with("list.");
            if want_list != s.ed.is_selecting() {
                // the scenario did not reach what its name says (counted, visible in the evidence)
                bump(format!("c06_scenario_missed.{}", sc.name));
                continue;
            }
            // page positions: 0, 1, 2 and the last page (reached backwards from page 0)
            let mut positions: Vec<(usize, bool)> = vec![(0, false)];
            if total > 1 {
                for p in [1usize, 2] {
                    let wanted = thorough || (p == 1 && (sc.core || sc.name.contains(".empty.")));
                    if p < total - 1 && wanted {
                        positions.push((p, false));
                    }
                }
                positions.push((total - 1, true));
            }
            drop(s);
            for (page, backwards) in positions {
                let plain = Modifiers::default();
                let mut prefix = sc.prefix.clone();
                if backwards {
                    prefix.push(Op::Key(KeyCode::Left, plain));
                } else {
                    for _ in 0..page {
                        prefix.push(Op::Key(sc.pager, plain));
                    }
                }
                // record the paging steps once
                let mut s = build(&layer, abbr_file.path(), *per);
                let mut history: Vec<String> = vec![label.clone()];
                for (i, op) in prefix.iter().enumerate() {
                    if i < sc.prefix.len() {
                        let _ = apply(&mut s, op);
                        history.push(op_s(op, &event(op)));
                    } else {
                        record(out, &mut s, op, &mut history, seed, sid);
                    }
                }
                let here = s.ed.verif_snapshot();
                let info = sel_info(&here);
                if sc.name == "entering.alternative_chosen" {
                    // the scenario is only worth something if the chosen alternative reads differently from the first one
                    let mut s0 = build(&layer, abbr_file.path(), *per);
                    for op in &prefix[..prefix.len() - 1] {
                        let _ = apply(&mut s0, op);
                    }
                    bump(format!("c06_alternative_reads_differently.{}", (s0.ed.display() != s.ed.display()) as u8));
                }
                if want_list && (info.as_ref().map(|i| i.page) != Some(page) || s.ed.current_page_no().ok() != Some(page)) {
                    bump(format!("c06_page_missed.{}", sc.name));
                    continue;
                }
                let kind = match &info {
                    Some(i) => format!("list_{}{}", i.kind, i.action),
                    None => match here.as_bytes()[0] {
                        b'E' => "entering".to_string(),
                        b'Y' => "syllable".to_string(),
                        _ => "highlight".to_string(),
                    },
                };
                let pos = if !want_list { "-" } else if page == 0 { "page0" } else if backwards { "last" } else if page == 1 { "page1" } else { "page2" };
                let empty = symbols(&here).is_empty();
                n_sit += 1;
                let prefix_hist = history.clone();
                drop(s);
                for code in ALL_CODES.iter() {
                    for m in &mods {
                        let mut s = build(&layer, abbr_file.path(), *per);
                        for op in &prefix {
                            let _ = apply(&mut s, op);
                        }
                        s.conv_log.borrow_mut().clear();
                        let mut history = prefix_hist.clone();
                        let ret = record(out, &mut s, &Op::Key(*code, *m), &mut history, seed, sid);
                        n_probe += 1;
                        let r = match ret.as_deref() {
                            Some("I") => "ignore",
                            Some("B") => "bell",
                            Some("A") => "absorb",
                            Some("C") => "commit",
                            _ => "panic",
                        };
                        bump(format!("c06_probes.{}.{}", kind, pos));
                        bump(format!("c06_probes_{}", r));
                        bump(format!("c06_probes_{}.{}", r, kind));
                        if r == "ignore" {
                            if page > 0 {
                                bump("c06_ignored_with_page_gt0".to_string());
                                bump(format!("c06_ignored_with_page_gt0.{}", kind));
                            }
                            if empty {
                                bump("c06_ignored_with_empty_buffer".to_string());
                                if want_list {
                                    bump("c06_ignored_with_empty_buffer_and_open_list".to_string());
                                }
                            }
                        }
                        if r == "bell" && page > 0 {
                            bump("c06_bell_with_page_gt0".to_string());
                        }
                        if r == "panic" {
                            n_panic += 1;
                        }
                    }
                }
                sid += 1;
            }
        }
    }
    out.stat("c06_script_situations", n_sit);
    out.stat("c06_script_probes", n_probe);
    out.stat("c06_script_key_codes", ALL_CODES.len());
    out.stat("c06_script_modifier_sets", mods.len());
    out.stat("c06_script_page_sizes", pers.iter().map(|p| p.to_string()).collect::<Vec<_>>().join(","));
    out.stat("c06_script_panics", n_panic);
    for (k, v) in &stats {
        out.stat(k, v);
    }
}
