//! Scripted, exhaustive sessions for C18 (`editor --script c18`): all 95 printable ASCII characters
//! x {half, full width} x {English, Chinese} x {empty buffer, non-empty buffer at three cursor
//! positions}, typed through the real editor (Qwerty `map_ascii` events).  The script restores the
//! base buffer after every character by looking at the editor's state, so every character meets the
//! same situation.  After the 95 characters the 15 keypad characters follow (`map_ascii_numlock`).  Modes are reached through the configuration call (even sessions) or through the
//! CapsLock / Shift-Space keys themselves (odd sessions; there every 8th character is preceded by a
//! double CapsLock and a double Shift-Space toggle in mid-composition).
//!
//! After the sweep come the CROSSING-PHRASE sessions ("changing a mode never alters text already in the
//! buffer", where the text shown is NOT the default conversion): the script teaches the dictionary phrases
//! that overlap (`AB` + `BC` over the syllables A B C, or `AB` + `ABC` + `CD` over A B C D — the engine offers
//! alternatives that READ differently only for overlapping phrases, contained ones are trimmed away), types the
//! syllables, presses Tab 1..3 times at the end of the buffer (a non-default alternative is shown), brings the
//! editor into each state (Entering; EnteringSyllable by a pending phonetic key; Selecting by Down; Highlighting
//! by Shift-Left) and changes a mode in every way there is — CapsLock key, Shift-Space key with the toggle
//! enabled / disabled, `set_editor_options` flipping the language, the form, both — in half of the scenarios there
//! and back again; then a shifted letter is typed (English branch in either language mode, half / full width)
//! and Enter commits, so that a text altered by the mode change would also be inserted into and committed.
use crate::step::symbols;
use crate::Op;
use chewing::dictionary::LookupStrategy;
use chewing::editor::keyboard::{KeyCode, KeyboardLayout, Modifiers, Qwerty};
use chewing::editor::zhuyin_layout::{KeyBehavior, Standard, SyllableEditor};
use chewing::editor::{CharacterForm, ConversionEngineKind, EditorOptions, LanguageMode, UserPhraseAddDirection};
use chewing::zhuyin::Syllable;
use std::collections::VecDeque;
use std::sync::atomic::{AtomicU64, Ordering};

fn sweep_sessions(thorough: bool) -> u64 {
    // 2 languages x 2 forms x 2 buffers x 2 ways of reaching the mode (x 10 phonetic layouts in thorough)
    if thorough { 16 * 10 } else { 16 }
}

fn cross_sessions(thorough: bool) -> u64 {
    // 2 phrase shapes x {syllables only the script has words for, syllables of the generated dictionaries} x
    // auto-learn on / off (x 6 choices of syllables and start options in thorough)
    if thorough { 8 * 6 } else { 8 }
}

pub fn n_sessions(thorough: bool) -> u64 {
    sweep_sessions(thorough) + cross_sessions(thorough)
}

static CROSS_BUILT: AtomicU64 = AtomicU64::new(0);

/// how many crossing-phrase sessions this run has scripted (the oracle insists that they bite)
pub fn cross_sessions_built() -> u64 {
    CROSS_BUILT.load(Ordering::Relaxed)
}

/// Standard-layout key sequences: the first eight are syllables the generated dictionaries have no word for
/// (only what the script teaches), the others belong to the generator's pool
const CROSS_SEQS: [&[KeyCode]; 16] = {
    use KeyCode::*;
    [
        &[H, Space], &[G, Space], &[P, N7], &[Comma, N4], &[I, Space], &[B, N6], &[M, N3], &[T, J, N4],
        &[H, K, N4], &[G, N4], &[J, U, N3], &[S, U, N3], &[C, L, N3], &[N1, Space], &[A, Space], &[Y, J, N4],
    ]
};

fn syllable_of(seq: &[KeyCode]) -> Option<Syllable> {
    let mut l = Standard::new();
    let mut last = KeyBehavior::Ignore;
    for k in seq {
        last = l.key_press(Qwerty.map(*k));
    }
    if last == KeyBehavior::Commit && !l.read().is_empty() { Some(l.read()) } else { None }
}

#[derive(Clone, Copy, PartialEq)]
enum Change {
    CapsE,
    CapsY,
    CapsS,
    CapsH,
    ShSpOn,
    ShSpOff,
    SetLang,
    SetForm,
    SetBoth,
    SetLangY,
    SetFormS,
    SetBothH,
}

/// the whole crossing-phrase session `v` as a list of operations
fn cross_script(v: u64) -> VecDeque<Op> {
    use KeyCode::*;
    let plain = Modifiers::default();
    let four = v & 1 == 1;
    let pool_syllables = v & 2 == 2;
    let no_auto_learn = v & 4 == 4;
    let round = (v / 8) as usize;
    // four distinct syllables
    let base = if pool_syllables { 8 } else { 0 };
    let mut seqs: Vec<&[KeyCode]> = vec![];
    let mut syls: Vec<Syllable> = vec![];
    for i in 0..8 {
        let seq = CROSS_SEQS[base + (i + 3 * round) % 8];
        if let Some(s) = syllable_of(seq) {
            if !syls.contains(&s) && syls.len() < 4 {
                syls.push(s);
                seqs.push(seq);
            }
        }
    }
    let mut q: VecDeque<Op> = VecDeque::new();
    if syls.len() < 4 {
        return q;
    }
    let mut o0 = base_opts();
    o0.disable_auto_learn_phrase = no_auto_learn;
    o0.esc_clear_all_buffer = round & 1 == 1;
    o0.auto_shift_cursor = round & 2 == 2;
    if round >= 3 {
        o0.character_form = CharacterForm::Fullwidth;
    }
    q.push_back(Op::SetEngine(1));
    q.push_back(Op::SetLayout(0));
    q.push_back(Op::SetOpts(o0));
    for (s, w) in syls.iter().zip(["甲", "乙", "丙", "丁"]) {
        q.push_back(Op::Learn(vec![*s], w.to_string()));
    }
    let n = if four { 4 } else { 3 };
    if four {
        // AB|CD against ABC|D
        q.push_back(Op::Learn(syls[0..2].to_vec(), "天地".into()));
        q.push_back(Op::Learn(syls[0..3].to_vec(), "宇宙洪".into()));
        q.push_back(Op::Learn(syls[2..4].to_vec(), "日月".into()));
    } else {
        // AB|C against A|BC
        q.push_back(Op::Learn(syls[0..2].to_vec(), "天地".into()));
        q.push_back(Op::Learn(syls[1..3].to_vec(), "玄黃".into()));
    }
    let caps = Op::Key(Unknown, Modifiers::capslock());
    let shsp = Op::Key(Space, Modifiers::shift());
    let flipped = |lang: bool, form: bool, from: &EditorOptions| -> EditorOptions {
        let mut o = *from;
        if lang {
            o.language_mode = if o.language_mode == LanguageMode::Chinese { LanguageMode::English } else { LanguageMode::Chinese };
        }
        if form {
            o.character_form = if o.character_form == CharacterForm::Halfwidth { CharacterForm::Fullwidth } else { CharacterForm::Halfwidth };
        }
        o
    };
    let changes = [
        Change::CapsE, Change::CapsY, Change::CapsS, Change::CapsH, Change::ShSpOn, Change::ShSpOff, Change::SetLang,
        Change::SetForm, Change::SetBoth, Change::SetLangY, Change::SetFormS, Change::SetBothH,
    ];
    let letter = Qwerty.map_ascii(b'Z');
    for tabs in 1..=3usize {
        for (ci, ch) in changes.iter().enumerate() {
            let mut o = o0;
            o.enable_fullwidth_toggle_key = *ch != Change::ShSpOff;
            q.push_back(Op::Clear);
            q.push_back(Op::SetOpts(o));
            for seq in &seqs[..n] {
                for k in seq.iter() {
                    q.push_back(Op::Key(*k, plain));
                }
            }
            for _ in 0..tabs {
                q.push_back(Op::Key(Tab, plain));
            }
            // the state in which the mode changes
            match ch {
                Change::CapsY | Change::SetLangY => q.push_back(Op::Key(seqs[0][0], plain)),
                Change::CapsS | Change::SetFormS => q.push_back(Op::Key(Down, plain)),
                Change::CapsH | Change::SetBothH => q.push_back(Op::Key(Left, Modifiers::shift())),
                _ => {}
            }
            let back = (tabs + ci) % 2 == 0;
            match ch {
                Change::CapsE | Change::CapsY | Change::CapsS | Change::CapsH => {
                    q.push_back(caps.clone());
                    if back {
                        q.push_back(caps.clone());
                    }
                }
                Change::ShSpOn => {
                    q.push_back(shsp.clone());
                    if back {
                        q.push_back(shsp.clone());
                    }
                }
                // not a toggle while disabled: the key is an ordinary Space
                Change::ShSpOff => q.push_back(shsp.clone()),
                Change::SetLang | Change::SetLangY => {
                    q.push_back(Op::SetOpts(flipped(true, false, &o)));
                    if back {
                        q.push_back(Op::SetOpts(o));
                    }
                }
                Change::SetForm | Change::SetFormS => {
                    q.push_back(Op::SetOpts(flipped(false, true, &o)));
                    if back {
                        q.push_back(Op::SetOpts(o));
                    }
                }
                Change::SetBoth | Change::SetBothH => {
                    q.push_back(Op::SetOpts(flipped(true, true, &o)));
                    if back {
                        q.push_back(Op::SetOpts(flipped(true, false, &o)));
                        q.push_back(Op::SetOpts(o));
                    }
                }
            }
            // leave a list / a highlight the configuration call kept open
            match ch {
                Change::SetFormS => q.push_back(Op::Key(Esc, plain)),
                Change::SetBothH => q.push_back(Op::Key(End, plain)),
                _ => {}
            }
            // what was shown is what a character is inserted into and what Enter commits
            q.push_back(Op::Key(letter.code, letter.modifiers));
            q.push_back(Op::Key(Enter, plain));
        }
    }
    q
}

pub struct Script {
    queue: VecDeque<Op>,
    started: bool,
    i: u32,
    eng: bool,
    full: bool,
    nonempty: bool,
    via_keys: bool,
    layout: u8,
    base_len: usize,
    guard: u32,
    /// a crossing-phrase session: the whole list of operations is in `queue`
    cross: bool,
}

pub fn base_opts() -> EditorOptions {
    EditorOptions {
        easy_symbol_input: false,
        esc_clear_all_buffer: false,
        space_is_select_key: false,
        auto_shift_cursor: false,
        phrase_choice_rearward: false,
        disable_auto_learn_phrase: false,
        auto_commit_threshold: 39,
        candidates_per_page: 10,
        language_mode: LanguageMode::Chinese,
        character_form: CharacterForm::Halfwidth,
        user_phrase_add_dir: UserPhraseAddDirection::Forward,
        lookup_strategy: LookupStrategy::Standard,
        conversion_engine: ConversionEngineKind::ChewingEngine,
        enable_fullwidth_toggle_key: true,
    }
}

impl Script {
    pub fn new(sid: u64, thorough: bool) -> Script {
        let k = sid % 16;
        let cross = sid >= sweep_sessions(thorough);
        if cross {
            CROSS_BUILT.fetch_add(1, Ordering::Relaxed);
        }
        Script {
            cross,
            queue: if cross { cross_script(sid - sweep_sessions(thorough)) } else { VecDeque::new() },
            started: false,
            i: 0,
            eng: k & 1 == 1,
            full: k & 2 == 2,
            nonempty: k & 4 == 4,
            via_keys: k & 8 == 8,
            layout: if thorough { (sid / 16) as u8 } else { ((sid * 7) % 10) as u8 },
            base_len: 0,
            guard: 0,
        }
    }

    /// the next operation, given the editor's current snapshot; `None` = session finished
    pub fn next(&mut self, snap: &str) -> Option<Op> {
        if let Some(op) = self.queue.pop_front() {
            return Some(op);
        }
        if self.cross {
            return None;
        }
        let caps = Op::Key(KeyCode::Unknown, Modifiers::capslock());
        let shsp = Op::Key(KeyCode::Space, Modifiers::shift());
        if !self.started {
            self.started = true;
            self.queue.push_back(Op::SetEngine(1));
            self.queue.push_back(Op::SetLayout(self.layout));
            self.queue.push_back(Op::SetOpts(base_opts()));
            if self.nonempty {
                // Shift+',' in Chinese mode inserts the special symbol '，' on every phonetic layout
                for _ in 0..3 {
                    self.queue.push_back(Op::Key(KeyCode::Comma, Modifiers::shift()));
                }
                self.base_len = 3;
            }
            if self.via_keys {
                if self.eng {
                    self.queue.push_back(caps.clone());
                }
                if self.full {
                    self.queue.push_back(shsp.clone());
                }
            } else {
                let mut o = base_opts();
                if self.eng {
                    o.language_mode = LanguageMode::English;
                }
                if self.full {
                    o.character_form = CharacterForm::Fullwidth;
                }
                self.queue.push_back(Op::SetOpts(o));
            }
            return self.queue.pop_front();
        }
        // restore the base situation: state Entering, buffer of base_len symbols
        self.guard += 1;
        if self.guard > 2000 {
            return None;
        }
        let state = snap.as_bytes()[0];
        if state != b'E' {
            return Some(Op::Key(KeyCode::Esc, Modifiers::default()));
        }
        if symbols(snap).len() > self.base_len {
            return Some(Op::Key(KeyCode::Backspace, Modifiers::default()));
        }
        const KEYPAD: &[u8] = b"1234567890+-*/.";
        if self.i as usize == 95 + KEYPAD.len() {
            return None;
        }
        let c = if self.i < 95 { 32 + self.i as u8 } else { KEYPAD[self.i as usize - 95] };
        let keypad = self.i >= 95;
        self.i += 1;
        if self.nonempty {
            match self.i % 3 {
                0 => self.queue.push_back(Op::Key(KeyCode::Home, Modifiers::default())),
                1 => self.queue.push_back(Op::Key(KeyCode::End, Modifiers::default())),
                _ => {
                    self.queue.push_back(Op::Key(KeyCode::Home, Modifiers::default()));
                    self.queue.push_back(Op::Key(KeyCode::Right, Modifiers::default()));
                }
            }
        }
        if self.via_keys && self.i % 8 == 0 {
            // toggles in mid-composition, there and back
            self.queue.push_back(caps.clone());
            self.queue.push_back(caps);
            self.queue.push_back(shsp.clone());
            self.queue.push_back(shsp);
        }
        let ev = if keypad { Qwerty.map_ascii_numlock(c) } else { Qwerty.map_ascii(c) };
        self.queue.push_back(Op::Key(ev.code, ev.modifiers));
        self.queue.pop_front()
    }
}
