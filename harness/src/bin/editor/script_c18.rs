//! Scripted, exhaustive sessions for C18 (`editor --script c18`): all 95 printable ASCII characters
//! x {half, full width} x {English, Chinese} x {empty buffer, non-empty buffer at three cursor
//! positions}, typed through the real editor (Qwerty `map_ascii` events).  The script restores the
//! base buffer after every character by looking at the editor's state, so every character meets the
//! same situation.  After the 95 characters the 15 keypad characters follow (`map_ascii_numlock`).  Modes are reached through the configuration call (even sessions) or through the
//! CapsLock / Shift-Space keys themselves (odd sessions; there every 8th character is preceded by a
//! double CapsLock and a double Shift-Space toggle in mid-composition).
use crate::step::symbols;
use crate::Op;
use chewing::dictionary::LookupStrategy;
use chewing::editor::keyboard::{KeyCode, KeyboardLayout, Modifiers, Qwerty};
use chewing::editor::{CharacterForm, ConversionEngineKind, EditorOptions, LanguageMode, UserPhraseAddDirection};
use std::collections::VecDeque;

pub fn n_sessions(thorough: bool) -> u64 {
    // 2 languages x 2 forms x 2 buffers x 2 ways of reaching the mode (x 10 phonetic layouts in thorough)
    if thorough { 16 * 10 } else { 16 }
}

pub struct Script {
    queue: VecDeque<Op>,
    started: bool,
    i: u32,
    eng: bool,
    full: bool,
    nonempty: bool,
    via_keys: bool,
    layout: u8,
    base_len: usize,
    guard: u32,
}

pub fn base_opts() -> EditorOptions {
    EditorOptions {
        easy_symbol_input: false,
        esc_clear_all_buffer: false,
        space_is_select_key: false,
        auto_shift_cursor: false,
        phrase_choice_rearward: false,
        disable_auto_learn_phrase: false,
        auto_commit_threshold: 39,
        candidates_per_page: 10,
        language_mode: LanguageMode::Chinese,
        character_form: CharacterForm::Halfwidth,
        user_phrase_add_dir: UserPhraseAddDirection::Forward,
        lookup_strategy: LookupStrategy::Standard,
        conversion_engine: ConversionEngineKind::ChewingEngine,
        enable_fullwidth_toggle_key: true,
    }
}

impl Script {
    pub fn new(sid: u64, thorough: bool) -> Script {
        let k = sid % 16;
        Script {
            queue: VecDeque::new(),
            started: false,
            i: 0,
            eng: k & 1 == 1,
            full: k & 2 == 2,
            nonempty: k & 4 == 4,
            via_keys: k & 8 == 8,
            layout: if thorough { (sid / 16) as u8 } else { ((sid * 7) % 10) as u8 },
            base_len: 0,
            guard: 0,
        }
    }

    /// the next operation, given the editor's current snapshot; `None` = session finished
    pub fn next(&mut self, snap: &str) -> Option<Op> {
        if let Some(op) = self.queue.pop_front() {
            return Some(op);
        }
        let caps = Op::Key(KeyCode::Unknown, Modifiers::capslock());
        let shsp = Op::Key(KeyCode::Space, Modifiers::shift());
        if !self.started {
            self.started = true;
            self.queue.push_back(Op::SetEngine(1));
            self.queue.push_back(Op::SetLayout(self.layout));
            self.queue.push_back(Op::SetOpts(base_opts()));
            if self.nonempty {
                // Shift+',' in Chinese mode inserts the special symbol '，' on every phonetic layout
                for _ in 0..3 {
                    self.queue.push_back(Op::Key(KeyCode::Comma, Modifiers::shift()));
                }
                self.base_len = 3;
            }
            if self.via_keys {
                if self.eng {
                    self.queue.push_back(caps.clone());
                }
                if self.full {
                    self.queue.push_back(shsp.clone());
                }
            } else {
                let mut o = base_opts();
                if self.eng {
                    o.language_mode = LanguageMode::English;
                }
                if self.full {
                    o.character_form = CharacterForm::Fullwidth;
                }
                self.queue.push_back(Op::SetOpts(o));
            }
            return self.queue.pop_front();
        }
        // restore the base situation: state Entering, buffer of base_len symbols
        self.guard += 1;
        if self.guard > 2000 {
            return None;
        }
        let state = snap.as_bytes()[0];
        if state != b'E' {
            return Some(Op::Key(KeyCode::Esc, Modifiers::default()));
        }
        if symbols(snap).len() > self.base_len {
            return Some(Op::Key(KeyCode::Backspace, Modifiers::default()));
        }
        const KEYPAD: &[u8] = b"1234567890+-*/.";
        if self.i as usize == 95 + KEYPAD.len() {
            return None;
        }
        let c = if self.i < 95 { 32 + self.i as u8 } else { KEYPAD[self.i as usize - 95] };
        let keypad = self.i >= 95;
        self.i += 1;
        if self.nonempty {
            match self.i % 3 {
                0 => self.queue.push_back(Op::Key(KeyCode::Home, Modifiers::default())),
                1 => self.queue.push_back(Op::Key(KeyCode::End, Modifiers::default())),
                _ => {
                    self.queue.push_back(Op::Key(KeyCode::Home, Modifiers::default()));
                    self.queue.push_back(Op::Key(KeyCode::Right, Modifiers::default()));
                }
            }
        }
        if self.via_keys && self.i % 8 == 0 {
            // toggles in mid-composition, there and back
            self.queue.push_back(caps.clone());
            self.queue.push_back(caps);
            self.queue.push_back(shsp.clone());
            self.queue.push_back(shsp);
        }
        let ev = if keypad { Qwerty.map_ascii_numlock(c) } else { Qwerty.map_ascii(c) };
        self.queue.push_back(Op::Key(ev.code, ev.modifiers));
        self.queue.pop_front()
    }
}
