//! What the oracles see of one successfully executed operation.
use chewing::conversion::Interval;
use chewing::editor::keyboard::KeyEvent;

pub struct Step<'a> {
    /// the operation in transcript syntax (`key …`, `select n`, `setopts …`, …)
    pub op: &'a str,
    /// the key event if the operation is a key
    pub key: Option<KeyEvent>,
    /// complete snapshots (hook H1) before / after, see `sections`
    pub pre: &'a str,
    pub post: &'a str,
    /// return token: I/C/B/A for keys, ok/err for API calls
    pub ret: &'a str,
    /// dictionary contents before / after (system layers + user B-tree + tombstones)
    pub dict_pre: &'a str,
    pub dict_post: &'a str,
    /// all operations of the session so far, this one included
    pub history: &'a [String],
    pub seed: u64,
    pub sid: u64,
    /// the candidate list as the getters report it before / after (None = no list open), see `CandView`
    pub cand_pre: Option<&'a CandView>,
    pub cand_post: Option<&'a CandView>,
    /// C01: how the operation ended: "ok" | "panic" | "hang" (for "panic"/"hang" `post`/`dict_post` repeat the pre-state and `ret` is "panic")
    pub outcome: &'a str,
    /// C01: `Some(description)` iff in the PRE-state some buffered syllable has no one-syllable word under a
    /// lookup strategy in force (the option's, the engine's own, an open phrase selector's)
    pub no_word_pre: Option<&'a str>,
    /// C01: the same predicate on the POST-state (only computed after a successful operation)
    pub no_word_post: Option<&'a str>,
    /// C01: the first read-only accessor that panicked / hung on the post-state: (name, "panic" | "hang")
    pub getter_fail: Option<(&'a str, &'a str)>,
    /// `display()` immediately before / after the operation (`None` = the getter panicked)
    pub display_pre: Option<&'a str>,
    pub display_post: Option<&'a str>,
    /// `len()` (symbols in the pre-edit) before / after
    pub len_pre: usize,
    pub len_post: usize,
    /// `display_commit()` after the operation
    pub commit_post: &'a str,
    /// every conversion call made DURING the operation: (engine kind, composition asked about, all alternatives)
    pub conv: &'a [(u8, String, Vec<Vec<Interval>>)],
    /// C18: what every alternative the engine offered for `display_pre` reads (index 0 = the default one; the one
    /// shown is `nth % len`); empty if the getter panicked
    pub alts_pre: &'a [String],
}

impl Step<'_> {
    /// the replayable history text put into oracle reports
    pub fn hist(&self) -> String {
        format!("seed {} session {} ops [{}]", self.seed, self.sid, self.history.join(" ; "))
    }
}

/// sections of a snapshot: [state, com, syl, engine+symsel, options, misc]
pub fn sections(snap: &str) -> Vec<&str> {
    snap.split(" ; ").collect()
}

/// (last, dirty, nth, commit, notice, time)
pub fn misc(snap: &str) -> Vec<&str> {
    sections(snap)[5].split(' ').collect()
}

/// tokens of the composition-editor section: cursor, n, stack…, then the composition
pub fn com_tokens(snap: &str) -> Vec<&str> {
    sections(snap)[1].split(' ').collect()
}

pub fn cursor(snap: &str) -> usize {
    com_tokens(snap)[0].parse().unwrap()
}

/// the symbols of the pre-edit buffer as tokens (`s<code>` / `c<code point>`)
pub fn symbols(snap: &str) -> Vec<&str> {
    let t = com_tokens(snap);
    let nstack: usize = t[1].parse().unwrap();
    let n: usize = t[2 + nstack].parse().unwrap();
    t[3 + nstack..3 + nstack + n].to_vec()
}

pub fn com_is_empty(snap: &str) -> bool {
    symbols(snap).is_empty()
}

pub fn syl_is_empty(snap: &str) -> bool {
    sections(snap)[2].split(' ').nth(1) == Some("1")
}

/// option `i` (struct field order of EditorOptions)
pub fn option(snap: &str, i: usize) -> usize {
    sections(snap)[4].split(' ').nth(i).unwrap().parse().unwrap()
}

// ------------------------------------------------------------------ candidate lists (C07)

/// What the public getters answer while a candidate list is open (queried after the operation,
/// under `catch_unwind`), plus an answer computed independently of the editor for phrase lists.
#[derive(Clone, Debug, Default)]
pub struct CandView {
    /// a getter panicked (nothing else is meaningful then)
    pub panicked: bool,
    /// `all_candidates()`
    pub all: Vec<String>,
    /// `paginated_candidates()`
    pub paginated: Vec<String>,
    /// `total_page()`
    pub total_page: usize,
    /// `current_page_no()`
    pub page_no: usize,
    /// `editor_options().candidates_per_page`
    pub per: usize,
    /// phrase lists only: the dictionaries asked directly about the highlighted symbols
    pub expect: Option<Expect>,
}

#[derive(Clone, Debug, Default)]
pub struct Expect {
    /// every symbol of `begin..end` is a syllable (otherwise `own`/`alt` are for the leading syllables only)
    pub all_syllables: bool,
    /// number of symbols in the highlighted range
    pub range_len: usize,
    /// the leading syllables of the range (= the whole range when `all_syllables`)
    pub key: Vec<chewing::zhuyin::Syllable>,
    /// every phrase a system layer or the user layer holds for these syllables under the selector's lookup
    /// strategy (exactly these syllables, or — FuzzyPartialPrefix — a key they are a per-syllable prefix of)
    pub own: Vec<String>,
    /// one-syllable ranges: the phrases held for the layout's alternative syllables
    pub alt: Vec<String>,
    /// a strictly longer range on the same side of the cursor, inside the break points `init` respects,
    /// for which a layer holds a phrase (legitimate after Down/Space cycling, not right after opening)
    pub longer: Option<(usize, usize)>,
}

/// the state section of a snapshot, decoded for an open list
#[derive(Clone, Debug, PartialEq)]
pub struct SelInfo {
    pub page: usize,
    /// `I` insert / `R` replace
    pub action: char,
    /// `P` phrase / `M` symbol table / `X` special symbols
    pub kind: char,
    pub begin: usize,
    pub end: usize,
    pub forward: bool,
    pub orig: usize,
    /// `M`: the sub-menu cursor; `X`: the symbol token
    pub detail: String,
}

pub fn sel_info(snap: &str) -> Option<SelInfo> {
    let t: Vec<&str> = sections(snap)[0].split(' ').collect();
    if t[0] != "S" {
        return None;
    }
    let mut s = SelInfo {
        page: t[1].parse().unwrap(),
        action: t[2].chars().next().unwrap(),
        kind: t[3].chars().next().unwrap(),
        begin: 0,
        end: 0,
        forward: false,
        orig: 0,
        detail: String::new(),
    };
    match s.kind {
        'P' => {
            s.begin = t[4].parse().unwrap();
            s.end = t[5].parse().unwrap();
            s.forward = t[6] == "1";
            s.orig = t[7].parse().unwrap();
        }
        _ => s.detail = t[4].to_string(),
    }
    Some(s)
}

/// what identifies *which* list is open (a change of it must reset the page)
pub fn sel_target(s: &SelInfo) -> (char, usize, usize, String) {
    (s.kind, s.begin, s.end, s.detail.clone())
}

/// selections of the pre-edit buffer: (start, end, is_phrase, text as hex token), sorted
pub fn selections(snap: &str) -> Vec<(usize, usize, bool, String)> {
    let t = com_tokens(snap);
    let nstack: usize = t[1].parse().unwrap();
    let n: usize = t[2 + nstack].parse().unwrap();
    let mut i = 3 + nstack + n;
    let ngap: usize = t[i].parse().unwrap();
    i += 1 + ngap;
    let nsel: usize = t[i].parse().unwrap();
    i += 1;
    let mut out = vec![];
    for k in 0..nsel {
        let b = i + 4 * k;
        out.push((t[b].parse().unwrap(), t[b + 1].parse().unwrap(), t[b + 2] == "1", t[b + 3].to_string()));
    }
    out.sort();
    out
}

/// gap kinds of the pre-edit buffer (`B` begin, `K` break, `G` glue, `N` normal), one per symbol
pub fn gaps(snap: &str) -> Vec<char> {
    let t = com_tokens(snap);
    let nstack: usize = t[1].parse().unwrap();
    let n: usize = t[2 + nstack].parse().unwrap();
    let i = 3 + nstack + n;
    let ngap: usize = t[i].parse().unwrap();
    t[i + 1..i + 1 + ngap].iter().map(|g| g.chars().next().unwrap()).collect()
}

pub fn stack_len(snap: &str) -> usize {
    com_tokens(snap)[1].parse().unwrap()
}

/// the getters' answers as one transcript token: `tp=<pages>,pn=<page>,all=<hex>/<hex>…,pag=<hex>/…`
pub fn cand_token(c: &CandView) -> String {
    if c.panicked {
        return "panic".into();
    }
    let join = |v: &Vec<String>| v.iter().map(|s| vharness::hx(s)).collect::<Vec<_>>().join("/");
    format!("tp={},pn={},all={},pag={}", c.total_page, c.page_no, join(&c.all), join(&c.paginated))
}
