//! What the oracles see of one successfully executed operation.
use chewing::conversion::Interval;
use chewing::editor::keyboard::KeyEvent;

pub struct Step<'a> {
    /// the operation in transcript syntax (`key …`, `select n`, `setopts …`, …)
    pub op: &'a str,
    /// the key event if the operation is a key
    pub key: Option<KeyEvent>,
    /// complete snapshots (hook H1) before / after, see `sections`
    pub pre: &'a str,
    pub post: &'a str,
    /// return token: I/C/B/A for keys, ok/err for API calls
    pub ret: &'a str,
    /// dictionary contents before / after (system layers + user B-tree + tombstones)
    pub dict_pre: &'a str,
    pub dict_post: &'a str,
    /// all operations of the session so far, this one included
    pub history: &'a [String],
    pub seed: u64,
    pub sid: u64,
    /// `display()` immediately before / after the operation (`None` = the getter panicked)
    pub display_pre: Option<&'a str>,
    pub display_post: Option<&'a str>,
    /// `len()` (symbols in the pre-edit) before / after
    pub len_pre: usize,
    pub len_post: usize,
    /// `display_commit()` after the operation
    pub commit_post: &'a str,
    /// every conversion call made DURING the operation: (engine kind, composition asked about, all alternatives)
    pub conv: &'a [(u8, String, Vec<Vec<Interval>>)],
}

impl Step<'_> {
    /// the replayable history text put into oracle reports
    pub fn hist(&self) -> String {
        format!("seed {} session {} ops [{}]", self.seed, self.sid, self.history.join(" ; "))
    }
}

/// sections of a snapshot: [state, com, syl, engine+symsel, options, misc]
pub fn sections(snap: &str) -> Vec<&str> {
    snap.split(" ; ").collect()
}

/// (last, dirty, nth, commit, notice, time)
pub fn misc(snap: &str) -> Vec<&str> {
    sections(snap)[5].split(' ').collect()
}

/// tokens of the composition-editor section: cursor, n, stack…, then the composition
pub fn com_tokens(snap: &str) -> Vec<&str> {
    sections(snap)[1].split(' ').collect()
}

pub fn cursor(snap: &str) -> usize {
    com_tokens(snap)[0].parse().unwrap()
}

/// the symbols of the pre-edit buffer as tokens (`s<code>` / `c<code point>`)
pub fn symbols(snap: &str) -> Vec<&str> {
    let t = com_tokens(snap);
    let nstack: usize = t[1].parse().unwrap();
    let n: usize = t[2 + nstack].parse().unwrap();
    t[3 + nstack..3 + nstack + n].to_vec()
}

pub fn com_is_empty(snap: &str) -> bool {
    symbols(snap).is_empty()
}

pub fn syl_is_empty(snap: &str) -> bool {
    sections(snap)[2].split(' ').nth(1) == Some("1")
}

/// option `i` (struct field order of EditorOptions)
pub fn option(snap: &str, i: usize) -> usize {
    sections(snap)[4].split(' ').nth(i).unwrap().parse().unwrap()
}
