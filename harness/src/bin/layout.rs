//! C14 correspondence + oracle: keyboards, the seven single-syllable phonetic layouts (exhaustive BFS
//! over their reachable states through the public API) and the three Pinyin variants.
//!
//! Records (recomputed by lean/Chewing/Driver/Layout.lean):
//!   kb map <kb> <code> <mods> => <index> <code> <unicode>          mods = shift|ctrl<<1|caps<<2|numlock<<3
//!   kb ascii <kb> <byte> => <index> <code> <unicode> <mods>
//!   kb asciinl <kb> <byte> => <index> <code> <unicode> <mods>      (map_ascii_numlock)
//!   lay key <L> <pre> <index> <code> <unicode> => <beh> <post> <fuzzy beh> <fuzzy post>
//!   lay pop|clear <L> <pre> => <post>
//!   lay info <L> <pre> => <is_empty> <read> <key_seq|->
//!   lay alt <L> <syl> => <alt syllables joined by ,|->
//!   pin key <V> <keyseq> <syl> <alt> <index> <code> <unicode> => <beh> <keyseq'> <syl'> <alt'>
//!   pin pop|clear <V> <keyseq> <syl> <alt> => <keyseq'> <syl'> <alt'>
//!   pin info <V> <keyseq> <syl> <alt> => <is_empty> <read> <key_seq>
use chewing::conversion::{ChewingEngine, Symbol};
use chewing::dictionary::{DictionaryMut, Layered, LookupStrategy, TrieBuf};
use chewing::editor::keyboard::{
    AnyKeyboardLayout, KeyCode, KeyEvent, KeyboardLayout, Modifiers, Qwerty,
};
use chewing::editor::zhuyin_layout::{
    DaiChien26, Et, Et26, GinYieh, Hsu, Ibm, KeyBehavior, Pinyin, Standard, SyllableEditor,
};
use chewing::editor::{AbbrevTable, BasicEditor, Editor, LaxUserFreqEstimate, SymbolSelector};
use chewing::zhuyin::Syllable;
use std::collections::{BTreeMap, BTreeSet, HashMap, VecDeque};
use std::panic::{catch_unwind, AssertUnwindSafe};
use std::str::FromStr;
use vharness::*;

const CODES: [KeyCode; 63] = {
    use KeyCode::*;
    [
        Unknown, N1, N2, N3, N4, N5, N6, N7, N8, N9, N0, Minus, Equal, BSlash, Grave, Q, W, E, R, T,
        Y, U, I, O, P, LBracket, RBracket, A, S, D, F, G, H, J, K, L, SColon, Quote, Z, X, C, V, B,
        N, M, Comma, Dot, Slash, Space, Esc, Enter, Del, Backspace, Tab, Left, Right, Up, Down,
        Home, End, PageUp, PageDown, NumLock,
    ]
};

fn mods(bits: u8) -> Modifiers {
    Modifiers { shift: bits & 1 != 0, ctrl: bits & 2 != 0, capslock: bits & 4 != 0, numlock: bits & 8 != 0 }
}
fn mod_bits(m: Modifiers) -> u8 {
    (m.shift as u8) | (m.ctrl as u8) << 1 | (m.capslock as u8) << 2 | (m.numlock as u8) << 3
}
fn ev_str(e: &KeyEvent) -> String {
    format!("{} {} {}", e.index as u8, e.code as u8, e.unicode as u32)
}
fn beh_str(b: &KeyBehavior) -> String {
    match b {
        KeyBehavior::Ignore => "ignore".into(),
        KeyBehavior::Absorb => "absorb".into(),
        KeyBehavior::Commit => "commit".into(),
        KeyBehavior::KeyError => "keyerror".into(),
        KeyBehavior::Error => "error".into(),
        KeyBehavior::NoWord => "noword".into(),
        KeyBehavior::OpenSymbolTable => "opensym".into(),
        KeyBehavior::Fuzzy(s) => format!("fuzzy:{}", s.to_u16()),
    }
}

/// the property's notion of a well-formed syllable, evaluated on the implementation:
/// components decodable and in range, re-spellable (spelling parses back to the same syllable)
fn well_formed(s: Syllable) -> bool {
    let code = s.to_u16();
    let mut b = Syllable::builder();
    for c in [s.initial(), s.medial(), s.rime(), s.tone()].into_iter().flatten() {
        b = match b.insert(c) {
            Ok(b) => b,
            Err(_) => return false,
        };
    }
    b.build().to_u16() == code && Syllable::from_str(&s.to_string()).ok() == Some(s)
}

fn keyboards() -> Vec<(&'static str, AnyKeyboardLayout)> {
    vec![
        ("qwerty", AnyKeyboardLayout::qwerty()),
        ("dvorak", AnyKeyboardLayout::dvorak()),
        ("dvorak_on_qwerty", AnyKeyboardLayout::dvorak_on_qwerty()),
        ("qgmlwy", AnyKeyboardLayout::qgmlwy()),
        ("colemak", AnyKeyboardLayout::colemak()),
        ("colemak_dh_ansi", AnyKeyboardLayout::colemak_dh_ansi()),
        ("colemak_dh_orth", AnyKeyboardLayout::colemak_dh_orth()),
        ("workman", AnyKeyboardLayout::workman()),
    ]
}

type Mk = fn() -> Box<dyn SyllableEditor>;
fn finite_layouts() -> Vec<(&'static str, Mk)> {
    vec![
        ("standard", || Box::new(Standard::new())),
        ("hsu", || Box::new(Hsu::new())),
        ("ibm", || Box::new(Ibm::new())),
        ("ginyieh", || Box::new(GinYieh::new())),
        ("et", || Box::new(Et::new())),
        ("et26", || Box::new(Et26::new())),
        ("dc26", || Box::new(DaiChien26::new())),
    ]
}

struct Readings {
    /// distinct readings of data/word.src: code -> (spelling, one character with that reading)
    by_code: BTreeMap<u16, (String, String)>,
}

fn load_readings() -> Readings {
    let repo = std::env::var("VERIF_REPO").unwrap_or_else(|_| "/repo".into());
    let text = std::fs::read_to_string(format!("{}/data/word.src", repo)).expect("data/word.src");
    let mut by_code = BTreeMap::new();
    for line in text.lines() {
        let f: Vec<&str> = line.split_whitespace().collect();
        if f.len() < 3 || f[2].starts_with('#') {
            continue;
        }
        let s = Syllable::from_str(f[2]).expect("reading in word.src parses");
        by_code.entry(s.to_u16()).or_insert((f[2].to_string(), f[0].to_string()));
    }
    Readings { by_code }
}

/// expected completeness failures on the unchanged tree (KNOWN_FINDINGS.txt F21): exact (layout, reading) sets
fn known_gap(layout: &str, spelling: &str) -> Option<&'static str> {
    let set: &[&str] = match layout {
        "hsu" => &["ㄝˋ", "ㄟˋ", "ㄑ˙"],
        "et26" => &["ㄝˋ", "ㄟˋ"],
        "dc26" => &["ㄝ", "ㄝˋ", "ㄥ", "˙", "ˊ", "ˇ", "ˋ"],
        "hanyu" => &["ㄧㄞˊ"],
        "thl" | "mps2" => &["ㄧㄞˊ", "ㄈㄨㄥˋ", "ㄐ"],
        _ => &[],
    };
    if set.contains(&spelling) {
        Some(match layout {
            "hsu" | "et26" | "dc26" => "F21-26key-gap",
            _ => "F21-pinyin-gap",
        })
    } else {
        None
    }
}

struct Trans {
    beh: String,
    post: u16,
}

/// what a layout can hand over from a fresh state the way the editor drives it (unmodified keys,
/// Backspace = remove_last, state cleared after Commit): committed code -> witness key list (key codes)
struct Reach {
    committed: BTreeMap<u16, Vec<u8>>,
    /// key lists (from the fresh state) after which the layout itself commits the empty syllable
    empty_commit: Vec<Vec<u8>>,
}

/// returns true if the (well-formed) syllable handed over is the empty one: sound at the buffer because the
/// editor inserts only syllables the dictionary has a word for (checked through a real Editor below)
fn check_handover(out: &mut Out, layout: &str, what: &str, s: Syllable, pre: &str, ev: &KeyEvent) -> bool {
    if !well_formed(s) {
        out.oracle_fail("C14", "new", &format!(
            "layout {} state {} key {}: {} hands over the malformed syllable code {}",
            layout, pre, ev_str(ev), what, s.to_u16()));
    }
    s.is_empty()
}

/// `full`: follow every transition (the state a layout is left in after Commit included); otherwise explore
/// the way the editor drives a layout (it clears the layout after Commit)
fn explore_finite(out: &mut Out, name: &'static str, mk: Mk, full: bool) -> Reach {
    let kb = Qwerty;
    let events: Vec<KeyEvent> = CODES
        .iter()
        .flat_map(|c| [kb.map_with_mod(*c, mods(0)), kb.map_with_mod(*c, mods(1))])
        .collect();
    let mut states: HashMap<u16, Box<dyn SyllableEditor>> = HashMap::new();
    let mut order: Vec<u16> = vec![];
    let mut queue: VecDeque<u16> = VecDeque::new();
    let init = mk();
    let c0 = init.read().to_u16();
    states.insert(c0, init);
    order.push(c0);
    queue.push_back(c0);
    // plain key_press transitions, for the reachability analysis below
    let mut plain: HashMap<(u16, u8), Trans> = HashMap::new();
    let mut pops: HashMap<u16, u16> = HashMap::new();
    let (mut n_tr, mut n_commit, mut n_fuzzy, mut n_panic, mut n_empty) = (0u64, 0u64, 0u64, 0u64, 0u64);
    while let Some(pre) = queue.pop_front() {
        let mut found: Vec<Box<dyn SyllableEditor>> = vec![];
        {
            let ex = &states[&pre];
            for ev in &events {
                let mut e = SyllableEditor::clone(&**ex);
                let r = catch_unwind(AssertUnwindSafe(|| e.key_press(*ev)));
                let (beh, post) = match &r {
                    Ok(b) => (beh_str(b), e.read().to_u16()),
                    Err(_) => ("panic".to_string(), 0),
                };
                let mut f = SyllableEditor::clone(&**ex);
                let rf = catch_unwind(AssertUnwindSafe(|| f.fuzzy_key_press(*ev)));
                let (fbeh, fpost) = match &rf {
                    Ok(b) => (beh_str(b), f.read().to_u16()),
                    Err(_) => ("panic".to_string(), 0),
                };
                out.rec(&format!("lay key {} {} {} => {} {} {} {}", name, pre, ev_str(ev), beh, post, fbeh, fpost));
                n_tr += 1;
                // ---- oracle S (soundness at the layout): whatever is handed over is well-formed
                match &r {
                    Ok(KeyBehavior::Commit) => {
                        n_commit += 1;
                        n_empty += check_handover(out, name, "Commit", e.read(), &pre.to_string(), ev) as u64;
                    }
                    Ok(KeyBehavior::Fuzzy(s)) => n_empty += check_handover(out, name, "Fuzzy", *s, &pre.to_string(), ev) as u64,
                    Err(_) => {
                        n_panic += 1;
                        out.oracle_fail("C14", "new", &format!("layout {} state {} key {}: key_press panics", name, pre, ev_str(ev)));
                    }
                    _ => {}
                }
                match &rf {
                    Ok(KeyBehavior::Commit) => n_empty += check_handover(out, name, "fuzzy Commit", f.read(), &pre.to_string(), ev) as u64,
                    Ok(KeyBehavior::Fuzzy(s)) => {
                        n_fuzzy += 1;
                        n_empty += check_handover(out, name, "Fuzzy", *s, &pre.to_string(), ev) as u64;
                    }
                    Err(_) => {
                        n_panic += 1;
                        out.oracle_fail("C14", "new", &format!("layout {} state {} key {}: fuzzy_key_press panics", name, pre, ev_str(ev)));
                    }
                    _ => {}
                }
                if !ev.modifiers.shift {
                    plain.insert((pre, ev.code as u8), Trans { beh: beh.clone(), post });
                }
                if r.is_ok() && (full || !matches!(r, Ok(KeyBehavior::Commit))) {
                    found.push(e);
                }
                if rf.is_ok() && (full || !matches!(rf, Ok(KeyBehavior::Commit))) {
                    found.push(f);
                }
            }
            let mut e = SyllableEditor::clone(&**ex);
            e.remove_last();
            out.rec(&format!("lay pop {} {} => {}", name, pre, e.read().to_u16()));
            pops.insert(pre, e.read().to_u16());
            found.push(e);
            let mut e = SyllableEditor::clone(&**ex);
            e.clear();
            out.rec(&format!("lay clear {} {} => {}", name, pre, e.read().to_u16()));
            found.push(e);
            let ks = ex.key_seq();
            out.rec(&format!("lay info {} {} => {} {} {}", name, pre, ex.is_empty() as u8, ex.read().to_u16(),
                match ks { Some(s) => hx(&s), None => "-".into() }));
            // every state of a layout is a well-formed (possibly empty) syllable
            if !well_formed(ex.read()) {
                out.oracle_fail("C14", "new", &format!("layout {} reaches the malformed state {}", name, pre));
            }
        }
        for e in found {
            let c = e.read().to_u16();
            if !states.contains_key(&c) {
                states.insert(c, e);
                order.push(c);
                queue.push_back(c);
            }
        }
    }
    out.stat(&format!("{}.states", name), order.len());
    out.stat(&format!("{}.transitions", name), n_tr);
    out.stat(&format!("{}.commits", name), n_commit);
    out.stat(&format!("{}.fuzzy", name), n_fuzzy);
    out.stat(&format!("{}.panics", name), n_panic);
    out.stat(&format!("{}.empty_syllable_handed_over_at_layout_level", name), n_empty);

    // ---- editor-style reachability from the fresh state: plain keys, Backspace, stop at Commit
    let mut committed: BTreeMap<u16, Vec<u8>> = BTreeMap::new();
    let mut seen: HashMap<u16, Vec<u8>> = HashMap::new();
    let mut q: VecDeque<u16> = VecDeque::new();
    seen.insert(c0, vec![]);
    q.push_back(c0);
    while let Some(s) = q.pop_front() {
        let path = seen[&s].clone();
        for c in CODES.iter() {
            let t = &plain[&(s, *c as u8)];
            let mut p = path.clone();
            p.push(*c as u8);
            if t.beh == "commit" {
                committed.entry(t.post).or_insert(p);
            } else if t.beh != "panic" && !seen.contains_key(&t.post) {
                seen.insert(t.post, p);
                q.push_back(t.post);
            }
        }
        let t = pops[&s];
        if !seen.contains_key(&t) {
            let mut p = path.clone();
            p.push(KeyCode::Backspace as u8);
            seen.insert(t, p);
            q.push_back(t);
        }
    }
    out.stat(&format!("{}.editor_reachable_states", name), seen.len());
    out.stat(&format!("{}.committable_syllables", name), committed.len());
    let empty_commit = committed.iter().filter(|(c, _)| **c == 0x8000).map(|(_, p)| p.clone()).collect();
    Reach { committed, empty_commit }
}

fn alt_of(e: &dyn SyllableEditor, s: u16) -> Vec<u16> {
    e.alt_syllables(Syllable::try_from(s).unwrap()).iter().map(|s| s.to_u16()).collect()
}

/// completeness oracle: every reading of word.src is committable directly, or lies in the
/// alt_syllables of a committable syllable that itself has a word (so the editor inserts it)
fn completeness(out: &mut Out, name: &str, e: &dyn SyllableEditor, reach: &Reach, readings: &Readings) -> HashMap<u16, (u16, Vec<u8>)> {
    let mut via_alt: HashMap<u16, (u16, Vec<u8>)> = HashMap::new();
    let mut via_alt_noword: HashMap<u16, u16> = HashMap::new();
    for (c, path) in &reach.committed {
        for a in alt_of(e, *c) {
            if readings.by_code.contains_key(c) {
                via_alt.entry(a).or_insert((*c, path.clone()));
            } else {
                via_alt_noword.entry(a).or_insert(*c);
            }
        }
    }
    let (mut direct, mut alt, mut missing, mut known) = (0u64, 0u64, 0u64, 0u64);
    let mut witness: HashMap<u16, (u16, Vec<u8>)> = HashMap::new();
    for (r, (spelling, _)) in &readings.by_code {
        if let Some(p) = reach.committed.get(r) {
            direct += 1;
            witness.insert(*r, (*r, p.clone()));
        } else if let Some((c, p)) = via_alt.get(r) {
            alt += 1;
            witness.insert(*r, (*c, p.clone()));
        } else {
            missing += 1;
            let class = match known_gap(name, spelling) {
                Some(c) => {
                    known += 1;
                    c
                }
                None => "new",
            };
            let extra = match via_alt_noword.get(r) {
                Some(c) => format!(" (only as an alternative of {} which has no word of its own)", c),
                None => String::new(),
            };
            out.oracle_fail("C14", class, &format!(
                "layout {}: reading {} (code {}) of data/word.src cannot be entered by any key sequence{}",
                name, hx(spelling), r, extra));
        }
    }
    // a listed gap that is no longer a gap must not stay listed silently
    for (r, (spelling, _)) in &readings.by_code {
        if known_gap(name, spelling).is_some() && witness.contains_key(r) {
            out.stat(&format!("{}.listed_gap_now_reachable.{}", name, r), 1);
        }
    }
    out.stat(&format!("{}.readings_direct", name), direct);
    out.stat(&format!("{}.readings_via_alt", name), alt);
    out.stat(&format!("{}.readings_missing", name), missing);
    out.stat(&format!("{}.readings_missing_known", name), known);
    witness
}

// ------------------------------------------------------------------------------------- Pinyin

fn pin_state(p: &Pinyin) -> String {
    format!("{} {} {}", hx(p.key_seq()), p.read().to_u16(), p.alt().to_u16())
}

fn pin_mk(v: &str) -> Pinyin {
    match v {
        "hanyu" => Pinyin::hanyu(),
        "thl" => Pinyin::thl(),
        _ => Pinyin::mps2(),
    }
}

/// one recorded key press on a concrete Pinyin editor (also checks that the trait object, fuzzy_key_press
/// and clone agree with it)
fn pin_press(out: &mut Out, v: &str, p: &mut Pinyin, ev: KeyEvent, n_empty_commit: &mut u64) -> Option<KeyBehavior> {
    let pre = pin_state(p);
    let mut f: Box<dyn SyllableEditor> = SyllableEditor::clone(p);
    let r = catch_unwind(AssertUnwindSafe(|| p.key_press(ev)));
    let rf = catch_unwind(AssertUnwindSafe(|| f.fuzzy_key_press(ev)));
    match r {
        Ok(b) => {
            out.rec(&format!("pin key {} {} {} => {} {}", v, pre, ev_str(&ev), beh_str(&b), pin_state(p)));
            let same = matches!(&rf, Ok(fb) if *fb == b) && f.read() == p.read() && f.key_seq().as_deref() == Some(p.key_seq().as_str());
            if !same {
                out.oracle_fail("C14", "new", &format!("pinyin {} state {} key {}: fuzzy_key_press on a clone differs from key_press", v, pre, ev_str(&ev)));
            }
            match &b {
                KeyBehavior::Commit => {
                    if p.read().is_empty() {
                        *n_empty_commit += 1; // F38: dropped by the editor (checked below through a real Editor)
                    }
                    check_handover(out, v, "Commit", p.read(), &pre, &ev);
                    if !well_formed(p.alt()) {
                        out.oracle_fail("C14", "new", &format!("pinyin {} state {} key {}: malformed alt syllable {}", v, pre, ev_str(&ev), p.alt().to_u16()));
                    }
                }
                KeyBehavior::Fuzzy(s) => {
                    check_handover(out, v, "Fuzzy", *s, &pre, &ev);
                }
                _ => {}
            }
            Some(b)
        }
        Err(_) => {
            out.rec(&format!("pin key {} {} {} => panic", v, pre, ev_str(&ev)));
            out.oracle_fail("C14", "new", &format!("pinyin {} state {} key {}: key_press panics", v, pre, ev_str(&ev)));
            None
        }
    }
}

fn letter_event(ch: char) -> KeyEvent {
    Qwerty.map_ascii(ch as u8)
}

/// the pinyin strings of the layout's (private) tables, read from the source text of the tree under test:
/// they only steer the generator (which key lists are tried), never the expected results
fn pinyin_strings() -> (Vec<String>, Vec<String>, Vec<String>) {
    let repo = std::env::var("VERIF_REPO").unwrap_or_else(|_| "/repo".into());
    let text = std::fs::read_to_string(format!("{}/src/editor/zhuyin_layout/pinyin.rs", repo)).expect("pinyin.rs");
    let grab = |mac: &str| -> Vec<String> {
        let mut v = vec![];
        let pat = format!("{}!(\"", mac);
        let mut rest = text.as_str();
        while let Some(i) = rest.find(&pat) {
            rest = &rest[i + pat.len()..];
            if let Some(j) = rest.find('"') {
                v.push(rest[..j].to_string());
            }
        }
        v
    };
    (grab("ini"), grab("fin"), grab("amb"))
}

fn explore_pinyin(out: &mut Out, v: &'static str, rng: &mut Rng, thorough: bool) -> Reach {
    // ---- the strings that realise every (initial entry, final entry) combination the code can see
    //      (the initial is stripped repeatedly: p^k f for k = 0, 1, 2), every exact-match row, and junk
    let mut strings: BTreeSet<String> = BTreeSet::new();
    let (pin_initials, pin_finals, pin_exact) = pinyin_strings();
    let junk: Vec<String> = ["", "zz", "ii", "q", "w", "y", "ee", "EE", "Eh"].iter().map(|s| s.to_string()).collect();
    for f in pin_finals.iter().chain(pin_exact.iter()).chain(junk.iter()) {
        strings.insert(f.to_string());
        for p in &pin_initials {
            strings.insert(format!("{}{}", p, f));
            strings.insert(format!("{}{}{}", p, p, f));
        }
    }
    let strings: Vec<String> = strings.into_iter().filter(|s| !s.is_empty() && s.len() <= 10).collect();
    let ends = [KeyCode::Space, KeyCode::N1, KeyCode::N2, KeyCode::N3, KeyCode::N4, KeyCode::N5];
    let mut committed: BTreeMap<u16, Vec<u8>> = BTreeMap::new();
    let mut n_empty_commit = 0u64;
    let mut empty_commit: Vec<Vec<u8>> = vec![];
    let (mut n_keys, mut n_commit) = (0u64, 0u64);
    for s in &strings {
        let mut p = pin_mk(v);
        let mut path = vec![];
        for ch in s.chars() {
            let ev = letter_event(ch);
            path.push((ev.code as u8, ev.modifiers.shift));
            pin_press(out, v, &mut p, ev, &mut n_empty_commit);
            n_keys += 1;
        }
        if p.key_seq() != s {
            continue; // first key not a letter etc.
        }
        out.rec(&format!("pin info {} {} => {} {} {}", v, pin_state(&p), SyllableEditor::is_empty(&p) as u8, p.read().to_u16(), hx(p.key_seq())));
        for end in ends {
            let mut q = Clone::clone(&p);
            let b = pin_press(out, v, &mut q, Qwerty.map(end), &mut n_empty_commit);
            n_keys += 1;
            if b == Some(KeyBehavior::Commit) {
                n_commit += 1;
                // the editor's first key must be unmodified: witnesses use lower-case-only strings
                if !s.chars().next().unwrap().is_ascii_uppercase() {
                    let mut w: Vec<u8> = path.iter().map(|(c, sh)| *c | if *sh { 0x80 } else { 0 }).collect();
                    w.push(end as u8);
                    if q.read().is_empty() {
                        empty_commit.push(w.clone());
                    }
                    committed.entry(q.read().to_u16()).or_insert(w);
                }
            }
        }
        let mut q = Clone::clone(&p);
        let pre = pin_state(&q);
        q.remove_last();
        out.rec(&format!("pin pop {} {} => {}", v, pre, pin_state(&q)));
        let mut q = Clone::clone(&p);
        q.clear();
        out.rec(&format!("pin clear {} {} => {}", v, pre, pin_state(&q)));
    }
    // ---- random key lists over all keys x {plain, shift} and over inconsistent (code, unicode) pairs,
    //      without clearing after Commit (the layout keeps its last syllable)
    let n_lists = if thorough { 100_000 } else { 4_000 };
    let letters: Vec<char> = "abcdefghijklmnopqrstuvwxyzEHNG".chars().collect();
    for _ in 0..n_lists {
        let mut p = pin_mk(v);
        let n = 1 + rng.below(14);
        for _ in 0..n {
            let ev = match rng.below(10) {
                0 => Qwerty.map_with_mod(*rng.pick(&CODES), mods(rng.below(16) as u8)),
                1 => Qwerty.map(*rng.pick(&ends)),
                2 => {
                    // an event no keyboard produces: code and unicode disagree
                    let mut e = Qwerty.map(*rng.pick(&CODES));
                    e.unicode = *rng.pick(&['a', 'Z', '1', ' ', 'é', '\u{FFFD}', 'ㄅ']);
                    e
                }
                3 => {
                    let pre = pin_state(&p);
                    if rng.chance(1, 2) {
                        p.remove_last();
                        out.rec(&format!("pin pop {} {} => {}", v, pre, pin_state(&p)));
                    } else {
                        p.clear();
                        out.rec(&format!("pin clear {} {} => {}", v, pre, pin_state(&p)));
                    }
                    continue;
                }
                _ => letter_event(*rng.pick(&letters)),
            };
            pin_press(out, v, &mut p, ev, &mut n_empty_commit);
            n_keys += 1;
        }
        out.rec(&format!("pin info {} {} => {} {} {}", v, pin_state(&p), SyllableEditor::is_empty(&p) as u8, p.read().to_u16(), hx(p.key_seq())));
    }
    out.stat(&format!("{}.table_strings", v), strings.len());
    out.stat(&format!("{}.key_presses", v), n_keys);
    out.stat(&format!("{}.commits", v), n_commit);
    out.stat(&format!("{}.empty_syllable_commits_F38", v), n_empty_commit);
    out.stat(&format!("{}.committable_syllables", v), committed.len());
    Reach { committed, empty_commit }
}

// ------------------------------------------------------------------------------ through the editor

fn make_editor(readings: &Readings, syl: Box<dyn SyllableEditor>, fuzzy: bool) -> Editor {
    let mut dict = TrieBuf::new_in_memory();
    for (c, (_, ch)) in &readings.by_code {
        <TrieBuf as DictionaryMut>::add_phrase(&mut dict, &[Syllable::try_from(*c).unwrap()], (ch.as_str(), 1u32).into()).unwrap();
    }
    let dict = Layered::new(vec![Box::new(dict)], Box::new(TrieBuf::new_in_memory()));
    let mut ed = Editor::new(Box::new(ChewingEngine::new()), dict, LaxUserFreqEstimate::new(0), AbbrevTable::new(), SymbolSelector::default());
    ed.set_syllable_editor(syl);
    if fuzzy {
        let mut o = ed.editor_options();
        o.lookup_strategy = LookupStrategy::FuzzyPartialPrefix;
        ed.set_editor_options(o);
    }
    ed
}

fn buffer_syllables(ed: &Editor) -> Vec<Option<Syllable>> {
    ed.symbols().iter().map(|s: &Symbol| if s.is_syllable() { s.to_syllable() } else { None }).collect()
}

/// soundness at the buffer: after every key, every syllable in the pre-edit buffer is well-formed, non-empty
fn check_buffer(out: &mut Out, name: &str, ed: &Editor, keys: &str) -> bool {
    for s in ed.symbols() {
        if s.is_syllable() {
            let syl = s.to_syllable().unwrap();
            if syl.is_empty() || !well_formed(syl) {
                out.oracle_fail("C14", "new", &format!(
                    "layout {} keys [{}]: the pre-edit buffer holds the {} syllable code {}",
                    name, keys, if syl.is_empty() { "empty" } else { "malformed" }, syl.to_u16()));
                return false;
            }
        }
    }
    true
}

/// one key through the editor; a panic inside the editor is caught (the editor is then rebuilt by the caller)
fn ed_key(ed: &mut Editor, ev: KeyEvent) -> bool {
    catch_unwind(AssertUnwindSafe(|| {
        ed.process_keyevent(ev);
    }))
    .is_ok()
}

fn key_event_of(w: u8) -> KeyEvent {
    let code = CODES[(w & 0x7f) as usize];
    Qwerty.map_with_mod(code, mods((w >> 7) & 1))
}

fn through_editor(out: &mut Out, name: &str, mk: &dyn Fn() -> Box<dyn SyllableEditor>, readings: &Readings,
                  witness: &HashMap<u16, (u16, Vec<u8>)>, reach: &Reach, rng: &mut Rng, thorough: bool) {
    // (a) every witness key list really puts its syllable into the buffer, and the candidate list of that
    //     position contains a character with the wanted reading
    let mut n_ok = 0u64;
    let mut ed = make_editor(readings, mk(), false);
    let mut ed_fuzzy = make_editor(readings, mk(), true);
    let (opts, opts_fuzzy) = (ed.editor_options(), ed_fuzzy.editor_options());
    let mut n_panics = 0u64;
    // (0) key lists after which the layout itself hands over the empty syllable (F38 and the like): the editor
    //     must drop it, under both lookup strategies
    for keys in &reach.empty_commit {
        for fuzzy in [false, true] {
            let mut e = make_editor(readings, mk(), fuzzy);
            let mut shown = vec![];
            for k in keys {
                shown.push(k.to_string());
                if !ed_key(&mut e, key_event_of(*k)) {
                    n_panics += 1;
                    out.oracle_fail("C14", "new", &format!("layout {} keys [{}]: the editor panics after the layout committed the empty syllable", name, shown.join(",")));
                    break;
                }
                if !check_buffer(out, name, &e, &shown.join(",")) {
                    break;
                }
            }
        }
    }
    out.stat(&format!("{}.editor_empty_commit_witnesses", name), reach.empty_commit.len());
    for (r, (carrier, keys)) in witness {
        ed.clear();
        let mut ok = true;
        for k in keys {
            ok = ok && ed_key(&mut ed, key_event_of(*k));
        }
        if !ok {
            n_panics += 1;
            out.oracle_fail("C14", "new", &format!("layout {} keys {:?}: the editor panics while the reading {} is typed", name, keys, r));
            ed = make_editor(readings, mk(), false);
            continue;
        }
        let keys_s = keys.iter().map(|k| k.to_string()).collect::<Vec<_>>().join(",");
        let buf = buffer_syllables(&ed);
        let want = Syllable::try_from(*carrier).unwrap();
        if buf != vec![Some(want)] {
            out.oracle_fail("C14", "new", &format!(
                "layout {} keys [{}]: expected the buffer to hold syllable {} (for reading {}), it holds {:?}",
                name, keys_s, carrier, r, buf.iter().map(|s| s.map(|s| s.to_u16())).collect::<Vec<_>>()));
            continue;
        }
        let ch = &readings.by_code[r].1;
        let cands = catch_unwind(AssertUnwindSafe(|| {
            let _ = ed.start_selecting();
            ed.all_candidates().unwrap_or_default()
        }))
        .unwrap_or_default();
        if !cands.iter().any(|c| c == ch) {
            out.oracle_fail("C14", "new", &format!(
                "layout {} keys [{}]: candidate list of syllable {} lacks {} (reading {})", name, keys_s, carrier, hx(ch), r));
            continue;
        }
        n_ok += 1;
    }
    out.stat(&format!("{}.editor_witnesses_ok", name), n_ok);
    // (b) random key lists through the editor, both lookup strategies: the buffer stays sound
    let n_lists = if thorough { 20_000 } else { 1_500 };
    let mut n_syl = 0u64;
    for i in 0..n_lists {
        let ed = if i % 2 == 1 { &mut ed_fuzzy } else { &mut ed };
        if catch_unwind(AssertUnwindSafe(|| ed.clear())).is_err() {
            *ed = make_editor(readings, mk(), i % 2 == 1);
        }
        ed.set_editor_options(if i % 2 == 1 { opts_fuzzy } else { opts });
        let n = 4 + rng.below(20);
        let mut keys = vec![];
        for _ in 0..n {
            let code = match rng.below(20) {
                0 => KeyCode::Backspace,
                1 => KeyCode::Esc,
                2 => KeyCode::Space,
                3 => *rng.pick(&CODES[1..49]),
                _ => *rng.pick(&CODES[1..49]),
            };
            let m = if rng.chance(1, 12) { 1 } else { 0 };
            keys.push(format!("{}{}", code as u8, if m == 1 { "s" } else { "" }));
            let alive = ed_key(ed, Qwerty.map_with_mod(code, mods(m)));
            // the buffer is inspected even after a panic: an unsound syllable is what makes conversion panic
            let sound = catch_unwind(AssertUnwindSafe(|| check_buffer(out, name, ed, &keys.join(",")))).unwrap_or(false);
            if !alive {
                // a panic with a sound buffer is another property's business (C01); counted, editor rebuilt
                n_panics += 1;
                *ed = make_editor(readings, mk(), i % 2 == 1);
                break;
            }
            if !sound {
                break;
            }
        }
        n_syl += buffer_syllables(ed).iter().flatten().count() as u64;
    }
    out.stat(&format!("{}.editor_random_lists", name), n_lists);
    out.stat(&format!("{}.editor_panics", name), n_panics);
    out.stat(&format!("{}.editor_random_syllables_in_buffer", name), n_syl);
}

fn main() {
    let mut out = Out::new();
    let thorough = tier_is_thorough();
    let mut rng = Rng::new(seed_from_env());
    let readings = load_readings();
    out.stat("readings", readings.by_code.len());
    // silence the default panic message of caught panics (they are reported as records / oracle lines)
    std::panic::set_hook(Box::new(|_| {}));

    // ---------------------------------------------------------------- keyboards
    for (name, kb) in keyboards() {
        for c in CODES {
            for m in 0..16u8 {
                let r = catch_unwind(AssertUnwindSafe(|| kb.map_with_mod(c, mods(m))));
                out.rec(&format!("kb map {} {} {} => {}", name, c as u8, m, match r { Ok(e) => ev_str(&e), Err(_) => "panic".into() }));
            }
        }
        for a in 0..=255u8 {
            let e = kb.map_ascii(a);
            out.rec(&format!("kb ascii {} {} => {} {}", name, a, ev_str(&e), mod_bits(e.modifiers)));
            let n = kb.map_ascii_numlock(a);
            out.rec(&format!("kb asciinl {} {} => {} {}", name, a, ev_str(&n), mod_bits(n.modifiers)));
            // ---- oracle S (ASCII round trip): on keyboards that do not remap keys, a printable character
            //      maps to a key event whose character is the one typed
            if (0x20..0x7f).contains(&a) && name != "dvorak_on_qwerty" && e.unicode != a as char {
                out.oracle_fail("C14", "new", &format!("keyboard {}: map_ascii({}) yields the character {}", name, a, e.unicode as u32));
            }
            if (0x20..0x7f).contains(&a) && name == "qwerty" {
                // ... and on Qwerty the event is the physical key of that character
                let back = Qwerty.map_with_mod(e.code, e.modifiers);
                if back != e || e.code == KeyCode::Unknown {
                    out.oracle_fail("C14", "new", &format!("keyboard qwerty: map_ascii({}) is not a stable key event", a));
                }
            }
        }
    }
    out.stat("keyboards", keyboards().len());

    // ---------------------------------------------------------------- finite layouts
    for (name, mk) in finite_layouts() {
        let reach = explore_finite(&mut out, name, mk, thorough);
        let e = mk();
        // alt_syllables: every syllable value (since the repair of C13's F47 `Syllable::try_from` hands out nothing else)
        // for the layouts that have a table, every composable code otherwise
        for c in 1..=65535u16 {
            if Syllable::try_from(c).is_err() {
                continue;
            }
            let a = alt_of(&*e, c);
            if !(name == "hsu" || name == "et26") && a.is_empty() && !(c < 0x3000 || c == 0x8000) {
                continue;
            }
            out.rec(&format!("lay alt {} {} => {}", name, c,
                if a.is_empty() { "-".to_string() } else { a.iter().map(|x| x.to_string()).collect::<Vec<_>>().join(",") }));
            for x in &a {
                if !well_formed(Syllable::try_from(*x).unwrap()) {
                    out.oracle_fail("C14", "new", &format!("layout {}: alt_syllables({}) contains the malformed code {}", name, c, x));
                }
            }
        }
        let witness = completeness(&mut out, name, &*e, &reach, &readings);
        through_editor(&mut out, name, &|| mk(), &readings, &witness, &reach, &mut rng, thorough);
    }

    // ---------------------------------------------------------------- pinyin
    for v in ["hanyu", "thl", "mps2"] {
        let reach = explore_pinyin(&mut out, v, &mut rng, thorough);
        let e: Box<dyn SyllableEditor> = Box::new(pin_mk(v));
        for c in readings.by_code.keys() {
            let a = alt_of(&*e, *c);
            out.rec(&format!("lay alt {} {} => {}", v, c,
                if a.is_empty() { "-".to_string() } else { a.iter().map(|x| x.to_string()).collect::<Vec<_>>().join(",") }));
        }
        let witness = completeness(&mut out, v, &*e, &reach, &readings);
        through_editor(&mut out, v, &|| Box::new(pin_mk(v)), &readings, &witness, &reach, &mut rng, thorough);
    }
    out.sample("lay key hsu 32768 32 32 104 => absorb 5632 absorb 5632   (state, key event, key_press and fuzzy_key_press results)");
    out.flush();
}
