//! C08 correspondence + oracle: learning of committed choices.
//!
//! Records (recomputed by lean/Chewing/Driver/Learn.lean):
//!   learn est <lifetime> <freq> <last_used|-> <orig> <max>            => ok <v> | panic
//!   learn maxfrom <n> <time>*                                        => <lifetime>
//!   learn commit <disabled> <lifetime> <sys> <user> <symbols> <ivs>  => ok <user> | panic
//!   learn default <sys> <user> <key>                                 => <text> | -
//! with  <sys>  = <n> (<key> <text> <freq>)*          all system layers, layer order, lookup order
//!       <user> = <n> (<key> <text> <freq> <time>)*   the user dictionary as a map, key order
//!       <key>  = syllable codes joined by ',' ('-' = empty), <text> = x<hex utf-8>
//!       <symbols> = <n> (s<code> | c<code point>)*,  <ivs> = <n> (<start> <end> <0|1> <text>)*
//!
//! Oracle = the C08 statement evaluated on the real `Editor` (see `check_commit`, `becomes_default`).
use chewing::{
    conversion::{ChewingEngine, Interval, Symbol},
    dictionary::{Dictionary, DictionaryMut, Layered, Phrase, TrieBuf},
    editor::{
        keyboard::{KeyCode, KeyboardLayout, Modifiers, Qwerty},
        AbbrevTable, BasicEditor, Editor, LaxUserFreqEstimate, SymbolSelector, UserFreqEstimate,
    },
    zhuyin::{Bopomofo, Syllable},
};
use std::collections::{BTreeMap, BTreeSet};
use std::panic::{catch_unwind, AssertUnwindSafe};
use vharness::*;

const PROP: &str = "C08";
const REPEAT_BOUND: usize = 64;
const FREQ_BOUND: u32 = 1_000_000;

const BREAK_WORDS: &str = "是的了不也而你我他與它她其就和或們性員子上下中內外化者家兒年月日時分秒街路村在";
const PLAIN: &str = "測試冊策側市事式世好號國果過馬媽嗎麻新酷音輸入法詞庫字典學習頻率選擇預設候選提交甲乙丙丁戊己庚辛";
const SYLLABLES: [&str; 12] = [
    "ㄘㄜˋ", "ㄕˋ", "ㄉㄜ˙", "ㄨㄛˇ", "ㄋㄧˇ", "ㄏㄠˇ", "ㄇㄚ", "ㄓㄨㄥ", "ㄍㄨㄛˊ", "ㄅㄨˋ", "ㄒㄧㄣ", "ㄩˋ",
];

type Key = Vec<u16>;
type UserView = BTreeMap<(Key, String), (u32, u64)>;
type SysEntry = (Key, String, u32);

fn key_of(b: Bopomofo) -> KeyCode {
    use Bopomofo::*;
    use KeyCode as K;
    match b {
        B => K::N1, D => K::N2, TONE3 => K::N3, TONE4 => K::N4, ZH => K::N5, TONE2 => K::N6, TONE5 => K::N7,
        A => K::N8, AI => K::N9, AN => K::N0, ER => K::Minus, P => K::Q, T => K::W, G => K::E, J => K::R,
        CH => K::T, Z => K::Y, I => K::U, O => K::I, EI => K::O, EN => K::P, M => K::A, N => K::S, K => K::D,
        Q => K::F, SH => K::G, C => K::H, U => K::J, E => K::K, AU => K::L, ANG => K::SColon, F => K::Z,
        L => K::X, H => K::C, X => K::V, R => K::B, S => K::N, IU => K::M, EH => K::Comma, OU => K::Dot,
        ENG => K::Slash, TONE1 => K::Space,
    }
}

fn keys_of(s: Syllable) -> Vec<KeyCode> {
    let mut v = vec![];
    for b in [s.initial(), s.medial(), s.rime()].into_iter().flatten() {
        v.push(key_of(b));
    }
    v.push(key_of(s.tone().unwrap_or(Bopomofo::TONE1)));
    v
}

fn enc_key(k: &[u16]) -> String {
    if k.is_empty() {
        "-".into()
    } else {
        k.iter().map(|c| c.to_string()).collect::<Vec<_>>().join(",")
    }
}

fn enc_sys(sys: &[SysEntry]) -> String {
    let mut s = sys.len().to_string();
    for (k, t, f) in sys {
        s.push_str(&format!(" {} {} {}", enc_key(k), hx(t), f));
    }
    s
}

fn enc_user(u: &UserView) -> String {
    let mut s = u.len().to_string();
    for ((k, t), (f, tm)) in u {
        s.push_str(&format!(" {} {} {} {}", enc_key(k), hx(t), f, tm));
    }
    s
}

fn enc_syms(syms: &[Symbol]) -> String {
    let mut s = syms.len().to_string();
    for sym in syms {
        match sym {
            Symbol::Syllable(x) => s.push_str(&format!(" s{}", x.to_u16())),
            Symbol::Char(c) => s.push_str(&format!(" c{}", *c as u32)),
        }
    }
    s
}

fn enc_ivs(ivs: &[Interval]) -> String {
    let mut s = ivs.len().to_string();
    for iv in ivs {
        s.push_str(&format!(" {} {} {} {}", iv.start, iv.end, iv.is_phrase as u8, hx(&iv.str)));
    }
    s
}

fn dict_entries(d: &dyn Dictionary) -> Vec<(Key, String, u32, u64)> {
    d.entries()
        .map(|(k, p)| (k.iter().map(|s| s.to_u16()).collect(), p.as_str().to_string(), p.freq(), p.last_used().unwrap_or(0)))
        .collect()
}

/// the user dictionary as a map (duplicates of a file-backed dictionary merged by the larger frequency,
/// which is what its lookup reports)
fn user_view(ed: &mut Editor) -> UserView {
    let mut m = UserView::new();
    for (k, t, f, tm) in dict_entries(ed.user_dict()) {
        let e = m.entry((k, t)).or_insert((f, tm));
        if (f, tm) > *e {
            *e = (f, tm);
        }
    }
    m
}

struct Sess {
    ed: Editor,
    sys: Vec<SysEntry>,
    syls: Vec<Syllable>,
    clock: u64,
    file_backed: bool,
}

impl Sess {
    fn key(&mut self, code: KeyCode) {
        self.clock += 1;
        self.ed.process_keyevent(Qwerty.map(code));
    }
    fn key_mod(&mut self, code: KeyCode, m: Modifiers) {
        self.clock += 1;
        self.ed.process_keyevent(Qwerty.map_with_mod(code, m));
    }
    fn type_syl(&mut self, s: Syllable) {
        for k in keys_of(s) {
            self.key(k);
        }
    }
    fn sys_freq(&self, key: &[u16], text: &str) -> Option<u32> {
        self.sys.iter().filter(|e| e.0 == key && e.1 == text).map(|e| e.2).max()
    }
    /// merged (system + user, larger frequency) homophones of `key`
    fn merged(&mut self, key: &[u16]) -> BTreeMap<String, u32> {
        let mut m = BTreeMap::new();
        for (k, t, f) in &self.sys {
            if k == key {
                let e = m.entry(t.clone()).or_insert(*f);
                *e = (*e).max(*f);
            }
        }
        for ((k, t), (f, _)) in user_view(&mut self.ed) {
            if k == key {
                let e = m.entry(t).or_insert(f);
                *e = (*e).max(f);
            }
        }
        m
    }
}

struct Stats {
    relearn_after_unlearn: u64,
    commits: u64,
    commits_disabled: u64,
    commits_file: u64,
    units_multi: u64,
    units_run: u64,
    units_run_len2: u64,
    units_break: u64,
    singles_in_run: u64,
    non_phrase_ivs: u64,
    first_time: u64,
    updates: u64,
    default_loops: u64,
    default_reached: u64,
    max_reps: u64,
    rep_hist: BTreeMap<u64, u64>,
    cand_checks: u64,
    reopen_checks: u64,
    gap_small: u64,
    gap_mid: u64,
    gap_large: u64,
    ties: u64,
    est: u64,
    est_panics: u64,
    scen_panics: u64,
    outscored_but_default: u64,
    default_checks: u64,
}

/// the learn units the statement requires to be recorded (as the code groups them; see Props/C08 `learnUnits`)
fn expected_units(syms: &[Symbol], ivs: &[Interval], st: &mut Stats) -> Vec<(Key, String)> {
    let key = |iv: &Interval| -> Key {
        syms[iv.start..iv.end]
            .iter()
            .filter_map(|s| match s {
                Symbol::Syllable(x) => Some(x.to_u16()),
                _ => None,
            })
            .collect()
    };
    let mut units = vec![];
    let mut run: (Key, String, usize) = (vec![], String::new(), 0);
    let flush = |run: &mut (Key, String, usize), units: &mut Vec<(Key, String)>, st: &mut Stats| {
        if run.2 > 0 {
            units.push((run.0.clone(), run.1.clone()));
            st.units_run += 1;
            if run.2 >= 2 {
                st.units_run_len2 += 1;
                st.singles_in_run += run.2 as u64;
            }
        }
        *run = (vec![], String::new(), 0);
    };
    for iv in ivs {
        let single = iv.is_phrase && iv.end - iv.start == 1;
        if single && !BREAK_WORDS.contains(&*iv.str) {
            run.0.extend(key(iv));
            run.1.push_str(&iv.str);
            run.2 += 1;
        } else {
            flush(&mut run, &mut units, st);
            if iv.is_phrase {
                units.push((key(iv), iv.str.to_string()));
                if single {
                    st.units_break += 1;
                } else {
                    st.units_multi += 1;
                }
            } else {
                st.non_phrase_ivs += 1;
            }
        }
    }
    flush(&mut run, &mut units, st);
    units
}

/// The recording clause of the statement, evaluated without knowing the break-word list: every multi-character
/// phrase interval is in the user dictionary under exactly its syllables; every single-character phrase interval
/// is recorded either by itself or inside a recorded run of adjacent single-character intervals that contains it.
fn not_recorded(syms: &[Symbol], ivs: &[Interval], after: &UserView) -> Vec<String> {
    let key = |iv: &Interval| -> Key {
        syms[iv.start..iv.end]
            .iter()
            .filter_map(|s| match s {
                Symbol::Syllable(x) => Some(x.to_u16()),
                _ => None,
            })
            .collect()
    };
    let single = |iv: &Interval| iv.is_phrase && iv.end - iv.start == 1;
    let mut miss = vec![];
    for (i, iv) in ivs.iter().enumerate() {
        if !iv.is_phrase {
            continue;
        }
        if !single(iv) {
            if !after.contains_key(&(key(iv), iv.str.to_string())) {
                miss.push(format!("multi-char key={} phrase={}", enc_key(&key(iv)), hx(&iv.str)));
            }
            continue;
        }
        let mut lo = i;
        while lo > 0 && single(&ivs[lo - 1]) {
            lo -= 1;
        }
        let mut hi = i;
        while hi + 1 < ivs.len() && single(&ivs[hi + 1]) {
            hi += 1;
        }
        let mut found = false;
        'w: for a in lo..=i {
            for b in i..=hi {
                let k: Key = ivs[a..=b].iter().flat_map(|x| key(x)).collect();
                let t: String = ivs[a..=b].iter().map(|x| &*x.str).collect();
                if after.contains_key(&(k, t)) {
                    found = true;
                    break 'w;
                }
            }
        }
        if !found {
            miss.push(format!("single-char index={} key={} phrase={}", i, enc_key(&key(iv)), hx(&iv.str)));
        }
    }
    miss
}

/// commit the current buffer with Enter; emit the correspondence record; evaluate the per-commit oracles.
/// returns the learn units
fn commit(s: &mut Sess, out: &mut Out, st: &mut Stats, what: &str) -> Vec<(Key, String)> {
    let disabled = s.ed.editor_options().disable_auto_learn_phrase;
    let before = user_view(&mut s.ed);
    let syms: Vec<Symbol> = s.ed.symbols().to_vec();
    let ivs: Vec<Interval> = s.ed.intervals().collect();
    let shown = s.ed.display();
    s.key(KeyCode::Enter);
    let after = user_view(&mut s.ed);
    out.rec(&format!(
        "learn commit {} {} {} {} {} {} => ok {}",
        disabled as u8, s.clock, enc_sys(&s.sys), enc_user(&before), enc_syms(&syms), enc_ivs(&ivs), enc_user(&after)
    ));
    st.commits += 1;
    if s.file_backed {
        st.commits_file += 1;
    }
    let ctx = || format!("{} buffer={} ivs=[{}] disabled={}", what, hx(&shown), enc_ivs(&ivs), disabled);
    if s.ed.display_commit() != shown {
        out.oracle_fail(PROP, "new", &format!("commit-text-differs committed={} {}", hx(s.ed.display_commit()), ctx()));
    }
    if disabled {
        st.commits_disabled += 1;
        if before != after {
            out.oracle_fail(PROP, "new", &format!("learned-while-disabled before=[{}] after=[{}] {}", enc_user(&before), enc_user(&after), ctx()));
        }
        return vec![];
    }
    let units = expected_units(&syms, &ivs, st);
    for miss in not_recorded(&syms, &ivs, &after) {
        out.oracle_fail(PROP, "new", &format!("not-recorded {} {}", miss, ctx()));
    }
    for (k, t) in &units {
        if k.len() != t.chars().count() {
            continue; // not a dictionary phrase over syllables only (cannot be produced by the conversion)
        }
        let old_user = before.get(&(k.clone(), t.clone())).map(|e| e.0);
        let old_sys = s.sys_freq(k, t);
        if let Some((f, _)) = after.get(&(k.clone(), t.clone())) {
            let floor = old_user.unwrap_or(0).max(old_sys.unwrap_or(0));
            if *f < floor && floor <= 99_999_999 {
                out.oracle_fail(PROP, "new", &format!("frequency-lowered key={} phrase={} before={} after={} {}", enc_key(k), hx(t), floor, f, ctx()));
            }
            if old_user.is_none() {
                st.first_time += 1;
            } else {
                st.updates += 1;
            }
        }
    }
    // nothing that was in the user dictionary may get a lower frequency or disappear
    for (k, (f0, _)) in &before {
        match after.get(k) {
            Some((f1, _)) if f1 >= f0 || *f0 > 99_999_999 => {}
            other => out.oracle_fail(PROP, "new", &format!("entry-lowered-or-lost key={} phrase={} before={} after={:?} {}", enc_key(&k.0), hx(&k.1), f0, other.map(|e| e.0), ctx())),
        }
    }
    units
}

/// type `key` alone and open the candidate list at the front: the candidates of the longest range starting at 0
fn candidates_for(s: &mut Sess, key: &[u16]) -> Option<Vec<String>> {
    s.ed.clear();
    let syls: Vec<Syllable> = key.iter().map(|c| Syllable::try_from(*c).unwrap()).collect();
    for x in &syls {
        s.type_syl(*x);
    }
    if s.ed.len() != key.len() {
        s.ed.clear();
        return None;
    }
    s.key(KeyCode::Home);
    s.key(KeyCode::Down);
    let c = s.ed.all_candidates().ok();
    c
}

/// "offered as a candidate for those syllables"
fn check_candidate(s: &mut Sess, out: &mut Out, st: &mut Stats, key: &[u16], text: &str, what: &str) {
    st.cand_checks += 1;
    let c = candidates_for(s, key);
    let ok = c.as_ref().map(|c| c.iter().any(|x| x == text)).unwrap_or(false);
    if !ok {
        out.oracle_fail(PROP, "new", &format!("not-offered key={} phrase={} candidates={:?} {}", enc_key(key), hx(text), c.map(|c| c.iter().map(|x| hx(x)).collect::<Vec<_>>()), what));
    }
    let _ = s.ed.cancel_selecting();
    s.ed.clear();
}

/// the default conversion of `key` typed alone (+ correspondence record for in-memory dictionaries)
fn default_of(s: &mut Sess, out: &mut Out, key: &[u16]) -> String {
    s.ed.clear();
    for c in key {
        s.type_syl(Syllable::try_from(*c).unwrap());
    }
    let shown = s.ed.display();
    if !s.file_backed {
        let u = user_view(&mut s.ed);
        out.rec(&format!("learn default {} {} {} => {}", enc_sys(&s.sys), enc_user(&u), enc_key(key), hx(&shown)));
    }
    s.ed.clear();
    shown
}

/// the pre-survey's proviso, computed on the merged dictionary: does some segmentation of `key` into two phrases
/// (or into single characters) score above the single whole-range interval carrying a phrase of frequency `fx`?
fn split_outscores(s: &mut Sess, key: &[u16], fx: u32) -> bool {
    let n = key.len() as i64;
    if n < 2 {
        return false;
    }
    let single = 1000 * n + 1000 * 6 * n + fx as i64;
    let best = |s: &mut Sess, k: &[u16]| -> Option<i64> {
        let m = s.merged(k);
        m.values().max().map(|f| if k.len() == 1 { (*f / 512) as i64 } else { *f as i64 })
    };
    for j in 1..key.len() {
        if let (Some(a), Some(b)) = (best(s, &key[..j]), best(s, &key[j..])) {
            let spread = (j as i64 - (key.len() - j) as i64).abs();
            if 1000 * n + 1000 * (6 * n / 2) - 100 * spread + a + b > single {
                return true;
            }
        }
    }
    let mut sum = 0;
    for c in key {
        match best(s, &[*c]) {
            Some(f) => sum += f,
            None => return false,
        }
    }
    1000 * n + 1000 * (6 * n / n) + sum > single
}

/// repeat "type the syllables, choose X, commit" until X is the default of the bare syllables
fn becomes_default(s: &mut Sess, out: &mut Out, st: &mut Stats, rng: &mut Rng, key: &[u16], x: &str, max_reps: usize) {
    let m0 = s.merged(key);
    let fx0 = *m0.get(x).unwrap_or(&0);
    let fy0 = m0.iter().filter(|(t, _)| t.as_str() != x).map(|(_, f)| *f).max().unwrap_or(0);
    let in_quantifier = fx0 <= FREQ_BOUND && fy0 <= FREQ_BOUND;
    st.default_loops += 1;
    if fy0 >= fx0 {
        let g = fy0 - fx0;
        if g == 0 {
            st.ties += 1;
        } else if g < 50 {
            st.gap_small += 1;
        } else if g < 10_000 {
            st.gap_mid += 1;
        } else {
            st.gap_large += 1;
        }
    }
    let what = format!("loop key={} x={} fx0={} fy0={}", enc_key(key), hx(x), fx0, fy0);
    let mut reached: Option<usize> = None;
    let mut extra = 0;
    for rep in 1..=max_reps {
        let Some(cands) = candidates_for(s, key) else {
            out.oracle_fail(PROP, "new", &format!("cannot-type {}", what));
            return;
        };
        let Some(ix) = cands.iter().position(|c| c == x) else {
            out.oracle_fail(PROP, "new", &format!("not-offered rep={} candidates={:?} {}", rep, cands.iter().map(|c| hx(c)).collect::<Vec<_>>(), what));
            let _ = s.ed.cancel_selecting();
            s.ed.clear();
            return;
        };
        if s.ed.select(ix).is_err() {
            out.oracle_fail(PROP, "new", &format!("select-failed rep={} {}", rep, what));
            s.ed.clear();
            return;
        }
        let shown = s.ed.display();
        if shown != x {
            out.oracle_fail(PROP, "new", &format!("chosen-not-shown rep={} shown={} {}", rep, hx(&shown), what));
        }
        commit(s, out, st, &format!("{} rep={}", what, rep));
        // default of the bare syllables
        let m = s.merged(key);
        let fx = *m.get(x).unwrap_or(&0);
        let strict_top = m.iter().all(|(t, f)| t == x || *f < fx);
        let d = default_of(s, out, key);
        if strict_top {
            st.default_checks += 1;
            if d == x && split_outscores(s, key, fx) {
                st.outscored_but_default += 1;
            }
        }
        if strict_top && d != x {
            // the strictly most frequent phrase of the whole range is not the default: there is no competing
            // segmentation proviso left in the code (trim_paths drops every path the single interval contains)
            out.oracle_fail(PROP, "new", &format!("top-not-default rep={} default={} fx={} {}", rep, hx(&d), fx, what));
        }
        if d == x && reached.is_none() {
            reached = Some(rep);
        }
        if reached.is_some() {
            extra += 1;
            if d != x {
                out.oracle_fail(PROP, "new", &format!("default-lost rep={} default={} {}", rep, hx(&d), what));
            }
            if extra > (rng.below(2) as usize) {
                break;
            }
        }
        if rep == REPEAT_BOUND && reached.is_none() && in_quantifier {
            out.oracle_fail(PROP, "new", &format!("not-default-after-{} default={} fx={} {}", REPEAT_BOUND, hx(&d), fx, what));
            break;
        }
    }
    if let Some(r) = reached {
        st.default_reached += 1;
        st.max_reps = st.max_reps.max(r as u64);
        *st.rep_hist.entry(((r as u64) + 9) / 10 * 10).or_insert(0) += 1;
    }
}

fn freq_point(rng: &mut Rng) -> u32 {
    const P: [u32; 22] = [0, 1, 4, 5, 9, 10, 11, 45, 49, 50, 51, 55, 99, 100, 500, 999, 1000, 10_000, 100_000, 500_000, 999_990, 999_999];
    match rng.below(10) {
        0..=5 => *rng.pick(&P),
        6..=7 => rng.below(1000) as u32,
        _ => rng.below(1_000_000) as u32,
    }
}

fn gap_point(rng: &mut Rng) -> u32 {
    const G: [u32; 22] = [0, 1, 4, 5, 6, 9, 10, 11, 44, 45, 49, 50, 51, 55, 56, 250, 1000, 10_000, 100_000, 500_000, 999_990, 999_999];
    if rng.chance(3, 4) {
        *rng.pick(&G)
    } else {
        rng.below(1_000_000) as u32
    }
}

struct Built {
    layers: Vec<Vec<SysEntry>>,
    user: Vec<(Key, String, u32, u64)>,
    syls: Vec<Syllable>,
    /// keys with at least two homophonous phrases (merged)
    multi_keys: Vec<Key>,
}

fn gen_dict(rng: &mut Rng) -> Built {
    let breaks: Vec<char> = BREAK_WORDS.chars().collect();
    let plain: Vec<char> = PLAIN.chars().collect();
    let nsyl = 3 + rng.below(4) as usize;
    let mut pool: Vec<&str> = SYLLABLES.to_vec();
    let mut syls = vec![];
    for _ in 0..nsyl {
        let i = rng.below(pool.len() as u64) as usize;
        syls.push(pool.swap_remove(i).parse::<Syllable>().unwrap());
    }
    let mut l0: Vec<SysEntry> = vec![];
    let mut l1: Vec<SysEntry> = vec![];
    let mut used: BTreeSet<char> = BTreeSet::new();
    let mut chars_of: BTreeMap<u16, Vec<char>> = BTreeMap::new();
    let fresh = |rng: &mut Rng, used: &mut BTreeSet<char>, allow_break: bool| -> char {
        loop {
            let c = if allow_break && rng.chance(1, 3) { *rng.pick(&breaks) } else { *rng.pick(&plain) };
            if used.insert(c) {
                return c;
            }
        }
    };
    // single characters: 2..4 homophones per syllable
    for s in &syls {
        let n = 2 + rng.below(3);
        let base = freq_point(rng);
        for _ in 0..n {
            let c = fresh(rng, &mut used, true);
            let f = if rng.chance(1, 2) { base.saturating_add(gap_point(rng)).min(FREQ_BOUND) } else { freq_point(rng) };
            l0.push((vec![s.to_u16()], c.to_string(), f));
            chars_of.entry(s.to_u16()).or_default().push(c);
        }
    }
    // phrases: keys of 2..4 syllables with 2..4 homophonous phrases
    let mut multi_keys: Vec<Key> = syls.iter().map(|s| vec![s.to_u16()]).collect();
    let nkeys = 2 + rng.below(4);
    let mut seen_keys: BTreeSet<Key> = BTreeSet::new();
    for _ in 0..nkeys {
        let len = 2 + rng.below(3) as usize;
        let key: Key = (0..len).map(|_| rng.pick(&syls).to_u16()).collect();
        if !seen_keys.insert(key.clone()) {
            continue;
        }
        let n = if rng.chance(1, 6) { 1 } else { 2 + rng.below(3) };
        let base = freq_point(rng);
        let mut texts: BTreeSet<String> = BTreeSet::new();
        for _ in 0..n {
            // characters need not be readings of the syllables; sometimes reuse the syllables' own characters
            let t: String = key
                .iter()
                .map(|c| if rng.chance(1, 2) { *rng.pick(&chars_of[c]) } else if rng.chance(1, 5) { *rng.pick(&breaks) } else { *rng.pick(&plain) })
                .collect();
            if !texts.insert(t.clone()) {
                continue;
            }
            let f = if rng.chance(2, 3) { base.saturating_add(gap_point(rng)).min(FREQ_BOUND) } else { freq_point(rng) };
            if rng.chance(1, 5) {
                l1.push((key.clone(), t.clone(), f));
                if rng.chance(1, 2) {
                    l0.push((key.clone(), t, freq_point(rng))); // duplicate across layers, other frequency
                }
            } else {
                l0.push((key.clone(), t, f));
            }
        }
        if texts.len() >= 2 {
            multi_keys.push(key);
        }
    }
    // compound keys: the concatenation of two phrase keys gets (rarer) phrases of its own, so that a competing
    // segmentation into two frequent phrases exists and out-scores the whole-range phrase
    let phrase_keys: Vec<Key> = seen_keys.iter().cloned().collect();
    if phrase_keys.len() >= 2 && rng.chance(1, 2) {
        let k1 = rng.pick(&phrase_keys).clone();
        let k2 = rng.pick(&phrase_keys).clone();
        let key: Key = k1.iter().chain(k2.iter()).cloned().collect();
        if key.len() <= 8 && seen_keys.insert(key.clone()) {
            let mut texts: BTreeSet<String> = BTreeSet::new();
            for _ in 0..(2 + rng.below(2)) {
                let t: String = key.iter().map(|_| *rng.pick(&plain)).collect();
                if texts.insert(t.clone()) {
                    l0.push((key.clone(), t, rng.below(200) as u32));
                }
            }
            if texts.len() >= 2 {
                multi_keys.push(key.clone());
                multi_keys.push(key);
            }
        }
    }
    // pre-existing user entries (some shadow a system phrase, some are new homophones)
    let mut user = vec![];
    let mut seen_user: BTreeSet<(Key, String)> = BTreeSet::new();
    for _ in 0..rng.below(4) {
        let all: Vec<&SysEntry> = l0.iter().chain(l1.iter()).collect();
        let e = *rng.pick(&all);
        let (k, t) = if rng.chance(1, 2) {
            (e.0.clone(), e.1.clone())
        } else {
            (e.0.clone(), e.0.iter().map(|_| *rng.pick(&plain)).collect())
        };
        if seen_user.insert((k.clone(), t.clone())) {
            let f = if rng.chance(1, 2) { e.2.saturating_add(gap_point(rng) % 1000) } else { freq_point(rng) };
            user.push((k, t, f, rng.below(60_000)));
        }
    }
    let layers = if l1.is_empty() { vec![l0] } else { vec![l0, l1] };
    Built { layers, user, syls, multi_keys }
}

fn mem_dict(entries: &[SysEntry]) -> TrieBuf {
    let mut d = TrieBuf::new_in_memory();
    for (k, t, f) in entries {
        let key: Vec<Syllable> = k.iter().map(|c| Syllable::try_from(*c).unwrap()).collect();
        let _ = d.add_phrase(&key, Phrase::new(t.as_str(), *f));
    }
    d
}

fn new_session(b: &Built, user: Box<dyn Dictionary>, file_backed: bool, out: &mut Out) -> Sess {
    let mut sys_boxes: Vec<Box<dyn Dictionary>> = vec![];
    let mut sys: Vec<SysEntry> = vec![];
    for l in &b.layers {
        let d = mem_dict(l);
        sys.extend(dict_entries(&d).into_iter().map(|(k, t, f, _)| (k, t, f)));
        sys_boxes.push(Box::new(d));
    }
    let est = LaxUserFreqEstimate::max_from(user.as_ref());
    let times: Vec<u64> = dict_entries(user.as_ref()).iter().map(|e| e.3).collect();
    out.rec(&format!("learn maxfrom {}{} => {}", times.len(), times.iter().map(|t| format!(" {}", t)).collect::<String>(), est.now()));
    let clock = est.now();
    let dict = Layered::new(sys_boxes, user);
    let ed = Editor::new(Box::new(ChewingEngine::new()), dict, est, AbbrevTable::new(), SymbolSelector::default());
    Sess { ed, sys, syls: b.syls.clone(), clock, file_backed }
}

/// a longer buffer with random choices, committed once
fn mixed_commit(s: &mut Sess, out: &mut Out, st: &mut Stats, rng: &mut Rng) {
    s.ed.clear();
    let n = 2 + rng.below(7) as usize;
    let mut typed = 0;
    for i in 0..n {
        if i > 0 && rng.chance(1, 8) {
            s.key_mod(KeyCode::Comma, Modifiers::shift()); // full-width comma: a non-phrase interval
        }
        let x = *rng.pick(&s.syls);
        s.type_syl(x);
        typed += 1;
    }
    let _ = typed;
    let len = s.ed.len();
    // random explicit choices
    for _ in 0..rng.below(4) {
        let p = rng.below(len as u64) as usize;
        if !matches!(s.ed.symbols()[p], Symbol::Syllable(_)) {
            continue;
        }
        s.key(KeyCode::Home);
        for _ in 0..p {
            s.key(KeyCode::Right);
        }
        s.key(KeyCode::Down);
        if !s.ed.is_selecting() {
            continue;
        }
        for _ in 0..rng.below(4) {
            s.key(KeyCode::Down); // next (shorter) range
        }
        match s.ed.all_candidates() {
            Ok(c) if !c.is_empty() => {
                let ix = rng.below(c.len() as u64) as usize;
                let _ = s.ed.select(ix);
            }
            _ => {}
        }
        if s.ed.is_selecting() {
            let _ = s.ed.cancel_selecting();
        }
    }
    if rng.chance(1, 6) {
        s.key(KeyCode::End);
        s.key(KeyCode::Tab); // next conversion alternative
    }
    if !s.ed.is_entering() || s.ed.is_empty() {
        s.ed.clear();
        return;
    }
    let units = commit(s, out, st, "mixed");
    // learned units are offered afterwards
    for (k, t) in units.iter().take(2) {
        if k.len() == t.chars().count() && !k.is_empty() {
            check_candidate(s, out, st, k, t, "after mixed commit");
        }
    }
}

fn set_disabled(s: &mut Sess, disabled: bool) {
    let mut o = s.ed.editor_options();
    o.disable_auto_learn_phrase = disabled;
    s.ed.set_editor_options(o);
}

fn scenario(rng: &mut Rng, out: &mut Out, st: &mut Stats, file_backed: bool, long_loops: bool) {
    let b = gen_dict(rng);
    let dir = tempfile::tempdir().unwrap();
    let path = dir.path().join("chewing.dat");
    let user: Box<dyn Dictionary> = if file_backed {
        let mut d = TrieBuf::open(&path).unwrap();
        for (k, t, f, tm) in &b.user {
            let key: Vec<Syllable> = k.iter().map(|c| Syllable::try_from(*c).unwrap()).collect();
            let _ = d.add_phrase(&key, Phrase::new(t.as_str(), *f).with_time(*tm));
        }
        let _ = d.flush();
        drop(d); // joins the writer
        Box::new(TrieBuf::open(&path).unwrap())
    } else {
        let mut d = TrieBuf::new_in_memory();
        for (k, t, f, tm) in &b.user {
            let key: Vec<Syllable> = k.iter().map(|c| Syllable::try_from(*c).unwrap()).collect();
            let _ = d.add_phrase(&key, Phrase::new(t.as_str(), *f).with_time(*tm));
        }
        Box::new(d)
    };
    let mut s = new_session(&b, user, file_backed, out);
    let steps = if file_backed { 3 } else { 4 + rng.below(4) };
    for _ in 0..steps {
        match rng.below(12) {
            // learn X, make the user dictionary forget X (`unlearn_phrase` = chewing_userphrase_remove), choose and
            // commit X again: the statement holds for that commit like for any other (recorded again, frequency
            // rising, default within the bound, persisted) - a forgotten phrase is not barred from being learned
            10..=11 if !b.multi_keys.is_empty() => {
                set_disabled(&mut s, false);
                let key = rng.pick(&b.multi_keys).clone();
                let m = s.merged(&key);
                if m.len() < 2 {
                    continue;
                }
                let x = (*rng.pick(&m.keys().collect::<Vec<_>>())).clone();
                let first_reps = 1 + rng.below(2) as usize;
                becomes_default(&mut s, out, st, rng, &key, &x, first_reps);
                let syl_key: Vec<Syllable> = key.iter().map(|c| Syllable::try_from(*c).unwrap()).collect();
                if !user_view(&mut s.ed).contains_key(&(key.clone(), x.clone())) {
                    continue; // not recorded: already reported by `commit`
                }
                if s.ed.unlearn_phrase(&syl_key, &x).is_err() {
                    continue;
                }
                if user_view(&mut s.ed).contains_key(&(key.clone(), x.clone())) {
                    out.oracle_fail(PROP, "new", &format!("unlearn-kept key={} x={}", enc_key(&key), hx(&x)));
                    continue;
                }
                st.relearn_after_unlearn += 1;
                if s.merged(&key).contains_key(&x) {
                    // still a candidate (a system dictionary holds it too): choose it and commit again
                    let max_reps = if file_backed { 4 } else if long_loops { REPEAT_BOUND + 2 } else { 3 + rng.below(6) as usize };
                    becomes_default(&mut s, out, st, rng, &key, &x, max_reps);
                    if !user_view(&mut s.ed).contains_key(&(key.clone(), x.clone())) {
                        out.oracle_fail(PROP, "new", &format!("not-recorded-after-unlearn key={} x={}", enc_key(&key), hx(&x)));
                    }
                }
            }
            0..=4 if !b.multi_keys.is_empty() => {
                set_disabled(&mut s, false);
                let key = rng.pick(&b.multi_keys).clone();
                let m = s.merged(&key);
                if m.len() < 2 {
                    continue;
                }
                // prefer a phrase that is not the most frequent one
                let top = *m.values().max().unwrap();
                let mut cands: Vec<&String> = m.iter().filter(|(_, f)| **f < top).map(|(t, _)| t).collect();
                if cands.is_empty() || rng.chance(1, 8) {
                    cands = m.keys().collect();
                }
                let x = (*rng.pick(&cands)).clone();
                let max_reps = if file_backed { 4 } else if long_loops { REPEAT_BOUND + 2 } else { 3 + rng.below(6) as usize };
                becomes_default(&mut s, out, st, rng, &key, &x, max_reps);
            }
            5..=7 => {
                set_disabled(&mut s, false);
                mixed_commit(&mut s, out, st, rng);
            }
            _ => {
                set_disabled(&mut s, true);
                mixed_commit(&mut s, out, st, rng);
                if rng.chance(1, 2) && !b.multi_keys.is_empty() {
                    // choosing a phrase and committing with learning disabled
                    let key = rng.pick(&b.multi_keys).clone();
                    if let Some(c) = candidates_for(&mut s, &key) {
                        if !c.is_empty() {
                            let ix = rng.below(c.len() as u64) as usize;
                            if s.ed.select(ix).is_ok() && s.ed.is_entering() && !s.ed.is_empty() {
                                commit(&mut s, out, st, "choice while disabled");
                            }
                        }
                    }
                    s.ed.clear();
                }
                set_disabled(&mut s, false);
            }
        }
    }
    if file_backed {
        // close and reopen: everything the user dictionary reported before closing is still there
        let last = user_view(&mut s.ed);
        // Let the background writer catch up before closing: closing while a snapshot is in flight loses the
        // changes made since it started (F12, durability = C10); that schedule is not C08's subject.  Without a
        // hook the writer cannot be observed, so drive reopen()/flush() (what every key event with a pending
        // change does) until an independent reader of the file sees the whole map.
        let file_view = |path: &std::path::Path| -> UserView {
            let mut m = UserView::new();
            if let Ok(d) = chewing::dictionary::Trie::open(path) {
                for (k, t, f, tm) in dict_entries(&d) {
                    let e = m.entry((k, t)).or_insert((f, tm));
                    if (f, tm) > *e {
                        *e = (f, tm);
                    }
                }
            }
            m
        };
        let t0 = std::time::Instant::now();
        let mut settled = false;
        while t0.elapsed() < std::time::Duration::from_secs(10) {
            if let Some(d) = s.ed.user_dict().as_dict_mut() {
                let _ = d.reopen();
                let _ = d.flush();
            }
            std::thread::sleep(std::time::Duration::from_millis(3));
            if file_view(&path) == last {
                settled = true;
                break;
            }
        }
        if !settled {
            out.oracle_fail(PROP, "new", &format!("never-persisted-while-open file={} map={}", enc_user(&file_view(&path)), enc_user(&last)));
        }
        if user_view(&mut s.ed) != last {
            out.oracle_fail(PROP, "new", &format!("reopen-flush-changed-the-map before={} after={}", enc_user(&last), enc_user(&user_view(&mut s.ed))));
        }
        drop(s);
        let d = TrieBuf::open(&path).unwrap();
        let mut again = UserView::new();
        for (k, t, f, tm) in dict_entries(&d) {
            let e = again.entry((k, t)).or_insert((f, tm));
            if (f, tm) > *e {
                *e = (f, tm);
            }
        }
        st.reopen_checks += 1;
        for (k, v) in &last {
            if again.get(k) != Some(v) {
                out.oracle_fail(PROP, "new", &format!("lost-after-reopen key={} phrase={} before={:?} after={:?}", enc_key(&k.0), hx(&k.1), v, again.get(k)));
            }
        }
        // and is offered by a fresh editor over the reopened file
        let b2 = Built { layers: b.layers.clone(), user: vec![], syls: b.syls.clone(), multi_keys: vec![] };
        let mut s2 = new_session(&b2, Box::new(d), true, out);
        let sys_keys: BTreeSet<(Key, String)> = s2.sys.iter().map(|e| (e.0.clone(), e.1.clone())).collect();
        let learned: Vec<(Key, String)> = last.keys().filter(|k| !sys_keys.contains(*k)).cloned().collect();
        for (k, t) in learned.iter().take(3) {
            if !k.is_empty() && k.len() == t.chars().count() {
                check_candidate(&mut s2, out, st, k, t, "after reopen");
            }
        }
    }
}

fn est_grid(rng: &mut Rng, out: &mut Out, st: &mut Stats, thorough: bool) {
    let mut emit = |lifetime: u64, freq: u32, last: Option<u64>, orig: u32, max: u32, st: &mut Stats| {
        let e = LaxUserFreqEstimate::new(lifetime);
        let mut p = Phrase::new("x", freq);
        if let Some(t) = last {
            p = p.with_time(t);
        }
        let r = catch_unwind(AssertUnwindSafe(|| e.estimate(&p, orig, max)));
        st.est += 1;
        let res = match r {
            Ok(v) => format!("ok {}", v),
            Err(_) => {
                st.est_panics += 1;
                "panic".to_string()
            }
        };
        out.rec(&format!("learn est {} {} {} {} {} => {}", lifetime, freq, opt(last), orig, max, res));
    };
    let dts: [u64; 12] = [0, 1, 3999, 4000, 4001, 49_999, 50_000, 50_001, 100_000, 1 << 32, u64::MAX - 1, u64::MAX];
    let fs: [u32; 21] = [0, 1, 4, 5, 9, 10, 11, 49, 50, 51, 99, 100, 1000, 999_999, 1_000_000, 99_999_989, 99_999_998, 99_999_999,
        100_000_000, u32::MAX - 1, u32::MAX];
    // all band boundaries x all frequency edges
    for dt in dts {
        for lifetime in [dt, dt.saturating_add(7), u64::MAX] {
            if lifetime < dt {
                continue;
            }
            for &f in &fs {
                for &o in &[0u32, 1, 5, 9, 10, 11, 50, 1000, 1_000_000, 99_999_999, u32::MAX] {
                    for &m in &[0u32, 1, 5, 10, 50, 51, 100, 1000, 1_000_000, 99_999_999, u32::MAX] {
                        emit(lifetime, f, Some(lifetime - dt), o, m, st);
                    }
                }
            }
        }
    }
    // no timestamp (the editor path), time in the future, random points
    for &f in &fs {
        for &m in &fs {
            emit(12345, f, None, f, m, st);
            emit(0, f, None, f.min(m), m.max(f), st);
            emit(100, f, Some(101), f, m, st);
        }
    }
    let n = if thorough { 400_000 } else { 20_000 };
    for _ in 0..n {
        let lifetime = match rng.below(4) {
            0 => rng.below(100),
            1 => rng.below(200_000),
            2 => rng.next(),
            _ => *rng.pick(&dts),
        };
        let last = match rng.below(6) {
            0 => None,
            1 => Some(lifetime.saturating_add(rng.below(3))),
            2 => Some(rng.next()),
            _ => Some(lifetime.saturating_sub(*rng.pick(&dts) % 100_000 + rng.below(3))),
        };
        let mut f = || match rng.below(5) {
            0 => *rng.pick(&fs),
            1 => rng.below(100) as u32,
            2 => rng.below(1_000_001) as u32,
            3 => rng.below(100_000_001) as u32,
            _ => rng.next() as u32,
        };
        let (a, b, c) = (f(), f(), f());
        emit(lifetime, a, last, b, c, st);
    }
}

fn main() {
    std::panic::set_hook(Box::new(|_| {}));
    let thorough = tier_is_thorough();
    let mut rng = Rng::new(seed_from_env());
    let mut out = Out::new();
    let mut st = Stats {
        relearn_after_unlearn: 0,
        commits: 0, commits_disabled: 0, commits_file: 0, units_multi: 0, units_run: 0, units_run_len2: 0, units_break: 0,
        singles_in_run: 0, non_phrase_ivs: 0, first_time: 0, updates: 0, default_loops: 0, default_reached: 0, max_reps: 0,
        rep_hist: BTreeMap::new(), cand_checks: 0, reopen_checks: 0, gap_small: 0, gap_mid: 0, gap_large: 0, ties: 0,
        est: 0, est_panics: 0, scen_panics: 0, outscored_but_default: 0, default_checks: 0,
    };
    est_grid(&mut rng, &mut out, &mut st, thorough);

    let (n_mem, n_long, n_file) = if thorough { (8000, 2000, 150) } else { (400, 100, 12) };
    for i in 0..(n_mem + n_long + n_file) {
        let file_backed = i >= n_mem + n_long;
        let long_loops = i >= n_mem && !file_backed;
        let mut r2 = Rng::new(rng.next());
        let res = catch_unwind(AssertUnwindSafe(|| scenario(&mut r2, &mut out, &mut st, file_backed, long_loops)));
        if res.is_err() {
            st.scen_panics += 1;
            out.oracle_fail(PROP, "new", &format!("panic-in-scenario index={} seed={} file_backed={}", i, seed_from_env(), file_backed));
        }
    }

    out.stat("est_records", st.est);
    out.stat("est_panics_predicted_F07", st.est_panics);
    out.stat("commits", st.commits);
    out.stat("commits_autolearn_disabled", st.commits_disabled);
    out.stat("commits_file_backed", st.commits_file);
    out.stat("units_multi_char", st.units_multi);
    out.stat("units_single_runs", st.units_run);
    out.stat("units_runs_of_2_or_more", st.units_run_len2);
    out.stat("single_chars_recorded_only_inside_a_run", st.singles_in_run);
    out.stat("units_break_word_singles", st.units_break);
    out.stat("non_phrase_intervals", st.non_phrase_ivs);
    out.stat("first_time_learned", st.first_time);
    out.stat("updates", st.updates);
    out.stat("default_loops", st.default_loops);
    out.stat("relearn_after_unlearn", st.relearn_after_unlearn);
    out.stat("default_reached", st.default_reached);
    out.stat("max_repetitions_needed", st.max_reps);
    for (k, v) in &st.rep_hist {
        out.stat(&format!("repetitions_le_{}", k), v);
    }
    out.stat("initial_ties", st.ties);
    out.stat("initial_gap_1_49", st.gap_small);
    out.stat("initial_gap_50_9999", st.gap_mid);
    out.stat("initial_gap_ge_10000", st.gap_large);
    out.stat("candidate_checks", st.cand_checks);
    out.stat("reopen_checks", st.reopen_checks);
    out.stat("scenario_panics", st.scen_panics);
    out.stat("default_checks_with_strict_top", st.default_checks);
    out.stat("default_is_x_although_a_split_outscores_it", st.outscored_but_default);
    out.flush();
}
