//! C12 (legacy importer never crashes) + C19 (legacy data migrated completely, once, undestroyed):
//! correspondence records for `Model/Uhash.lean` + `Model/Loader.lean` and the oracles.
//!
//!   loader start  <dat> <uhash> => ok <dict entries> <dat after close> | err <dat after> | panic
//!   loader cstart <dat> <uhash> => ok <dat after close> | null <dat after> | abort
//!   loader learn  <dat> <entry> => <dat after close>
//!   loader encbin  <lifetime bytes> G:<stored records> => <file bytes> valid|invalid <live records>
//!   loader enctext <lifetime, signed decimal> G:<stored records> => <file bytes> valid|invalid <live records>
//!
//! Part A runs `UserDictionaryLoader::load` in-process (`catch_unwind`); part B runs
//! `chewing_new2` scenarios in child processes (a panic inside an `extern "C"` fn aborts).
#[path = "../c12_common.rs"]
mod common;
use chewing::dictionary::{Dictionary, Trie, UserDictionaryLoader};
use chewing::zhuyin::Syllable;
use common::*;
use std::collections::BTreeSet;
use std::ffi::{CStr, CString};
use std::panic::{catch_unwind, AssertUnwindSafe};
use std::path::{Path, PathBuf};
use std::time::Duration;
use vharness::*;

type E = (Vec<u16>, Vec<u8>, u32, u64);

// ------------------------------------------------------------------ generated legacy stores
#[derive(Clone, Debug)]
struct GRec {
    syls: Vec<u16>,
    phrase: String,
    fields: [i32; 4], // userfreq, recentTime, maxfreq, origfreq
    deleted: bool,
}

impl GRec {
    fn live(&self) -> bool {
        !self.deleted && self.fields.iter().all(|f| *f >= 0)
    }
}

#[derive(Clone, Debug)]
struct Store {
    lifetime: i64,
    recs: Vec<GRec>,
}

const CHARS: &[&str] = &["測", "試", "策", "冊", "新", "酷", "音", "é", "𠀀", "あ", "Z", "ㄅ", "一", "龜", "々"];

fn gen_store(rng: &mut Rng, max_recs: u64, with_dead: bool) -> Store {
    let lifetime = match rng.below(8) {
        0 => 0,
        1 => 65535,
        2 => 65536,
        3 => 70000 + rng.below(1000) as i64,
        4 => i32::MAX as i64,
        5 => rng.below(65536) as i64,
        _ => rng.below(3_000_000) as i64,
    };
    let n = rng.below(max_recs + 1);
    let mut keys = BTreeSet::new();
    let mut recs = vec![];
    while (recs.len() as u64) < n {
        let len = if rng.chance(1, 6) { 11 - rng.below(2) } else { 1 + rng.below(5) } as usize;
        let syls: Vec<u16> = (0..len)
            // valid stores hold syllable codes only (`Syllable::try_from` rejects everything else since the repair of
            // F47: a record with another value makes the importer refuse the whole file — cases A2b / A3b below);
            // 0x2bed = the largest code, 0x8000 = the empty pattern (accepted by `try_from`)
            .map(|_| if rng.chance(1, 3) { *rng.pick(&[10268u16, 8708, 0x2208, 1, 0x2bed, 5, 0x2a00, 0x8000]) } else { valid_code(rng) })
            .collect();
        let phrase: String = (0..len).map(|_| *rng.pick(CHARS)).collect();
        if !keys.insert((syls.clone(), phrase.clone())) {
            continue;
        }
        let f = |rng: &mut Rng| -> i32 {
            match rng.below(6) {
                0 => 0,
                1 => i32::MAX,
                2 => rng.below(10) as i32,
                _ => rng.below(100000) as i32,
            }
        };
        let mut fields = [f(rng), f(rng), f(rng), f(rng)];
        let mut deleted = false;
        if with_dead && rng.chance(1, 6) {
            deleted = true;
        } else if with_dead && rng.chance(1, 6) {
            let k = rng.below(4) as usize;
            fields[k] = -1 - rng.below(1000) as i32;
        }
        recs.push(GRec { syls, phrase, fields, deleted });
    }
    Store { lifetime, recs }
}

fn enc_bin_rec(r: &GRec) -> Vec<u8> {
    let mut v = vec![];
    for f in r.fields {
        v.extend_from_slice(&f.to_ne_bytes());
    }
    v.push(r.syls.len() as u8);
    for s in &r.syls {
        v.extend_from_slice(&s.to_ne_bytes());
    }
    v.push(r.phrase.len() as u8);
    let p0 = v.len();
    v.extend_from_slice(r.phrase.as_bytes());
    if r.deleted {
        v[p0] = 0;
    }
    assert!(v.len() <= 125);
    v.resize(125, 0);
    v
}

fn enc_bin(s: &Store) -> Vec<u8> {
    let mut v = b"CBiH".to_vec();
    v.extend_from_slice(&(s.lifetime as i32).to_ne_bytes());
    for r in &s.recs {
        v.extend(enc_bin_rec(r));
    }
    v
}

/// the text format has no deletion mark and no negative fields: only live records are written
fn enc_text(s: &Store) -> Vec<u8> {
    let mut t = format!("{}\n", s.lifetime);
    for r in s.recs.iter().filter(|r| r.live()) {
        t.push_str(&r.phrase);
        for x in &r.syls {
            t.push_str(&format!(" {}", x));
        }
        t.push_str(&format!(" {} {} {} {}\n", r.fields[0], r.fields[1], r.fields[2], r.fields[3]));
    }
    t.into_bytes()
}

fn expected(s: &Store) -> Vec<E> {
    let mut v: Vec<E> = s
        .recs
        .iter()
        .filter(|r| r.live())
        .map(|r| (r.syls.clone(), r.phrase.as_bytes().to_vec(), r.fields[0] as u32, r.fields[1] as u64))
        .collect();
    v.sort();
    v
}

/// `G:` token of the `loader encbin` / `loader enctext` records: `<syls>/<x-hex phrase>/<f>,<t>,<m>,<o> as u32/<deleted>`
fn grecs_tok(s: &Store) -> String {
    s.recs
        .iter()
        .map(|r| {
            format!(
                "{}/x{}/{}/{}",
                syls_tok(&r.syls),
                hex(r.phrase.as_bytes()),
                r.fields.iter().map(|f| (*f as u32).to_string()).collect::<Vec<_>>().join(","),
                r.deleted as u8
            )
        })
        .collect::<Vec<_>>()
        .join(";")
}

/// the live records in store order (what a complete reader yields)
fn live_tok(s: &Store) -> String {
    entries_tok(&s.recs.iter().filter(|r| r.live()).map(|r| (r.syls.clone(), r.phrase.as_bytes().to_vec(), r.fields[0] as u32, r.fields[1] as u64)).collect::<Vec<_>>())
}

/// what the TEXT format can express, computed here independently of the Lean predicate `GRec.TextValid`: 1..=11
/// syllable codes, one character per syllable (the reader derives the number of syllable columns from the phrase),
/// no ASCII white space in the phrase (the column separator); UTF-8 and the field widths hold by the Rust types
fn text_valid(r: &GRec) -> bool {
    (1..=11).contains(&r.syls.len())
        && r.syls.iter().all(|s| is_syllable_code(*s))
        && r.phrase.chars().count() == r.syls.len()
        && !r.phrase.bytes().any(|b| matches!(b, 9 | 10 | 12 | 13 | 32))
}

/// the writer side of the Lean text round-trip theorem (`encodeText`, `GRec.TextValid`, `liveRecs`) against this
/// generator's own encoder, its notion of a live record and of a record the text format can express
fn enctext_record(out: &mut Out, st: &Store) -> bool {
    let valid = st.recs.iter().all(text_valid);
    out.rec(&format!(
        "loader enctext {} G:{} => b{} {} {}",
        st.lifetime,
        grecs_tok(st),
        hex(&enc_text(st)),
        if valid { "valid" } else { "invalid" },
        live_tok(st)
    ));
    valid
}

// ------------------------------------------------------------------ running the real loader
fn scratch() -> tempfile::TempDir {
    if Path::new("/dev/shm").is_dir() {
        tempfile::tempdir_in("/dev/shm").unwrap()
    } else {
        tempfile::tempdir().unwrap()
    }
}

/// `D:…` of the dictionary file (sorted like the `BTreeMap` of `TrieBuf`), `-` if absent
fn read_dat(p: &Path) -> (String, Vec<E>) {
    if !p.exists() {
        return ("-".into(), vec![]);
    }
    match Trie::open(p) {
        Ok(t) => {
            let r = catch_unwind(AssertUnwindSafe(|| t.entries().map(|e| entry_of(&e)).collect::<Vec<E>>()));
            match r {
                Ok(mut es) => {
                    es.sort();
                    (entries_tok(&es), es)
                }
                Err(_) => ("unreadable".into(), vec![]),
            }
        }
        Err(_) => ("corrupt".into(), vec![]),
    }
}

enum StartRes {
    Ok(Vec<E>),
    Err,
    Panic(String),
}

/// `UserDictionaryLoader::load` on `dir/chewing.dat`; the dictionary is dropped (closed) before
/// returning
fn start(dat: &Path) -> StartRes {
    let r = catch_unwind(AssertUnwindSafe(|| match UserDictionaryLoader::new().userphrase_path(dat).load() {
        Ok(d) => {
            // canonical order: a freshly imported dictionary enumerates in `BTreeMap` order, a
            // re-opened one in the trie's depth-first order; the model's map is order-free
            let mut es: Vec<E> = d.entries().map(|e| entry_of(&e)).collect();
            es.sort();
            drop(d);
            StartRes::Ok(es)
        }
        Err(_) => StartRes::Err,
    }));
    match r {
        Ok(s) => s,
        Err(e) => StartRes::Panic(
            e.downcast_ref::<String>().cloned().or(e.downcast_ref::<&str>().map(|s| s.to_string())).unwrap_or_default(),
        ),
    }
}

struct Ctx<'a> {
    out: &'a mut Out,
    n_panic: u64,
    n_ok: u64,
    n_err: u64,
    n_imported: u64,
    n_nonempty: u64,
}

/// one `loader start` record on a fresh directory holding only `uhash.dat`; returns the dir,
/// the dictionary's entries and the file contents after close
fn start_record(cx: &mut Ctx, uhash: &[u8], what: &str) -> Option<(tempfile::TempDir, Vec<E>, Vec<E>)> {
    let dir = scratch();
    std::fs::write(dir.path().join("uhash.dat"), uhash).unwrap();
    let dat = dir.path().join("chewing.dat");
    let lhs = format!("loader start - b{}", hex(uhash));
    match start(&dat) {
        StartRes::Ok(es) => {
            let (after, aes) = read_dat(&dat);
            cx.out.rec(&format!("{} => ok {} {}", lhs, entries_tok(&es), after));
            cx.n_ok += 1;
            cx.n_imported += es.len() as u64;
            if !es.is_empty() {
                cx.n_nonempty += 1;
            }
            if after == "corrupt" || after == "unreadable" || after == "-" {
                cx.out.oracle_fail("C19", "new", &format!("dictionary-file-{}-after-first-start {} uhash=b{}", after, what, hex(uhash)));
            }
            Some((dir, es, aes))
        }
        StartRes::Err => {
            let (after, _) = read_dat(&dat);
            cx.out.rec(&format!("{} => err {}", lhs, after));
            cx.n_err += 1;
            None
        }
        StartRes::Panic(msg) => {
            cx.out.rec(&format!("{} => panic", lhs));
            cx.n_panic += 1;
            cx.out.oracle_fail("C12", "new", &format!("legacy-import-panic {} msg={} uhash=b{}", what, msg.replace(' ', "_"), hex(uhash)));
            None
        }
    }
}

fn diff_sets(want: &[E], got: &[E]) -> Option<String> {
    for w in want {
        match got.iter().find(|g| g.0 == w.0 && g.1 == w.1) {
            None => return Some(format!("lost:{}", entry_tok(&w.0, &String::from_utf8_lossy(&w.1), w.2, w.3))),
            Some(g) if g.2 != w.2 || g.3 != w.3 => {
                return Some(format!(
                    "altered:{}->{}",
                    entry_tok(&w.0, &String::from_utf8_lossy(&w.1), w.2, w.3),
                    entry_tok(&g.0, &String::from_utf8_lossy(&g.1), g.2, g.3)
                ))
            }
            _ => {}
        }
    }
    if got.len() != want.len() {
        let mut sorted = got.to_vec();
        sorted.sort();
        for i in 1..sorted.len() {
            if sorted[i].0 == sorted[i - 1].0 && sorted[i].1 == sorted[i - 1].1 {
                return Some(format!("duplicated:{}", entry_tok(&sorted[i].0, &String::from_utf8_lossy(&sorted[i].1), sorted[i].2, sorted[i].3)));
            }
        }
        for g in got {
            if !want.iter().any(|w| g.0 == w.0 && g.1 == w.1) {
                return Some(format!("spurious:{}", entry_tok(&g.0, &String::from_utf8_lossy(&g.1), g.2, g.3)));
            }
        }
    }
    None
}

/// the whole C19 scenario through the Rust API on one valid store
fn migrate_scenario(cx: &mut Ctx, rng: &mut Rng, st: &Store, uhash: &[u8], fmt: &str) {
    let want = expected(st);
    let what = format!("{}-store lifetime={} records={}", fmt, st.lifetime, st.recs.len());
    let Some((dir, es, aes)) = start_record(cx, uhash, &what) else {
        cx.out.oracle_fail("C19", "new", &format!("valid-legacy-store-not-loaded {} uhash=b{}", what, hex(uhash)));
        return;
    };
    let dat = dir.path().join("chewing.dat");
    let legacy = dir.path().join("uhash.dat");
    // complete + exact, in the dictionary and in the file
    if let Some(d) = diff_sets(&want, &es) {
        cx.out.oracle_fail("C19", "new", &format!("first-start-dictionary {} {} uhash=b{}", d, what, hex(uhash)));
    }
    if let Some(d) = diff_sets(&want, &aes) {
        cx.out.oracle_fail("C19", "new", &format!("first-start-file {} {} uhash=b{}", d, what, hex(uhash)));
    }
    if std::fs::read(&legacy).ok().as_deref() != Some(uhash) {
        cx.out.oracle_fail("C19", "new", &format!("legacy-file-modified-or-removed-by-first-start {} uhash=b{}", what, hex(uhash)));
    }
    // second start: current file present
    let (pre, _) = read_dat(&dat);
    match start(&dat) {
        StartRes::Ok(es2) => {
            let (after, aes2) = read_dat(&dat);
            cx.out.rec(&format!("loader start {} b{} => ok {} {}", pre, hex(uhash), entries_tok(&es2), after));
            let mut s2 = es2.clone();
            s2.sort();
            if let Some(d) = diff_sets(&want, &s2).or(diff_sets(&want, &aes2)) {
                cx.out.oracle_fail("C19", "new", &format!("second-start {} {} uhash=b{}", d, what, hex(uhash)));
            }
        }
        StartRes::Err => {
            cx.out.rec(&format!("loader start {} b{} => err {}", pre, hex(uhash), read_dat(&dat).0));
            cx.out.oracle_fail("C19", "new", &format!("second-start-failed {} uhash=b{}", what, hex(uhash)));
        }
        StartRes::Panic(m) => {
            cx.out.rec(&format!("loader start {} b{} => panic", pre, hex(uhash)));
            cx.out.oracle_fail("C12", "new", &format!("second-start-panic {} {} uhash=b{}", m.replace(' ', "_"), what, hex(uhash)));
        }
    }
    // learn one phrase (new key, or an existing migrated key), close, start again
    let (pre, pre_es) = read_dat(&dat);
    let (lk, lp): (Vec<u16>, String) = if !want.is_empty() && rng.chance(1, 3) {
        let w = rng.pick(&want);
        (w.0.clone(), String::from_utf8_lossy(&w.1).to_string())
    } else {
        (vec![10268, 8708, valid_code(rng)], "策試新".to_string())
    };
    let (lf, lt) = (1 + rng.below(5000) as u32, rng.below(100000));
    let learned = catch_unwind(AssertUnwindSafe(|| {
        let mut d = UserDictionaryLoader::new().userphrase_path(&dat).load().ok()?;
        let syls: Vec<Syllable> = lk.iter().map(|s| Syllable::try_from(*s).unwrap()).collect();
        d.as_dict_mut()?.update_phrase(&syls, (lp.as_str(), lf).into(), lf, lt).ok()?;
        d.as_dict_mut()?.flush().ok()?;
        drop(d);
        Some(())
    }));
    if !matches!(learned, Ok(Some(()))) {
        cx.out.oracle_fail("C19", "new", &format!("learning-after-migration-failed {} uhash=b{}", what, hex(uhash)));
        return;
    }
    let (after, _) = read_dat(&dat);
    cx.out.rec(&format!("loader learn {} {} => {}", pre, entry_tok(&lk, &lp, lf, lt), after));
    match start(&dat) {
        StartRes::Ok(es3) => {
            let mut want3: Vec<E> = pre_es.iter().filter(|e| !(e.0 == lk && e.1 == lp.as_bytes())).cloned().collect();
            want3.push((lk.clone(), lp.as_bytes().to_vec(), lf, lt));
            want3.sort();
            let mut s3 = es3.clone();
            s3.sort();
            let (after3, _) = read_dat(&dat);
            cx.out.rec(&format!("loader start {} b{} => ok {} {}", after, hex(uhash), entries_tok(&es3), after3));
            if let Some(d) = diff_sets(&want3, &s3) {
                cx.out.oracle_fail("C19", "new", &format!("restart-after-learning {} {} uhash=b{}", d, what, hex(uhash)));
            }
        }
        _ => cx.out.oracle_fail("C19", "new", &format!("restart-after-learning-failed {} uhash=b{}", what, hex(uhash))),
    }
    if std::fs::read(&legacy).ok().as_deref() != Some(uhash) {
        cx.out.oracle_fail("C19", "new", &format!("legacy-file-modified-or-removed {} uhash=b{}", what, hex(uhash)));
    }
}

// ------------------------------------------------------------------ part B: chewing_new2 scenarios (worker)
#[derive(Clone)]
struct CCase {
    what: String,
    uhash: Vec<u8>,
    want: Option<Vec<E>>, // Some = valid store: C19 oracle applies
}

fn c_cases(seed: u64, thorough: bool) -> Vec<CCase> {
    let mut rng = Rng::new(seed ^ 0xC19);
    let mut v = vec![];
    let hdr = {
        let mut h = b"CBiH".to_vec();
        h.extend_from_slice(&7i32.to_ne_bytes());
        h
    };
    let one = |r: Vec<u8>| {
        let mut f = hdr.clone();
        f.extend(r);
        f
    };
    let base = GRec { syls: vec![10268, 8708], phrase: "策試".into(), fields: [99999, 2, 3, 4], deleted: false };
    // witnesses of the repaired findings and neighbouring degenerate records
    let mut r = enc_bin_rec(&base);
    r[16] = 60;
    v.push(CCase { what: "F14-length-byte-60".into(), uhash: one(r), want: None });
    let mut r = enc_bin_rec(&base);
    r[21] = 200;
    v.push(CCase { what: "F15-phrase-bytes-200".into(), uhash: one(r), want: None });
    let r = enc_bin_rec(&GRec { syls: vec![], phrase: "測".into(), ..base.clone() });
    v.push(CCase { what: "F39-zero-syllables".into(), uhash: one(r), want: None });
    let mut r = enc_bin_rec(&GRec { syls: vec![10268], phrase: "".into(), ..base.clone() });
    r[20] = 7;
    v.push(CCase { what: "empty-phrase".into(), uhash: one(r), want: None });
    let r = enc_bin_rec(&GRec { syls: vec![10268, 8708], phrase: "測".into(), ..base.clone() });
    v.push(CCase { what: "fewer-characters-than-syllables".into(), uhash: one(r), want: None });
    let r = enc_bin_rec(&GRec { syls: vec![10268], phrase: "測試試".into(), ..base.clone() });
    v.push(CCase { what: "more-characters-than-syllables".into(), uhash: one(r), want: None });
    // C13's F47 in a legacy store: a stored value that is not a syllable -> the importer refuses the file (InvalidData),
    // the context is created over an empty user dictionary
    for code in [0x6a07u16, 0x8208, 0xffff] {
        let r = enc_bin_rec(&GRec { syls: vec![10268, code], phrase: "策試".into(), ..base.clone() });
        v.push(CCase { what: format!("F47-bin-invalid-syllable-{:#06x}", code), uhash: one(r), want: None });
        v.push(CCase { what: format!("F47-text-invalid-syllable-{:#06x}", code), uhash: format!("7\n策試 10268 {} 1 2 3 4\n", code).into_bytes(), want: None });
    }
    v.push(CCase { what: "F26-lifetime-70000".into(), uhash: "70000\n策試 10268 8708 1 2 3 4\n".as_bytes().to_vec(),
        want: Some(vec![(vec![10268, 8708], "策試".as_bytes().to_vec(), 1, 2)]) });
    for name in ["golden-uhash-le-64.dat", "golden-uhash-text.dat"] {
        if let Ok(b) = std::fs::read(repo().join("tests/data").join(name)) {
            v.push(CCase { what: name.into(), uhash: b, want: None });
        }
    }
    let n = if thorough { 150 } else { 24 };
    for i in 0..n {
        let st = gen_store(&mut rng, 6, true);
        if i % 2 == 0 {
            v.push(CCase { what: format!("bin-store lifetime={}", st.lifetime), uhash: enc_bin(&st), want: Some(expected(&st)) });
        } else {
            v.push(CCase { what: format!("text-store lifetime={}", st.lifetime), uhash: enc_text(&st), want: Some(expected(&st)) });
            // round 3 (after the seeded change C19-text-uhash-crlf-header-rejected): the same store as the legacy engine writes
            // it through a text-mode stream on Windows (CR LF line ends), and without the final line end
            if i % 4 == 1 {
                let crlf: Vec<u8> = enc_text(&st).iter().flat_map(|b| if *b == b'\n' { vec![b'\r', b'\n'] } else { vec![*b] }).collect();
                v.push(CCase { what: format!("text-store-crlf lifetime={}", st.lifetime), uhash: crlf, want: Some(expected(&st)) });
            } else {
                let mut cut = enc_text(&st);
                if cut.len() > 1 && cut.last() == Some(&b'\n') && st.recs.iter().any(|r| r.live()) {
                    cut.pop();
                    v.push(CCase { what: format!("text-store-no-final-newline lifetime={}", st.lifetime), uhash: cut, want: Some(expected(&st)) });
                }
            }
        }
    }
    v
}

fn repo() -> PathBuf {
    PathBuf::from(std::env::var("VERIF_REPO").unwrap_or_else(|_| "/repo".to_string()))
}

fn new_ctx(sys: &CStr, user: &CStr) -> *mut chewing_capi::setup::ChewingContext {
    unsafe { chewing_capi::setup::chewing_new2(sys.as_ptr(), user.as_ptr(), None, std::ptr::null_mut()) }
}

fn worker(seed: u64, thorough: bool, from: usize) {
    use chewing_capi::{input::*, output::*, setup::*};
    use std::io::Write;
    let cases = c_cases(seed, thorough);
    let sys = CString::new(repo().join("tests/data").display().to_string()).unwrap();
    let so = std::io::stdout();
    let say = |s: String| {
        let mut l = so.lock();
        writeln!(l, "{}", s).unwrap();
        l.flush().unwrap();
    };
    for (i, c) in cases.iter().enumerate().skip(from) {
        let dir = scratch();
        std::fs::write(dir.path().join("uhash.dat"), &c.uhash).unwrap();
        let dat = dir.path().join("chewing.dat");
        let user = CString::new(dat.display().to_string()).unwrap();
        let ub = hex(&c.uhash);
        // first start
        say(format!("@begin {}.1 loader cstart - b{}", i, ub));
        let ctx = new_ctx(&sys, &user);
        let null1 = ctx.is_null();
        unsafe { chewing_delete(ctx) };
        let (after1, aes1) = read_dat(&dat);
        say(format!("loader cstart - b{} => {} {}", ub, if null1 { "null" } else { "ok" }, after1));
        if let Some(want) = &c.want {
            if null1 {
                say(format!("!oracle C19 new context-not-created-over-valid-legacy-store {} uhash=b{}", c.what.replace(' ', "_"), ub));
            } else if let Some(d) = diff_sets(want, &aes1) {
                say(format!("!oracle C19 new first-context {} {} uhash=b{}", d, c.what.replace(' ', "_"), ub));
            }
        }
        // second start
        say(format!("@begin {}.2 loader cstart {} b{}", i, after1, ub));
        let ctx = new_ctx(&sys, &user);
        let null2 = ctx.is_null();
        unsafe { chewing_delete(ctx) };
        let (after2, aes2) = read_dat(&dat);
        say(format!("loader cstart {} b{} => {} {}", after1, ub, if null2 { "null" } else { "ok" }, after2));
        if c.want.is_some() && (null2 || after2 != after1) {
            say(format!("!oracle C19 new second-context-changed-the-dictionary {}->{} {} uhash=b{}", after1, after2, c.what.replace(' ', "_"), ub));
        }
        // third start: type and commit (learning); oracle only
        say(format!("@begin {}.3 ctx-typing {} uhash=b{}", i, c.what.replace(' ', "_"), ub));
        let ctx = new_ctx(&sys, &user);
        if !ctx.is_null() {
            unsafe {
                for k in "hk4g4".bytes() {
                    chewing_handle_Default(ctx, k as i32);
                }
                let s = chewing_buffer_String(ctx);
                chewing_free(s.cast());
                chewing_handle_Enter(ctx);
                for k in "hk4 ".bytes() {
                    chewing_handle_Default(ctx, k as i32);
                }
                chewing_handle_Down(ctx);
                chewing_handle_Default(ctx, '1' as i32);
                chewing_handle_Enter(ctx);
                chewing_delete(ctx);
            }
        }
        let (_, aes3) = read_dat(&dat);
        if c.want.is_some() {
            let touched = |e: &E| e.0.iter().all(|s| *s == 10268 || *s == 8708);
            let keep: Vec<E> = aes2.iter().filter(|e| !touched(e)).cloned().collect();
            let now: Vec<E> = aes3.iter().filter(|e| !touched(e)).cloned().collect();
            if let Some(d) = diff_sets(&keep, &now) {
                say(format!("!oracle C19 new after-typing {} {} uhash=b{}", d, c.what.replace(' ', "_"), ub));
            }
        }
        if std::fs::read(dir.path().join("uhash.dat")).ok().as_deref() != Some(&c.uhash[..]) {
            say(format!("!oracle C19 new legacy-file-modified-or-removed {} uhash=b{}", c.what.replace(' ', "_"), ub));
        }
        say(format!("@end {}", i));
    }
    say("@done".into());
}

// ------------------------------------------------------------------ main
fn main() {
    let args: Vec<String> = std::env::args().collect();
    let seed = seed_from_env();
    let thorough = tier_is_thorough();
    if args.len() >= 3 && args[1] == "--worker" {
        worker(seed, thorough, args[2].parse().unwrap());
        return;
    }
    // silence the default panic hook (panics are reported as records / oracle lines)
    std::panic::set_hook(Box::new(|_| {}));
    let mut out = Out::new();
    let mut rng = Rng::new(seed);
    let mut cx = Ctx { out: &mut out, n_panic: 0, n_ok: 0, n_err: 0, n_imported: 0, n_nonempty: 0 };

    // ---- A1: valid stores, full C19 scenario through the Rust API
    let n_valid = if thorough { 600 } else { 60 };
    let mut across = 0;
    let (mut n_text, mut n_text_11) = (0u64, 0u64);
    for i in 0..n_valid {
        let st = gen_store(&mut rng, if i % 7 == 0 { 40 } else { 6 }, true);
        if st.lifetime > 65535 {
            across += 1;
        }
        if i % 2 == 0 {
            // the writer side of the Lean round-trip theorem (`encodeBin`, `GRec.Valid`, `liveRecs`)
            // against this generator's own encoder and its notion of a live record
            cx.out.rec(&format!(
                "loader encbin b{} G:{} => b{} valid {}",
                hex(&(st.lifetime as i32).to_ne_bytes()),
                grecs_tok(&st),
                hex(&enc_bin(&st)),
                live_tok(&st)
            ));
            migrate_scenario(&mut cx, &mut rng, &st, &enc_bin(&st), "bin");
        } else {
            let mut st = st;
            if i % 6 == 1 {
                // the text header is an i64: negative and 64-bit lifetimes too (the binary one is a 4-byte int)
                st.lifetime = *rng.pick(&[-1i64, i64::MIN, i64::MAX, -70000, 1 << 40, i32::MIN as i64]);
            }
            if !enctext_record(cx.out, &st) {
                cx.out.oracle_fail("C19", "new", &format!("harness-generated-store-not-text-valid lifetime={}", st.lifetime));
            }
            n_text += 1;
            n_text_11 += st.recs.iter().filter(|r| r.live() && r.syls.len() >= 10).count() as u64;
            migrate_scenario(&mut cx, &mut rng, &st, &enc_text(&st), "text");
        }
    }
    cx.out.stat("valid_stores", n_valid);
    cx.out.stat("valid_stores_lifetime_above_u16", across);
    cx.out.stat("valid_text_stores", n_text);
    cx.out.stat("valid_text_stores_live_records_with_10_or_11_syllables", n_text_11);

    // ---- A1b: records the TEXT format cannot express (`GRec.TextValid` fails): a blank / tab in the phrase, a
    // character count that differs from the syllable count, 0 / 12 syllables, a value that is not a syllable code —
    // alone and next to expressible records.  `loader enctext` must say `invalid` on both sides; the reader's actual
    // behaviour on these bytes is tied by the `loader start` record (no C19 oracle: these are not valid text stores)
    let ok1 = GRec { syls: vec![10268, 8708], phrase: "策試".into(), fields: [9999, 6, 9999, 9231], deleted: false };
    let ok2 = GRec { syls: vec![77], phrase: "新".into(), fields: [5, 6, 7, 8], deleted: false };
    let twelve: Vec<u16> = (0..12).map(|k| if k % 2 == 0 { 10268 } else { 8708 }).collect();
    let bad: Vec<GRec> = vec![
        GRec { syls: vec![10268, 8708, 10268], phrase: "a b".into(), ..ok1.clone() },
        GRec { syls: vec![10268, 8708, 77], phrase: "策\t試".into(), ..ok1.clone() },
        GRec { syls: vec![10268, 8708, 77], phrase: "策試\r".into(), ..ok1.clone() },
        GRec { syls: vec![10268, 8708], phrase: "\u{c}策".into(), ..ok1.clone() },
        GRec { syls: vec![10268, 8708], phrase: "策".into(), ..ok1.clone() },
        GRec { syls: vec![10268], phrase: "策試試".into(), ..ok1.clone() },
        GRec { syls: vec![10268, 8708], phrase: "é".into(), ..ok1.clone() },
        GRec { syls: vec![], phrase: "".into(), ..ok1.clone() },
        GRec { syls: twelve, phrase: "策試策試策試策試策試策試".into(), ..ok1.clone() },
        GRec { syls: vec![10268, 0x6a07], phrase: "策試".into(), ..ok1.clone() },
        GRec { syls: vec![10268, 8708], phrase: "策\u{3000}".into(), ..ok1.clone() }, // U+3000 is not ASCII white space: expressible
        GRec { syls: vec![10268, 8708], phrase: "策\u{b}".into(), ..ok1.clone() },    // nor is VT
    ];
    let mut n_text_invalid = 0;
    for (k, b) in bad.iter().enumerate() {
        for recs in [vec![b.clone()], vec![ok2.clone(), b.clone(), ok1.clone()]] {
            let st = Store { lifetime: k as i64 - 3, recs };
            if !enctext_record(cx.out, &st) {
                n_text_invalid += 1;
            }
            start_record(&mut cx, &enc_text(&st), "text-store-with-inexpressible-record");
        }
    }
    cx.out.stat("text_stores_not_text_valid", n_text_invalid);

    // ---- A2: text headers across the integer boundaries
    for lt in ["0", "65535", "65536", "70000", "2147483647", "2147483648", "9223372036854775807", "9223372036854775808",
               "-1", "-9223372036854775808", "-9223372036854775809", "+5", "+", "-", "", " 5", "5 ", "0x10", "1e3", "５"] {
        let b = format!("{}\n策試 10268 8708 1 2 3 4\n", lt).into_bytes();
        start_record(&mut cx, &b, "text-header");
    }
    // text field edge cases
    for line in ["策試 10268 8708 1 2 3 4", "策試 10268 8708 1 2 3", "策試 10268 0 1 2 3 4", "策試 10268 65536 1 2 3 4",
                 "策試 10268 8708 4294967295 18446744073709551615 4294967295 4294967295", "策試 10268 8708 4294967296 2 3 4",
                 "策試 10268 8708 1 18446744073709551616 3 4", "策試 10268 8708 1 -2 3 4", "策試 10268 8708 +1 +2 +3 +4 extra",
                 "策試\t10268\x0c8708\r1  2 3 4", "策試\x0b10268 8708 1 2 3 4", "", " ", "策 10268 1 2 3 4\r", "a\u{3000}b 1 2 3 1 2 3 4",
                 "策試 10268 8708 1 2 3 4\n\n", "策試 10268 8708 1 2 3 4\n策試 10268 8708 5 6 7 8", "策試 10268 8708 01 002 3 4"] {
        let b = format!("5\n{}\n", line).into_bytes();
        start_record(&mut cx, &b, "text-line");
        let b = format!("5\r\n{}", line).into_bytes();
        start_record(&mut cx, &b, "text-line-no-final-newline");
    }

    // ---- A2b / A3b: a stored value `Syllable::try_from` rejects (F47 repaired), in either format, first / second /
    // last syllable, before and after a good record: the whole load fails with InvalidData (both parsers), nothing
    // is imported, nothing panics; the boundary values 0x2bed / 0x8000 / 1 / 5 are accepted
    let hdr0 = {
        let mut h = b"CBiH".to_vec();
        h.extend_from_slice(&7i32.to_ne_bytes());
        h
    };
    let good0 = enc_bin_rec(&GRec { syls: vec![77], phrase: "新".into(), fields: [5, 6, 7, 8], deleted: false });
    let (mut n_inv_text, mut n_inv_bin, mut n_edge_ok) = (0, 0, 0);
    let edge_ok: &[u16] = &[0x2bed, 0x8000, 1, 5, 0x2a00, 0x0180, 0x0068];
    for (codes, bad) in [(INVALID_CODES, true), (edge_ok, false)] {
        for &code in codes {
            assert_eq!(is_syllable_code(code), !bad);
            for pos in 0..3usize {
                let mut syls = vec![10268u16, 8708, 77];
                syls[pos] = code;
                let line = format!("策試新 {} {} {} 1 2 3 4", syls[0], syls[1], syls[2]);
                for b in [format!("5\n{}\n", line), format!("5\n新 77 5 6 7 8\n{}\n", line), format!("5\n{}\n新 77 5 6 7 8\n", line)] {
                    let before = cx.n_imported;
                    start_record(&mut cx, b.as_bytes(), if bad { "text-invalid-syllable-code" } else { "text-edge-syllable-code" });
                    if bad {
                        n_inv_text += 1;
                        if cx.n_imported != before {
                            cx.out.oracle_fail("C12", "new", &format!("text-store-with-invalid-syllable-code-{}-imported uhash=b{}", code, hex(b.as_bytes())));
                        }
                    } else {
                        n_edge_ok += 1;
                    }
                }
                let rec = enc_bin_rec(&GRec { syls: syls.clone(), phrase: "策試新".into(), fields: [9, 2, 3, 4], deleted: false });
                for order in 0..3 {
                    let mut f = hdr0.clone();
                    match order {
                        0 => f.extend(&rec),
                        1 => {
                            f.extend(&good0);
                            f.extend(&rec)
                        }
                        _ => {
                            f.extend(&rec);
                            f.extend(&good0)
                        }
                    }
                    let before = cx.n_imported;
                    start_record(&mut cx, &f, if bad { "bin-invalid-syllable-code" } else { "bin-edge-syllable-code" });
                    if bad {
                        n_inv_bin += 1;
                        if cx.n_imported != before {
                            cx.out.oracle_fail("C12", "new", &format!("bin-store-with-invalid-syllable-code-{}-imported uhash=b{}", code, hex(&f)));
                        }
                    } else {
                        n_edge_ok += 1;
                    }
                }
            }
        }
    }
    // random invalid codes (any non-zero u16 outside the code space) at a random place of a random valid store
    let n_rand_inv = if thorough { 400 } else { 40 };
    for i in 0..n_rand_inv {
        let mut st = gen_store(&mut rng, 5, false);
        if st.recs.is_empty() {
            continue;
        }
        let code = loop {
            let c = 1 + rng.below(65535) as u16;
            if !is_syllable_code(c) {
                break c;
            }
        };
        let k = rng.below(st.recs.len() as u64) as usize;
        let j = rng.below(st.recs[k].syls.len() as u64) as usize;
        st.recs[k].syls[j] = code;
        let (f, fmt) = if i % 2 == 0 { (enc_bin(&st), "bin") } else { (enc_text(&st), "text") };
        let before = cx.n_imported;
        start_record(&mut cx, &f, &format!("{}-random-invalid-syllable-code", fmt));
        if cx.n_imported != before {
            cx.out.oracle_fail("C12", "new", &format!("{}-store-with-invalid-syllable-code-{}-imported uhash=b{}", fmt, code, hex(&f)));
        }
        if fmt == "bin" { n_inv_bin += 1 } else { n_inv_text += 1 }
    }
    cx.out.stat("uhash_text_records_with_invalid_syllable_code", n_inv_text);
    cx.out.stat("uhash_bin_records_with_invalid_syllable_code", n_inv_bin);
    cx.out.stat("uhash_edge_syllable_codes_accepted_cases", n_edge_ok);

    // ---- A3: binary: every value of the length byte and of the phrase-bytes byte; degenerate records
    let hdr = {
        let mut h = b"CBiH".to_vec();
        h.extend_from_slice(&7i32.to_ne_bytes());
        h
    };
    let base = GRec { syls: vec![10268, 8708], phrase: "策試".into(), fields: [9, 2, 3, 4], deleted: false };
    let good2 = enc_bin_rec(&GRec { syls: vec![77], phrase: "新".into(), fields: [5, 6, 7, 8], deleted: false });
    for v in 0..=255u8 {
        for pos in [16usize, 21] {
            let mut r = enc_bin_rec(&base);
            r[pos] = v;
            let mut f = hdr.clone();
            f.extend(r);
            f.extend(&good2);
            start_record(&mut cx, &f, "bin-length-field");
        }
        // a record filled with one value (syllables, lengths, phrase all `v`)
        let mut f = hdr.clone();
        let mut r = vec![v; 125];
        r[..16].copy_from_slice(&enc_bin_rec(&base)[..16]);
        f.extend(r);
        f.extend(&good2);
        start_record(&mut cx, &f, "bin-uniform-record");
    }
    cx.out.stat("bin_length_field_cases", 256 * 3);

    // ---- A4: every single-byte overwrite / truncation / extension of small valid files
    let small_bin = {
        let mut f = hdr.clone();
        f.extend(enc_bin_rec(&base));
        f.extend(&good2);
        f
    };
    let small_text = "70000\n策試 10268 8708 1 2 3 4\n新 77 5 6 7 8\n".as_bytes().to_vec();
    let vals: &[u8] = if thorough { &[0, 1, 9, 10, 13, 32, 43, 45, 48, 53, 54, 57, 0x7f, 0x80, 0xbf, 0xc0, 0xe7, 0xf4, 0xff] } else { &[0, 1, 10, 32, 45, 54, 0x80, 0xff] };
    let mut n_corrupt = 0;
    for (name, f) in [("bin", &small_bin), ("text", &small_text)] {
        for pos in 0..f.len() {
            // the zero padding of a record is not interesting in the quick tier
            if !thorough && name == "bin" && ((pos >= 8 + 40 && pos < 8 + 125) || pos >= 8 + 125 + 30) {
                continue;
            }
            for v in vals.iter().cloned().chain([f[pos] ^ 1, f[pos] ^ 0x80, f[pos].wrapping_add(1)]) {
                if v == f[pos] {
                    continue;
                }
                let mut g = f.clone();
                g[pos] = v;
                start_record(&mut cx, &g, &format!("{}-overwrite@{}", name, pos));
                n_corrupt += 1;
            }
        }
        for cut in 0..f.len() {
            if !thorough && name == "bin" && cut % 5 != 0 && cut > 12 {
                continue;
            }
            start_record(&mut cx, &f[..cut], &format!("{}-truncated@{}", name, cut));
            n_corrupt += 1;
        }
        for _ in 0..(if thorough { 200 } else { 30 }) {
            let mut g = f.clone();
            let extra = 1 + rng.below(140);
            for _ in 0..extra {
                g.push(match rng.below(4) {
                    0 => 0,
                    1 => *rng.pick(b"0123456789 \n"),
                    _ => rng.below(256) as u8,
                });
            }
            start_record(&mut cx, &g, &format!("{}-extended+{}", name, extra));
            n_corrupt += 1;
        }
    }
    cx.out.stat("single_corruptions", n_corrupt);

    // ---- A5: arbitrary bytes
    let n_arb = if thorough { 6000 } else { 500 };
    for _ in 0..n_arb {
        let cap = if rng.chance(1, 4) { 700 } else { 160 };
        let len = rng.below(cap) as usize;
        let style = rng.below(4);
        let mut b: Vec<u8> = (0..len)
            .map(|_| match style {
                0 => rng.below(256) as u8,
                1 => *rng.pick(b"0123456789 \n\r\t+-\xe7\xad\x96\xe8\xa9\xa6"),
                2 => if rng.chance(1, 2) { 0 } else { rng.below(256) as u8 },
                _ => if rng.chance(3, 4) { rng.below(64) as u8 } else { rng.below(256) as u8 },
            })
            .collect();
        if style != 1 && rng.chance(3, 4) {
            let mut h = hdr.clone();
            h.append(&mut b);
            b = h;
        }
        start_record(&mut cx, &b, "arbitrary-bytes");
    }
    cx.out.stat("arbitrary", n_arb);
    let (n_ok, n_err, n_panic, n_imp, n_ne) = (cx.n_ok, cx.n_err, cx.n_panic, cx.n_imported, cx.n_nonempty);
    out.stat("start_ok", n_ok);
    out.stat("start_err", n_err);
    out.stat("start_panic", n_panic);
    out.stat("start_with_imports", n_ne);
    out.stat("imported_entries", n_imp);

    // ---- B: chewing_new2 scenarios in child processes
    let total = c_cases(seed, thorough).len();
    let mut from = 0;
    let (mut aborts, mut hangs) = (0, 0);
    while from < total {
        let (evs, done) = run_worker(&["--worker".into(), from.to_string()], Duration::from_secs(20));
        for ev in evs {
            match ev {
                Ev::Line(l) => {
                    if l.starts_with("loader ") {
                        out.rec(&l);
                    } else {
                        // oracle / stat lines pass through
                        println_raw(&mut out, &l);
                    }
                }
                Ev::Died { step, timeout, stderr } => {
                    let (id, text) = step.unwrap_or(("?".into(), "?".into()));
                    let case: usize = id.split('.').next().and_then(|x| x.parse().ok()).unwrap_or(from);
                    if text.starts_with("loader ") {
                        out.rec(&format!("{} => {}", text, if timeout { "hang" } else { "abort" }));
                    }
                    if timeout {
                        hangs += 1;
                    } else {
                        aborts += 1;
                    }
                    out.oracle_fail("C12", "new", &format!("context-over-legacy-store-{} step={} {} stderr={}",
                        if timeout { "hangs" } else { "aborts" }, id, text.chars().take(600).collect::<String>().replace(' ', "_"), stderr_gist(&stderr)));
                    from = case + 1;
                }
            }
        }
        if done {
            break;
        }
    }
    out.stat("ctx_cases", total);
    out.stat("ctx_aborts", aborts);
    out.stat("ctx_hangs", hangs);
    out.flush();
}

fn println_raw(out: &mut Out, l: &str) {
    if let Some(rest) = l.strip_prefix("!oracle ") {
        let mut it = rest.splitn(3, ' ');
        let (p, c, d) = (it.next().unwrap_or(""), it.next().unwrap_or(""), it.next().unwrap_or(""));
        out.oracle_fail(p, c, d);
    }
}
