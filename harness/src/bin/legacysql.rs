//! C19, SQLite legacy stores (feature `sqlite`): a user directory holding only `chewing.sqlite3`
//! (current schema written through `SqliteDictionary`, and the repository's golden v1-schema file)
//! is migrated into `chewing.dat` by `UserDictionaryLoader::load`.
//!
//!   loader sqlstart <rows> => ok <dict entries> <dat after close>
//!
//! `<rows>` = what `SqliteDictionary::entries()` yields for the legacy file BEFORE the start
//! (`D:`-token, in iteration order); the model imports these rows (`Loader.load true` with
//! `sqlite := some (some rows)`).  ORACLE (C19): the new dictionary holds exactly the generated
//! records (phrase, syllables, user frequency, time); the SQLite store still yields the same rows
//! afterwards; a second start changes nothing.
//!
//! Older `userphrase_v1` schema (what the C library wrote): the harness creates such stores itself
//! through `rusqlite` (the table of 0.5-0.8: time, user_freq, max_freq, orig_freq, length,
//! phone_0..phone_10, phrase; optionally the `config_v1` table), with records of 1..11 syllables
//! (lengths 10 and 11 weighted), near-duplicates, zero / out-of-range numbers, and runs the real
//! in-file migration (`SqliteDictionary::open`) and the real loader on copies of the file:
//!
//!   loader sqlv1 V:<raw v1 rows> => ok <rows SqliteDictionary::entries() yields> | err
//!
//! a raw row is `<time>,<user_freq>,<max_freq>,<orig_freq>,<length>,<phone_0>,…,<phone_10>/<x-hex phrase>`
//! (signed decimal, table order).  The model (`Model/SqliteV1.lean`) decodes the rows as
//! `migrate_from_userphrase_v1` does and joins them as `entries()` does.  ORACLE (C19): every
//! generated record is present with its phrase, ALL its syllables, user frequency and time and
//! nothing else is; the `userphrase_v1` table is byte-for-byte what the generator wrote after
//! every start; re-opening migrates nothing a second time (a frequency learned in between stays);
//! the loader's first start over the unmigrated file yields the same records, the second start
//! changes nothing.
//! Built without the feature this binary does nothing.
#[cfg(not(feature = "sqlite"))]
fn main() {
    println!("#stat sqlite_feature 0");
}

#[cfg(feature = "sqlite")]
#[path = "../c12_common.rs"]
mod common;

#[cfg(feature = "sqlite")]
fn main() {
    sql::main()
}

#[cfg(feature = "sqlite")]
mod sql {
    use super::common::*;
    use chewing::dictionary::{Dictionary, Phrase, SqliteDictionary, Trie, UserDictionaryLoader};
    use chewing::zhuyin::Syllable;
    use std::collections::BTreeSet;
    use std::path::{Path, PathBuf};
    use vharness::*;

    type E = (Vec<u16>, Vec<u8>, u32, u64);
    const CHARS: &[&str] = &["測", "試", "策", "冊", "新", "酷", "音", "é", "𠀀", "Z", "一"];
    const SYLS: &[u16] = &[10268, 8708, 0x2208, 0x0208, 0x2200, 513, 6664, 8712, 1];

    fn repo() -> PathBuf {
        PathBuf::from(std::env::var("VERIF_REPO").unwrap_or_else(|_| "/repo".to_string()))
    }

    fn sql_rows(p: &Path) -> Option<Vec<E>> {
        let d = SqliteDictionary::open(p).ok()?;
        Some(d.entries().map(|e| entry_of(&e)).collect())
    }

    fn dat_entries(p: &Path) -> Option<Vec<E>> {
        let b = std::fs::read(p).ok()?;
        let t = Trie::new(&b[..]).ok()?;
        Some(t.entries().map(|e| entry_of(&e)).collect())
    }

    fn sorted(mut v: Vec<E>) -> Vec<E> {
        v.sort();
        v
    }

    /// one full scenario on a directory that already holds `chewing.sqlite3`
    fn scenario(out: &mut Out, dir: &Path, want: Option<Vec<E>>, what: &str) {
        let sq = dir.join("chewing.sqlite3");
        let dat = dir.join("chewing.dat");
        let Some(rows) = sql_rows(&sq) else {
            out.oracle_fail("C19", "new", &format!("legacy-sqlite-store-cannot-be-read {}", what));
            return;
        };
        let lhs = format!("loader sqlstart {}", entries_tok(&rows));
        let d = match UserDictionaryLoader::new().userphrase_path(&dat).load() {
            Ok(d) => d,
            Err(e) => {
                out.rec(&format!("{} => err", lhs));
                out.oracle_fail("C19", "new", &format!("sqlite-store-not-migrated {} err={}", what, e.to_string().replace(' ', "_")));
                return;
            }
        };
        let es: Vec<E> = d.entries().map(|e| entry_of(&e)).collect();
        drop(d);
        let after = dat_entries(&dat);
        out.rec(&format!("{} => ok {} {}", lhs, entries_tok(&sorted(es.clone())), after.as_ref().map(|a| entries_tok(&sorted(a.clone()))).unwrap_or("corrupt".into())));
        if let Some(w) = &want {
            if sorted(es.clone()) != sorted(w.clone()) {
                out.oracle_fail("C19", "new", &format!("first-start-dictionary-differs-from-the-legacy-records {} want={} got={}", what, entries_tok(&sorted(w.clone())), entries_tok(&sorted(es.clone()))));
            }
        }
        if sorted(es.clone()) != sorted(rows.clone()) {
            out.oracle_fail("C19", "new", &format!("first-start-dictionary-differs-from-the-sqlite-rows {} rows={} got={}", what, entries_tok(&sorted(rows.clone())), entries_tok(&sorted(es.clone()))));
        }
        if after.as_ref().map(|a| sorted(a.clone())) != Some(sorted(es.clone())) {
            out.oracle_fail("C19", "new", &format!("first-start-file-differs {} ", what));
        }
        match sql_rows(&sq) {
            Some(r2) if sorted(r2.clone()) == sorted(rows.clone()) => {}
            _ => out.oracle_fail("C19", "new", &format!("legacy-sqlite-store-lost-records {}", what)),
        }
        // second start
        match UserDictionaryLoader::new().userphrase_path(&dat).load() {
            Ok(d2) => {
                let es2: Vec<E> = d2.entries().map(|e| entry_of(&e)).collect();
                drop(d2);
                if sorted(es2) != sorted(es.clone()) || dat_entries(&dat).map(sorted) != Some(sorted(es.clone())) {
                    out.oracle_fail("C19", "new", &format!("second-start-changed-the-dictionary {}", what));
                }
            }
            Err(_) => out.oracle_fail("C19", "new", &format!("second-start-failed {}", what)),
        }
    }


    // ------------------------------------------------------------------ userphrase_v1 stores
    /// one raw row of `userphrase_v1` in table order
    #[derive(Clone, Debug, PartialEq, Eq, PartialOrd, Ord)]
    struct V1 {
        time: i64,
        user: i64,
        max: i64,
        orig: i64,
        length: i64,
        phones: [i64; 11],
        phrase: String,
    }

    fn v1_tok(r: &V1) -> String {
        let mut nums = vec![r.time, r.user, r.max, r.orig, r.length];
        nums.extend_from_slice(&r.phones);
        format!("{}/x{}", nums.iter().map(|n| n.to_string()).collect::<Vec<_>>().join(","), hex(r.phrase.as_bytes()))
    }

    fn v1_rows_tok(rs: &[V1]) -> String {
        format!("V:{}", rs.iter().map(v1_tok).collect::<Vec<_>>().join(";"))
    }

    const V1_SCHEMA: &str = "CREATE TABLE IF NOT EXISTS userphrase_v1 (
            time INTEGER,
            user_freq INTEGER,
            max_freq INTEGER,
            orig_freq INTEGER,
            length INTEGER,
            phone_0 INTEGER,
            phone_1 INTEGER,
            phone_2 INTEGER,
            phone_3 INTEGER,
            phone_4 INTEGER,
            phone_5 INTEGER,
            phone_6 INTEGER,
            phone_7 INTEGER,
            phone_8 INTEGER,
            phone_9 INTEGER,
            phone_10 INTEGER,
            phrase TEXT,
            PRIMARY KEY (phone_0,phone_1,phone_2,phone_3,phone_4,phone_5,phone_6,phone_7,phone_8,phone_9,phone_10,phrase)
        )";

    /// what the C library's `chewing.sqlite3` looks like: `userphrase_v1` (+ `config_v1` with the lifetime)
    fn write_v1(path: &Path, rows: &[V1], with_config: bool) -> Vec<V1> {
        use rusqlite::{params, Connection};
        let db = Connection::open(path).unwrap();
        db.execute(V1_SCHEMA, []).unwrap();
        if with_config {
            db.execute("CREATE TABLE IF NOT EXISTS config_v1 (id INTEGER, value INTEGER, PRIMARY KEY (id))", []).unwrap();
            db.execute("INSERT OR IGNORE INTO config_v1 (id, value) VALUES (0, 186613)", []).unwrap();
        }
        let mut kept = vec![];
        for r in rows {
            let p = &r.phones;
            let n = db
                .execute(
                    "INSERT OR IGNORE INTO userphrase_v1 (
                    time, user_freq, max_freq, orig_freq, length,
                    phone_0,phone_1,phone_2,phone_3,phone_4,phone_5,phone_6,phone_7,phone_8,phone_9,phone_10,phrase
                ) VALUES (?, ?, ?, ?, ?, ?, ?, ?, ?, ?, ?, ?, ?, ?, ?, ?, ?)",
                    params![r.time, r.user, r.max, r.orig, r.length, p[0], p[1], p[2], p[3], p[4], p[5], p[6], p[7], p[8], p[9], p[10], r.phrase],
                )
                .unwrap();
            if n == 1 {
                kept.push(r.clone());
            }
        }
        db.close().unwrap();
        kept
    }

    /// the raw rows of `userphrase_v1` (rowid order), `None` if the table is gone
    fn raw_v1(path: &Path) -> Option<Vec<V1>> {
        use rusqlite::Connection;
        let db = Connection::open(path).ok()?;
        let mut stmt = db
            .prepare(
                "SELECT time, user_freq, max_freq, orig_freq, length,
                    phone_0,phone_1,phone_2,phone_3,phone_4,phone_5,phone_6,phone_7,phone_8,phone_9,phone_10,phrase
                 FROM userphrase_v1 ORDER BY rowid",
            )
            .ok()?;
        let rows = stmt
            .query_map([], |row| {
                let mut phones = [0i64; 11];
                for (i, p) in phones.iter_mut().enumerate() {
                    *p = row.get(5 + i)?;
                }
                Ok(V1 { time: row.get(0)?, user: row.get(1)?, max: row.get(2)?, orig: row.get(3)?, length: row.get(4)?, phones, phrase: row.get(16)? })
            })
            .ok()?
            .collect::<Result<Vec<_>, _>>()
            .ok()?;
        Some(rows)
    }

    fn count_rows(path: &Path, table: &str) -> i64 {
        rusqlite::Connection::open(path)
            .and_then(|db| db.query_row(&format!("SELECT count(*) FROM {}", table), [], |r| r.get(0)))
            .unwrap_or(-1)
    }

    fn in_range(r: &V1) -> bool {
        r.phones.iter().all(|p| (0..=65535).contains(p)) && (0..=u32::MAX as i64).contains(&r.user) && (0..=u32::MAX as i64).contains(&r.orig) && r.time >= 0
    }

    /// a phone the migration keeps: the code of a non-empty syllable (bit layout of src/zhuyin/syllable.rs, checked here
    /// independently of `Syllable::try_from`: marker bit clear, initial <= 21, medial <= 3, rime <= 13, tone <= 5, not zero).
    /// Since the repair of C13's F47 every other value — the zero padding, a non-code such as 0x6a07, the empty pattern
    /// 0x8000 — is skipped.
    fn kept_phone(p: i64) -> bool {
        (1..0x8000).contains(&p) && (p >> 9) & 63 <= 21 && (p >> 7) & 3 <= 3 && (p >> 3) & 15 <= 13 && p & 7 <= 5
    }
    const NON_CODES: &[i64] = &[27143, 33288, 526, 0xffff, 0x8000, 0x2c00, 0x0070, 0x8001];

    /// the legacy record a raw row stands for: its syllable phones, phrase, user frequency, time
    fn record_of(r: &V1) -> E {
        let syls: Vec<u16> = r.phones.iter().filter(|p| kept_phone(**p)).map(|p| *p as u16).collect();
        (syls, r.phrase.clone().into_bytes(), r.user.max(r.orig) as u32, r.time as u64)
    }

    /// zero-terminated phones, user frequency at least the original one: what the C library wrote
    fn well_formed(r: &V1) -> bool {
        let k = r.phones.iter().take_while(|p| **p != 0).count();
        in_range(r) && k >= 1 && r.phones[..k].iter().all(|p| kept_phone(*p)) && r.phones[k..].iter().all(|p| *p == 0) && r.user >= r.orig
    }

    fn gen_v1_row(rng: &mut Rng, prev: &[V1]) -> V1 {
        // lengths 10 and 11 weighted
        let k = match rng.weighted(&[45, 20, 35]) {
            0 => 1 + rng.below(9) as usize,
            1 => 10,
            _ => 11,
        };
        let mut phones = [0i64; 11];
        let mut phrase: String = (0..k).map(|_| *rng.pick(CHARS)).collect();
        for p in phones.iter_mut().take(k) {
            *p = *rng.pick(SYLS) as i64;
        }
        // near-duplicates of an earlier row: same phrase and syllables but the last one / same syllables, other phrase
        if !prev.is_empty() && rng.chance(1, 4) {
            let q = rng.pick(prev).clone();
            let qk = q.phones.iter().filter(|p| **p != 0).count();
            match rng.below(4) {
                3 if (2..=10).contains(&qk) && q.phones[..qk].iter().all(|p| *p != 0) => {
                    // the same record once more with a zero phone in the middle: same key after decoding
                    phones = q.phones;
                    phrase = q.phrase.clone();
                    let at = 1 + rng.below(qk as u64 - 1) as usize;
                    for i in (at..qk).rev() {
                        phones[i + 1] = phones[i];
                    }
                    phones[at] = 0;
                }
                0 if qk >= 2 => {
                    phones = q.phones;
                    phrase = q.phrase.clone();
                    let last = (0..11).rev().find(|i| phones[*i] != 0).unwrap();
                    let mut s = *rng.pick(SYLS) as i64;
                    if s == phones[last] {
                        s = SYLS[0] as i64 + 1;
                    }
                    phones[last] = s;
                }
                1 => {
                    phones = q.phones;
                }
                _ => {
                    phrase = q.phrase.clone();
                }
            }
        }
        let orig = match rng.below(4) {
            0 => 0,
            _ => rng.below(500) as i64,
        };
        let mut user = match rng.below(8) {
            0 => orig,
            1 => 0.max(orig),
            2 => u32::MAX as i64 - rng.below(3) as i64,
            _ => orig + rng.below(1000) as i64,
        };
        if rng.chance(1, 25) {
            user = rng.below(orig as u64 + 1) as i64; // below the original frequency: the joined view answers the larger one
        }
        let time = match rng.below(4) {
            0 => 0,
            1 => rng.below(70000) as i64,
            2 => rng.below(1 << 40) as i64,
            _ => rng.below(5000) as i64,
        };
        let real_k = phones.iter().filter(|p| **p != 0).count() as i64;
        let length = if rng.chance(1, 20) { rng.below(12) as i64 } else { real_k };
        // a hole: a zero phone before the end (the migration skips empty syllables, it does not stop)
        if rng.chance(1, 25) {
            let kk = real_k as usize;
            if kk >= 2 && kk <= 10 {
                let at = 1 + rng.below(kk as u64 - 1) as usize;
                for i in (at..kk).rev() {
                    phones[i + 1] = phones[i];
                }
                phones[at] = 0;
            }
        }
        // a phone that is not a syllable code (or is the empty syllable): skipped like a hole (C13 F47)
        if rng.chance(1, 16) {
            let at = rng.below(11) as usize;
            phones[at] = *rng.pick(NON_CODES);
        }
        V1 { time, user, max: user.max(orig) + rng.below(3) as i64, orig, length, phones, phrase }
    }

    /// numbers the migration cannot read (`row.get::<u16/u32/u64>` fails): the whole store is rejected
    fn spoil(rng: &mut Rng, r: &mut V1) -> &'static str {
        match rng.below(5) {
            0 => {
                r.user = -1 - rng.below(5) as i64;
                "negative-user-freq"
            }
            1 => {
                r.orig = -1;
                "negative-orig-freq"
            }
            2 => {
                r.time = -1 - rng.below(1000) as i64;
                "negative-time"
            }
            3 => {
                r.user = u32::MAX as i64 + 1 + rng.below(10) as i64;
                "user-freq-above-u32"
            }
            _ => {
                let i = rng.below(11) as usize;
                r.phones[i] = if rng.chance(1, 2) { 65536 + rng.below(10) as i64 } else { -1 };
                "phone-out-of-u16"
            }
        }
    }

    fn v1_store(out: &mut Out, rng: &mut Rng, i: usize, st: &mut std::collections::BTreeMap<&'static str, usize>) {
        let mut bump = |k: &'static str, n: usize| *st.entry(k).or_insert(0) += n;
        let dir_a = tempfile::tempdir().unwrap();
        let dir_b = tempfile::tempdir().unwrap();
        let sq_a = dir_a.path().join("chewing.sqlite3");
        let sq_b = dir_b.path().join("chewing.sqlite3");
        let n = match i % 6 {
            0 => 0,
            1 => 1,
            2 => 12 + rng.below(20) as usize,
            _ => 1 + rng.below(7) as usize,
        };
        let mut rows: Vec<V1> = vec![];
        for _ in 0..n {
            let r = gen_v1_row(rng, &rows);
            rows.push(r);
        }
        let mut spoiled = None;
        if !rows.is_empty() && rng.chance(1, 8) {
            let at = rng.below(rows.len() as u64) as usize;
            spoiled = Some(spoil(rng, &mut rows[at]));
        }
        let rows = write_v1(&sq_a, &rows, i % 2 == 0);
        std::fs::copy(&sq_a, &sq_b).unwrap();
        let what = format!("generated-v1-store-{} rows={}", i, v1_rows_tok(&rows));
        bump("sqlite_v1_stores", 1);
        bump("sqlite_v1_rows", rows.len());
        for r in &rows {
            let k = r.phones.iter().filter(|p| **p != 0).count();
            bump(
                match k {
                    10 => "sqlite_v1_rows_10_syllables",
                    11 => "sqlite_v1_rows_11_syllables",
                    _ => "sqlite_v1_rows_1_to_9_syllables",
                },
                1,
            );
            if !well_formed(r) {
                bump("sqlite_v1_rows_not_well_formed", 1);
            }
            if r.phones.iter().any(|p| *p != 0 && (0..=65535).contains(p) && !kept_phone(*p)) {
                bump("sqlite_v1_rows_with_a_phone_that_is_no_syllable", 1);
            }
            if r.user == 0 || r.orig == 0 {
                bump("sqlite_v1_rows_zero_freq", 1);
            }
        }
        let all_in_range = rows.iter().all(in_range);
        // what the store holds, last row of a key wins (rows whose phones differ only by a hole share a key)
        let mut want_map = std::collections::BTreeMap::new();
        for r in &rows {
            if in_range(r) {
                let e = record_of(r);
                want_map.insert((e.0.clone(), e.1.clone()), e);
            }
        }
        let want: Vec<E> = want_map.values().cloned().collect();
        if want.len() < rows.len() && all_in_range {
            bump("sqlite_v1_stores_with_colliding_keys", 1);
        }
        let lhs = format!("loader sqlv1 {}", v1_rows_tok(&rows));

        // ---- A: the in-file migration itself
        let opened = SqliteDictionary::open(&sq_a);
        match opened {
            Err(_) => {
                out.rec(&format!("{} => err", lhs));
                if all_in_range {
                    out.oracle_fail("C19", "new", &format!("v1-store-of-readable-rows-rejected {}", what));
                } else {
                    bump("sqlite_v1_stores_rejected", 1);
                }
            }
            Ok(d) => {
                let got = sorted(d.entries().map(|e| entry_of(&e)).collect());
                drop(d);
                out.rec(&format!("{} => ok {}", lhs, entries_tok(&got)));
                if !all_in_range {
                    out.oracle_fail("C19", "new", &format!("v1-store-with-unreadable-number-accepted spoiled={:?} {}", spoiled, what));
                }
                // complete and exact, record by record for the rows the C library could have written
                for r in rows.iter().filter(|r| well_formed(r)) {
                    let e = record_of(r);
                    let last = want_map.get(&(e.0.clone(), e.1.clone())) == Some(&e);
                    if last && !got.contains(&e) {
                        out.oracle_fail(
                            "C19",
                            "new",
                            &format!("v1-record-missing-or-altered record={} syllables={} got={} {}", v1_tok(r), e.0.len(), entries_tok(&got), what),
                        );
                        break;
                    }
                }
                if all_in_range && got != sorted(want.clone()) {
                    out.oracle_fail("C19", "new", &format!("v1-migrated-rows-differ-from-the-legacy-records want={} got={} {}", entries_tok(&sorted(want.clone())), entries_tok(&got), what));
                }
                if raw_v1(&sq_a).as_ref() != Some(&rows) {
                    out.oracle_fail("C19", "new", &format!("userphrase_v1-table-changed-by-the-migration {}", what));
                }
                // exactly once: learn a new frequency for a migrated record, re-open twice
                let n_v2 = count_rows(&sq_a, "userphrase_v2");
                let mut expect2 = got.clone();
                if let Some(pos) = (!got.is_empty()).then(|| rng.below(got.len() as u64) as usize) {
                    let (syls, phrase, freq, time) = got[pos].clone();
                    if freq < u32::MAX - 8 {
                        let mut d = SqliteDictionary::open(&sq_a).unwrap();
                        let ss: Vec<Syllable> = syls.iter().map(|s| Syllable::try_from(*s).unwrap()).collect();
                        let ph = String::from_utf8(phrase.clone()).unwrap();
                        d.as_dict_mut().unwrap().update_phrase(&ss, Phrase::new(ph.as_str(), freq), freq + 7, time + 1).unwrap();
                        let _ = d.as_dict_mut().unwrap().flush();
                        drop(d);
                        expect2[pos].2 = freq + 7;
                        bump("sqlite_v1_learned_between_opens", 1);
                    }
                }
                for round in 0..2 {
                    match SqliteDictionary::open(&sq_a) {
                        Ok(d) => {
                            let again = sorted(d.entries().map(|e| entry_of(&e)).collect());
                            drop(d);
                            if again != sorted(expect2.clone()) {
                                out.oracle_fail("C19", "new", &format!("v1-store-migrated-again-on-reopen round={} want={} got={} {}", round, entries_tok(&sorted(expect2.clone())), entries_tok(&again), what));
                                break;
                            }
                        }
                        Err(_) => {
                            out.oracle_fail("C19", "new", &format!("migrated-v1-store-cannot-be-reopened {}", what));
                            break;
                        }
                    }
                }
                if count_rows(&sq_a, "userphrase_v2") != n_v2 {
                    out.oracle_fail("C19", "new", &format!("userphrase_v2-grew-on-reopen before={} after={} {}", n_v2, count_rows(&sq_a, "userphrase_v2"), what));
                }
                if raw_v1(&sq_a).as_ref() != Some(&rows) {
                    out.oracle_fail("C19", "new", &format!("userphrase_v1-table-changed-by-a-reopen {}", what));
                }
            }
        }

        // ---- B: the loader's first start over the UNMIGRATED file, second start
        let dat = dir_b.path().join("chewing.dat");
        match UserDictionaryLoader::new().userphrase_path(&dat).load() {
            Err(_) => {
                if all_in_range {
                    out.oracle_fail("C19", "new", &format!("v1-store-not-migrated-by-the-loader {}", what));
                }
            }
            Ok(d) => {
                let es = sorted(d.entries().map(|e| entry_of(&e)).collect());
                drop(d);
                out.rec(&format!("loader sqlstart {} => ok {} {}", entries_tok(&sorted(want.clone())), entries_tok(&es), dat_entries(&dat).map(|a| entries_tok(&sorted(a))).unwrap_or("corrupt".into())));
                if !all_in_range {
                    out.oracle_fail("C19", "new", &format!("loader-accepted-a-v1-store-with-an-unreadable-number {}", what));
                } else if es != sorted(want.clone()) {
                    out.oracle_fail("C19", "new", &format!("first-start-dictionary-differs-from-the-v1-records want={} got={} {}", entries_tok(&sorted(want.clone())), entries_tok(&es), what));
                }
                match UserDictionaryLoader::new().userphrase_path(&dat).load() {
                    Ok(d2) => {
                        let es2 = sorted(d2.entries().map(|e| entry_of(&e)).collect());
                        drop(d2);
                        if es2 != es || dat_entries(&dat).map(sorted) != Some(es.clone()) {
                            out.oracle_fail("C19", "new", &format!("second-start-changed-the-dictionary {}", what));
                        }
                    }
                    Err(_) => out.oracle_fail("C19", "new", &format!("second-start-failed {}", what)),
                }
            }
        }
        if raw_v1(&sq_b).as_ref() != Some(&rows) {
            out.oracle_fail("C19", "new", &format!("userphrase_v1-table-changed-by-the-loader {}", what));
        }
    }

    fn v1_fixed_cases() -> Vec<Vec<V1>> {
        let full = |a: i64, b: i64, phrase: &str, user: i64| {
            let mut phones = [a; 11];
            phones[10] = b;
            V1 { time: 99, user, max: user, orig: 1, length: 11, phones, phrase: phrase.to_string() }
        };
        let mut ten = full(10268, 0, "測試測試測試測試測試", 7);
        ten.length = 10;
        vec![
            // two 11-syllable records that share the first ten syllables and the phrase
            vec![full(10268, 8708, "測試測試測試測試測試冊", 5), full(10268, 10268, "測試測試測試測試測試冊", 6)],
            // a 10-syllable record next to its 11-syllable extension
            vec![ten, full(10268, 8708, "測試測試測試測試測試", 9)],
        ]
    }

    pub fn main() {
        let mut out = Out::new();
        let mut rng = Rng::new(seed_from_env() ^ 0xC19_5);
        let n = if tier_is_thorough() { 300 } else { 40 };
        let mut total = 0usize;
        for i in 0..n {
            let dir = tempfile::tempdir().unwrap();
            let sq = dir.path().join("chewing.sqlite3");
            let mut want: Vec<E> = vec![];
            {
                let mut d = SqliteDictionary::open(&sq).unwrap();
                let mut keys = BTreeSet::new();
                let k = rng.below(if i % 5 == 0 { 30 } else { 6 });
                for _ in 0..k {
                    let len = 1 + rng.below(11) as usize;
                    let syls: Vec<u16> = (0..len).map(|_| *rng.pick(SYLS)).collect();
                    let phrase: String = (0..len).map(|_| *rng.pick(CHARS)).collect();
                    if !keys.insert((syls.clone(), phrase.clone())) {
                        continue;
                    }
                    let orig = rng.below(500) as u32;
                    let user = orig + rng.below(1000) as u32;
                    let time = match rng.below(4) {
                        0 => 0,
                        1 => rng.below(70000),
                        2 => rng.below(1 << 40),
                        _ => rng.below(5000),
                    };
                    let ss: Vec<Syllable> = syls.iter().map(|s| Syllable::try_from(*s).unwrap()).collect();
                    d.as_dict_mut().unwrap().update_phrase(&ss, Phrase::new(phrase.as_str(), orig), user, time).unwrap();
                    want.push((syls, phrase.into_bytes(), user, time));
                }
                let _ = d.as_dict_mut().unwrap().flush();
            }
            total += want.len();
            scenario(&mut out, dir.path(), Some(want), &format!("generated-v2-store-{}", i));
        }
        out.stat("sqlite_v2_stores", n);
        out.stat("sqlite_v2_records", total);
        // ---- generated userphrase_v1-schema stores
        let mut st = std::collections::BTreeMap::new();
        let n1 = if tier_is_thorough() { 600 } else { 60 };
        for i in 0..n1 {
            v1_store(&mut out, &mut rng, i, &mut st);
        }
        for (k, v) in &st {
            out.stat(k, v);
        }
        for (j, rows) in v1_fixed_cases().into_iter().enumerate() {
            let dir = tempfile::tempdir().unwrap();
            let sq = dir.path().join("chewing.sqlite3");
            let rows = write_v1(&sq, &rows, false);
            let want: Vec<E> = rows.iter().map(record_of).collect();
            match SqliteDictionary::open(&sq) {
                Ok(d) => {
                    let got = sorted(d.entries().map(|e| entry_of(&e)).collect());
                    drop(d);
                    out.rec(&format!("loader sqlv1 {} => ok {}", v1_rows_tok(&rows), entries_tok(&got)));
                    if got != sorted(want.clone()) {
                        out.oracle_fail("C19", "new", &format!("v1-record-missing-or-altered fixed-case-{} want={} got={} rows={}", j, entries_tok(&sorted(want.clone())), entries_tok(&got), v1_rows_tok(&rows)));
                    }
                }
                Err(_) => out.oracle_fail("C19", "new", &format!("v1-store-of-readable-rows-rejected fixed-case-{}", j)),
            }
        }
        // the repository's golden files: current schema and the older v1 schema (migrated in-file)
        for g in ["golden-chewing.sqlite3", "golden-chewing-v1.sqlite3"] {
            let src = repo().join("tests/data").join(g);
            if src.exists() {
                let dir = tempfile::tempdir().unwrap();
                std::fs::copy(&src, dir.path().join("chewing.sqlite3")).unwrap();
                let rows = sql_rows(&dir.path().join("chewing.sqlite3")).map(|r| r.len()).unwrap_or(0);
                out.stat(&format!("rows_{}", g.replace('.', "_")), rows);
                if rows == 0 {
                    out.oracle_fail("C19", "new", &format!("golden-store-yields-no-rows {}", g));
                }
                scenario(&mut out, dir.path(), None, g);
            } else {
                out.stat(&format!("missing_{}", g.replace('.', "_")), 1);
            }
        }
        out.flush();
    }
}
