//! C19, SQLite legacy stores (feature `sqlite`): a user directory holding only `chewing.sqlite3`
//! (current schema written through `SqliteDictionary`, and the repository's golden v1-schema file)
//! is migrated into `chewing.dat` by `UserDictionaryLoader::load`.
//!
//!   loader sqlstart <rows> => ok <dict entries> <dat after close>
//!
//! `<rows>` = what `SqliteDictionary::entries()` yields for the legacy file BEFORE the start
//! (`D:`-token, in iteration order); the model imports these rows (`Loader.load true` with
//! `sqlite := some (some rows)`).  ORACLE (C19): the new dictionary holds exactly the generated
//! records (phrase, syllables, user frequency, time); the SQLite store still yields the same rows
//! afterwards; a second start changes nothing.
//! Built without the feature this binary does nothing.
#[cfg(not(feature = "sqlite"))]
fn main() {
    println!("#stat sqlite_feature 0");
}

#[cfg(feature = "sqlite")]
#[path = "../c12_common.rs"]
mod common;

#[cfg(feature = "sqlite")]
fn main() {
    sql::main()
}

#[cfg(feature = "sqlite")]
mod sql {
    use super::common::*;
    use chewing::dictionary::{Dictionary, Phrase, SqliteDictionary, Trie, UserDictionaryLoader};
    use chewing::zhuyin::Syllable;
    use std::collections::BTreeSet;
    use std::path::{Path, PathBuf};
    use vharness::*;

    type E = (Vec<u16>, Vec<u8>, u32, u64);
    const CHARS: &[&str] = &["測", "試", "策", "冊", "新", "酷", "音", "é", "𠀀", "Z", "一"];
    const SYLS: &[u16] = &[10268, 8708, 0x2208, 0x0208, 0x2200, 513, 6664, 8712, 1];

    fn repo() -> PathBuf {
        PathBuf::from(std::env::var("VERIF_REPO").unwrap_or_else(|_| "/repo".to_string()))
    }

    fn sql_rows(p: &Path) -> Option<Vec<E>> {
        let d = SqliteDictionary::open(p).ok()?;
        Some(d.entries().map(|e| entry_of(&e)).collect())
    }

    fn dat_entries(p: &Path) -> Option<Vec<E>> {
        let b = std::fs::read(p).ok()?;
        let t = Trie::new(&b[..]).ok()?;
        Some(t.entries().map(|e| entry_of(&e)).collect())
    }

    fn sorted(mut v: Vec<E>) -> Vec<E> {
        v.sort();
        v
    }

    /// one full scenario on a directory that already holds `chewing.sqlite3`
    fn scenario(out: &mut Out, dir: &Path, want: Option<Vec<E>>, what: &str) {
        let sq = dir.join("chewing.sqlite3");
        let dat = dir.join("chewing.dat");
        let Some(rows) = sql_rows(&sq) else {
            out.oracle_fail("C19", "new", &format!("legacy-sqlite-store-cannot-be-read {}", what));
            return;
        };
        let lhs = format!("loader sqlstart {}", entries_tok(&rows));
        let d = match UserDictionaryLoader::new().userphrase_path(&dat).load() {
            Ok(d) => d,
            Err(e) => {
                out.rec(&format!("{} => err", lhs));
                out.oracle_fail("C19", "new", &format!("sqlite-store-not-migrated {} err={}", what, e.to_string().replace(' ', "_")));
                return;
            }
        };
        let es: Vec<E> = d.entries().map(|e| entry_of(&e)).collect();
        drop(d);
        let after = dat_entries(&dat);
        out.rec(&format!("{} => ok {} {}", lhs, entries_tok(&sorted(es.clone())), after.as_ref().map(|a| entries_tok(&sorted(a.clone()))).unwrap_or("corrupt".into())));
        if let Some(w) = &want {
            if sorted(es.clone()) != sorted(w.clone()) {
                out.oracle_fail("C19", "new", &format!("first-start-dictionary-differs-from-the-legacy-records {} want={} got={}", what, entries_tok(&sorted(w.clone())), entries_tok(&sorted(es.clone()))));
            }
        }
        if sorted(es.clone()) != sorted(rows.clone()) {
            out.oracle_fail("C19", "new", &format!("first-start-dictionary-differs-from-the-sqlite-rows {} rows={} got={}", what, entries_tok(&sorted(rows.clone())), entries_tok(&sorted(es.clone()))));
        }
        if after.as_ref().map(|a| sorted(a.clone())) != Some(sorted(es.clone())) {
            out.oracle_fail("C19", "new", &format!("first-start-file-differs {} ", what));
        }
        match sql_rows(&sq) {
            Some(r2) if sorted(r2.clone()) == sorted(rows.clone()) => {}
            _ => out.oracle_fail("C19", "new", &format!("legacy-sqlite-store-lost-records {}", what)),
        }
        // second start
        match UserDictionaryLoader::new().userphrase_path(&dat).load() {
            Ok(d2) => {
                let es2: Vec<E> = d2.entries().map(|e| entry_of(&e)).collect();
                drop(d2);
                if sorted(es2) != sorted(es.clone()) || dat_entries(&dat).map(sorted) != Some(sorted(es.clone())) {
                    out.oracle_fail("C19", "new", &format!("second-start-changed-the-dictionary {}", what));
                }
            }
            Err(_) => out.oracle_fail("C19", "new", &format!("second-start-failed {}", what)),
        }
    }

    pub fn main() {
        let mut out = Out::new();
        let mut rng = Rng::new(seed_from_env() ^ 0xC19_5);
        let n = if tier_is_thorough() { 300 } else { 40 };
        let mut total = 0usize;
        for i in 0..n {
            let dir = tempfile::tempdir().unwrap();
            let sq = dir.path().join("chewing.sqlite3");
            let mut want: Vec<E> = vec![];
            {
                let mut d = SqliteDictionary::open(&sq).unwrap();
                let mut keys = BTreeSet::new();
                let k = rng.below(if i % 5 == 0 { 30 } else { 6 });
                for _ in 0..k {
                    let len = 1 + rng.below(11) as usize;
                    let syls: Vec<u16> = (0..len).map(|_| *rng.pick(SYLS)).collect();
                    let phrase: String = (0..len).map(|_| *rng.pick(CHARS)).collect();
                    if !keys.insert((syls.clone(), phrase.clone())) {
                        continue;
                    }
                    let orig = rng.below(500) as u32;
                    let user = orig + rng.below(1000) as u32;
                    let time = match rng.below(4) {
                        0 => 0,
                        1 => rng.below(70000),
                        2 => rng.below(1 << 40),
                        _ => rng.below(5000),
                    };
                    let ss: Vec<Syllable> = syls.iter().map(|s| Syllable::try_from(*s).unwrap()).collect();
                    d.as_dict_mut().unwrap().update_phrase(&ss, Phrase::new(phrase.as_str(), orig), user, time).unwrap();
                    want.push((syls, phrase.into_bytes(), user, time));
                }
                let _ = d.as_dict_mut().unwrap().flush();
            }
            total += want.len();
            scenario(&mut out, dir.path(), Some(want), &format!("generated-v2-store-{}", i));
        }
        out.stat("sqlite_v2_stores", n);
        out.stat("sqlite_v2_records", total);
        // the repository's golden files: current schema and the older v1 schema (migrated in-file)
        for g in ["golden-chewing.sqlite3", "golden-chewing-v1.sqlite3"] {
            let src = repo().join("tests/data").join(g);
            if src.exists() {
                let dir = tempfile::tempdir().unwrap();
                std::fs::copy(&src, dir.path().join("chewing.sqlite3")).unwrap();
                let rows = sql_rows(&dir.path().join("chewing.sqlite3")).map(|r| r.len()).unwrap_or(0);
                out.stat(&format!("rows_{}", g.replace('.', "_")), rows);
                if rows == 0 {
                    out.oracle_fail("C19", "new", &format!("golden-store-yields-no-rows {}", g));
                }
                scenario(&mut out, dir.path(), None, g);
            } else {
                out.stat(&format!("missing_{}", g.replace('.', "_")), 1);
            }
        }
        out.flush();
    }
}
