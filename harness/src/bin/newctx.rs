// probe (temporary)
use std::ffi::CString;
use std::os::unix::ffi::OsStrExt;
fn main() {
    let a: Vec<String> = std::env::args().collect();
    let which: u32 = a[1].parse().unwrap();
    let dir = tempfile::tempdir().unwrap();
    let d = dir.path();
    let mem = CString::new(":memory:").unwrap();
    use chewing_capi::{input::*, setup::*, candidates::*};
    match which {
        1 => {
            let mut p = d.as_os_str().as_bytes().to_vec();
            p.extend_from_slice(b"/\xff\xfe");
            let sys = CString::new(p).unwrap();
            let c = unsafe { chewing_new2(sys.as_ptr(), mem.as_ptr(), None, std::ptr::null_mut()) };
            println!("1 null={}", c.is_null());
        }
        2 => {
            std::fs::write(d.join("swkb.dat"), b"a apple\nnospace\n").unwrap();
            let sys = CString::new(d.as_os_str().as_bytes()).unwrap();
            let c = unsafe { chewing_new2(sys.as_ptr(), mem.as_ptr(), None, std::ptr::null_mut()) };
            println!("2 null={}", c.is_null());
        }
        3 => {
            let sys = CString::new(d.as_os_str().as_bytes()).unwrap();
            let u = CString::new("").unwrap();
            let c = unsafe { chewing_new2(sys.as_ptr(), u.as_ptr(), None, std::ptr::null_mut()) };
            println!("3 null={}", c.is_null());
        }
        4 => {
            std::fs::write(d.join("symbols.dat"), "\n…\n常用=，、\n").unwrap();
            let sys = CString::new(d.as_os_str().as_bytes()).unwrap();
            let c = unsafe { chewing_new2(sys.as_ptr(), mem.as_ptr(), None, std::ptr::null_mut()) };
            println!("4 null={}", c.is_null());
            unsafe {
                chewing_handle_Default(c, '`' as i32);
                println!("4 total choice {}", chewing_cand_TotalChoice(c));
                chewing_cand_choose_by_index(c, 0);
                println!("4 survived");
            }
        }
        5 => {
            std::fs::write(d.join("swkb.dat"), b" x\n").unwrap();
            let sys = CString::new(d.as_os_str().as_bytes()).unwrap();
            let c = unsafe { chewing_new2(sys.as_ptr(), mem.as_ptr(), None, std::ptr::null_mut()) };
            println!("5 null={}", c.is_null());
        }
        6 => {
            let sys = CString::new(d.as_os_str().as_bytes()).unwrap();
            let mut p = d.as_os_str().as_bytes().to_vec();
            p.extend_from_slice(b"/\xff\xfe/chewing.dat");
            let u = CString::new(p).unwrap();
            let c = unsafe { chewing_new2(sys.as_ptr(), u.as_ptr(), None, std::ptr::null_mut()) };
            println!("6 null={}", c.is_null());
        }
        _ => {}
    }
}
