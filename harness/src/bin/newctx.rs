//! Context creation and the system-side loaders (C12 creation clause, C17 locality of creation).
//!
//! Generated directory trees in a temp dir -> the REAL `SystemDictionaryLoader::{load, load_drop_in, load_abbrev,
//! load_symbol_selector}` (public Rust API), `AbbrevTable::open`, `SymbolSelector::new` and `chewing_new2` / `chewing_new`
//! (C API) -> `sysl …` transcript records the Lean model (`Driver/SysLoader.lean`) recomputes, plus oracle verdicts.
//!
//! Everything that touches the file system, the environment or the current directory runs in a WORKER process
//! (`--worker <from>`): a panic inside `extern "C"` aborts, a relative search-path segment is resolved against the
//! current directory, `chewing_new()` reads the environment.  The parent supervises: watchdog, restart after an abort.
//!
//! Paths in the records are symbolic: the temp dir is written `/R`.  A trie file is `[accept, id]` for the model
//! (accept = what the real `Trie::open` said about the file), a user dictionary `[accept]`, text files are their bytes.
use std::collections::BTreeMap;
use std::ffi::CString;
use std::io::{BufRead, BufReader, Write};
use std::os::unix::ffi::OsStrExt;
use std::os::unix::fs::PermissionsExt;
use std::path::{Path, PathBuf};
use std::process::{Command, Stdio};
use std::sync::mpsc;
use std::time::Duration;

use chewing::conversion::ChewingEngine;
use chewing::dictionary::{
    Dictionary, DictionaryBuilder, DictionaryInfo, Layered, SystemDictionaryLoader, Trie, TrieBuf, TrieBuilder,
};
use chewing::editor::{AbbrevTable, Editor, LaxUserFreqEstimate, SymbolSelector};
use chewing::zhuyin::Syllable;
use vharness::{hbytes, hx, seed_from_env, tier_is_thorough, Out, Rng};

const MARK_SYL: u16 = 10268; // ㄘㄜˋ, typed `hk4` on the default layout
const MARK_BASE: u32 = 0x4E00; // marker phrase of dictionary k = the character U+4E00+k (never 測 U+6E2C)

fn marker(k: u32) -> char {
    char::from_u32(MARK_BASE + k).unwrap()
}

#[derive(Clone, Debug)]
enum Node {
    Dir,
    /// real bytes, model bytes (None = same), read-only
    File(Vec<u8>, Option<Vec<u8>>, bool),
}

#[derive(Clone, Debug)]
struct Case {
    /// path relative to the root -> node
    nodes: BTreeMap<String, Node>,
    /// directory (relative to the root) the worker runs in
    cwd: String,
    /// search path with the symbolic root
    sp: String,
    sys_null: bool,
    sys_not_utf8: bool,
    /// symbolic user path; `None` = NULL, `Some(Err)` = not UTF-8
    user: Option<Result<String, ()>>,
    user_kind: &'static str,
    env: [Option<String>; 4], // CHEWING_PATH, CHEWING_USER_PATH, XDG_DATA_HOME, HOME (symbolic)
    /// trie ids in the tree: id -> relative path
    tries: Vec<(u32, String)>,
}

fn valid_trie_bytes(k: u32) -> Vec<u8> {
    let mut b = TrieBuilder::new();
    b.set_info(DictionaryInfo { name: format!("m{}", k), ..Default::default() }).unwrap();
    b.insert(&[Syllable::try_from(MARK_SYL).unwrap()], (marker(k).to_string().as_str(), 1u32).into()).unwrap();
    let mut v = Vec::new();
    b.write(&mut v).unwrap();
    v
}

fn corrupt_bytes(rng: &mut Rng, k: u32) -> Vec<u8> {
    match rng.below(4) {
        0 => vec![],
        1 => b"not a dictionary".to_vec(),
        2 => {
            let mut v = valid_trie_bytes(k);
            let n = v.len();
            v.truncate(n / 2);
            v
        }
        _ => {
            let mut v = valid_trie_bytes(k);
            v[0] ^= 0xff;
            v
        }
    }
}

fn gen_text(rng: &mut Rng, abbrev: bool) -> Vec<u8> {
    let sep = if abbrev { ' ' } else { '=' };
    let mut out = Vec::new();
    let lines = rng.below(6);
    for _ in 0..lines {
        // kinds 12..15 (round 3, after the seeded change C12-abbrev-multibyte-blank-slices-inside-char): blanks other than
        // the ASCII space — ideographic space, no-break space, NEL, tab — before / instead of the separator
        let kind = rng.below(16);
        let blank = *rng.pick(&['\u{3000}', '\u{a0}', '\u{85}', '\t', '\u{2003}']);
        let heads = ["a", "b", "ab", "常用", "…", "Z", "a"];
        let tails = ["apple", "，、。", "x y", "", "=", " ", "q=r"];
        let line: Vec<u8> = match kind {
            0 => vec![],                                                   // blank line
            1 => rng.pick(&heads).as_bytes().to_vec(),                     // no separator
            2 => format!("{}{}", sep, rng.pick(&tails)).into_bytes(),      // nothing in front of the separator
            3 => vec![0xff, b'a', sep as u8, b'x'],                        // not UTF-8
            4 => vec![0xe4, 0xb8],                                         // truncated UTF-8
            5 => format!("{}{}{}{}", rng.pick(&heads), sep, rng.pick(&tails), sep).into_bytes(),
            12 => format!("{}{}{}", rng.pick(&heads), blank, rng.pick(&tails)).into_bytes(),
            13 => format!("{}{}{}{}", rng.pick(&heads), blank, sep, rng.pick(&tails)).into_bytes(),
            14 => format!("{}{}{}{}", rng.pick(&heads), sep, blank, rng.pick(&tails)).into_bytes(),
            15 => format!("{}{}", blank, rng.pick(&tails)).into_bytes(),
            _ => format!("{}{}{}", rng.pick(&heads), sep, rng.pick(&tails)).into_bytes(),
        };
        out.extend(line);
        match rng.below(8) {
            0 => out.extend(b"\r\n"),
            1 => out.extend(b"\r"),
            2 => {}
            _ => out.push(b'\n'),
        }
    }
    out
}

fn gen_case(rng: &mut Rng, idx: usize) -> Case {
    let mut nodes: BTreeMap<String, Node> = BTreeMap::new();
    let mut tries = vec![];
    let mut next_id = 1u32;
    let mut put_trie = |nodes: &mut BTreeMap<String, Node>, rng: &mut Rng, path: String, p_valid: u64| {
        let k = next_id;
        next_id += 1;
        match rng.below(100) {
            x if x < p_valid => nodes.insert(path.clone(), Node::File(valid_trie_bytes(k), None, false)),
            x if x < p_valid + 8 => nodes.insert(path.clone(), Node::Dir),
            _ => nodes.insert(path.clone(), Node::File(corrupt_bytes(rng, k), None, false)),
        };
        tries.push((k, path));
    };
    let dirs = ["A", "B", "C", "W", "Z"];
    for d in dirs {
        nodes.insert(d.to_string(), Node::Dir);
        let full = d == "Z";
        // the dictionary pair
        let pair = rng.below(10);
        if full || pair < 5 {
            put_trie(&mut nodes, rng, format!("{}/word.dat", d), if full { 100 } else { 80 });
            put_trie(&mut nodes, rng, format!("{}/tsi.dat", d), if full { 100 } else { 80 });
        } else if pair < 7 {
            let f = if rng.chance(1, 2) { "word.dat" } else { "tsi.dat" };
            put_trie(&mut nodes, rng, format!("{}/{}", d, f), 90);
        }
        for (f, ab) in [("swkb.dat", true), ("symbols.dat", false)] {
            match rng.below(10) {
                0..=2 if !full => {}
                3 if !full => {
                    nodes.insert(format!("{}/{}", d, f), Node::Dir);
                }
                _ => {
                    nodes.insert(format!("{}/{}", d, f), Node::File(gen_text(rng, ab), None, false));
                }
            }
        }
        match rng.below(12) {
            0..=1 if !full => {}
            2 if !full => {
                nodes.insert(format!("{}/dictionary.d", d), Node::File(b"x".to_vec(), None, false));
            }
            _ => {
                nodes.insert(format!("{}/dictionary.d", d), Node::Dir);
                let pool = ["a.dat", "b.dat", "Z.dat", "é.dat", "10.dat", "9.dat", ".dat", "c.txt", "e.DAT", "f.dat.bak", "g", "a.b.dat", "~.dat"];
                let n = rng.below(7);
                for _ in 0..n {
                    let name = *rng.pick(&pool);
                    let path = format!("{}/dictionary.d/{}", d, name);
                    if nodes.contains_key(&path) {
                        continue;
                    }
                    put_trie(&mut nodes, rng, path, 70);
                }
            }
        }
    }
    // search path
    let nseg = 1 + rng.below(4) + rng.below(2);
    let mut segs = vec![];
    for _ in 0..nseg {
        segs.push(match rng.below(10) {
            0 | 1 => String::new(),
            2 => "/R/missing".to_string(),
            3 => format!("/R/{}/", rng.pick(&["A", "B", "C"])),
            4 => "/R/W".to_string(),
            _ => format!("/R/{}", rng.pick(&["A", "B", "C"])),
        });
    }
    let sp = segs.join(":");
    // user side
    nodes.insert("U".into(), Node::Dir);
    let mut env: [Option<String>; 4] = [None, None, None, Some("/R/H".into())];
    nodes.insert("H".into(), Node::Dir);
    let (user, user_kind): (Option<Result<String, ()>>, &'static str) = match rng.below(16) {
        0 => (Some(Ok(":memory:".into())), "memory"),
        1 => (Some(Ok("/R/U/:memory:".into())), "memory"),
        2 => (Some(Ok("/R/U/new/sub/chewing.dat".into())), "fresh"),
        3 => (Some(Ok("/R/U/CHEWING.DAT".into())), "fresh"),
        4 => {
            nodes.insert("U/chewing.dat".into(), Node::File(valid_trie_bytes(0), Some(vec![1]), false));
            (Some(Ok("/R/U/chewing.dat".into())), "valid")
        }
        5 => {
            nodes.insert("U/chewing.dat".into(), Node::File(corrupt_bytes(rng, 0), Some(vec![0]), false));
            (Some(Ok("/R/U/chewing.dat".into())), "corrupt")
        }
        6 => (Some(Ok(rng.pick(&["/R/U/user.txt", "/R/U/noext", "/R/U/chewing.sqlite3", "x:memory:"]).to_string())), "badext"),
        7 => (Some(Ok(String::new())), "empty"),
        8 => (Some(Err(())), "notutf8"),
        9 => {
            nodes.insert("U/d.dat".into(), Node::Dir);
            (Some(Ok("/R/U/d.dat".into())), "isdir")
        }
        10 => {
            nodes.insert("U/ro.dat".into(), Node::File(valid_trie_bytes(0), Some(vec![1]), true));
            (Some(Ok("/R/U/ro.dat".into())), "readonly")
        }
        11 => {
            // NULL: CHEWING_USER_PATH
            env[1] = Some("/R/U".into());
            if rng.chance(1, 2) {
                nodes.insert("U/chewing.dat".into(), Node::File(corrupt_bytes(rng, 0), Some(vec![0]), false));
                (None, "null-corrupt")
            } else {
                (None, "null-fresh")
            }
        }
        12 => {
            // NULL: $HOME/.chewing legacy directory, or XDG, or $HOME/.local/share/chewing
            match rng.below(3) {
                0 => {
                    nodes.insert("H/.chewing".into(), Node::Dir);
                }
                1 => env[2] = Some("/R/X".into()),
                _ => {}
            }
            (None, "null-fresh")
        }
        _ => (Some(Ok(":memory:".into())), "memory"),
    };
    let (sys_null, sys_not_utf8) = match rng.below(14) {
        0 => {
            env[0] = Some(sp.clone());
            (true, false)
        }
        1 => (true, false), // default: <data_dir>:/usr/share/libchewing
        2 => (false, true),
        _ => (false, false),
    };
    if (sys_null && env[0].is_none() && rng.chance(1, 2)) || rng.chance(1, 5) {
        // give the default data directory a dictionary pair (also when an explicit syspath is passed: it must not be read then)
        let dd = if let Some(u) = &env[1] { u.trim_start_matches("/R/").to_string() } else if nodes.contains_key("H/.chewing") { "H/.chewing".into() } else if env[2].is_some() { "X/chewing".into() } else { "H/.local/share/chewing".into() };
        let mut acc = String::new();
        for part in dd.split('/') {
            if !acc.is_empty() {
                acc.push('/');
            }
            acc.push_str(part);
            nodes.entry(acc.clone()).or_insert(Node::Dir);
        }
        put_trie(&mut nodes, rng, format!("{}/word.dat", dd), 90);
        put_trie(&mut nodes, rng, format!("{}/tsi.dat", dd), 90);
        if rng.chance(1, 2) {
            nodes.insert(format!("{}/dictionary.d", dd), Node::Dir);
            put_trie(&mut nodes, rng, format!("{}/dictionary.d/h.dat", dd), 90);
        }
    }
    let _ = idx;
    Case { nodes, cwd: "W".into(), sp, sys_null, sys_not_utf8, user, user_kind, env, tries }
}

fn cases(seed: u64, thorough: bool) -> Vec<Case> {
    let mut rng = Rng::new(seed ^ 0x5E5C);
    let n = if thorough { 12000 } else { 900 };
    (0..n).map(|i| gen_case(&mut rng, i)).collect()
}

// ------------------------------------------------------------------ materialise + describe

fn real(root: &Path, sym: &str) -> Vec<u8> {
    // symbolic -> real path string: `/R` at the start of a `:`-separated piece becomes the temp dir (plain prefix
    // substitution: the code under test only does string operations on these paths)
    let r = root.as_os_str().as_bytes();
    let mut out = Vec::new();
    for (k, seg) in sym.split(':').enumerate() {
        if k > 0 {
            out.push(b':');
        }
        if seg == "/R" || seg.starts_with("/R/") {
            out.extend(r);
            out.extend(seg[2..].as_bytes());
        } else {
            out.extend(seg.as_bytes());
        }
    }
    out
}

fn materialise(root: &Path, c: &Case) {
    for (p, n) in &c.nodes {
        let path = root.join(p);
        match n {
            Node::Dir => std::fs::create_dir_all(&path).unwrap(),
            Node::File(b, _, ro) => {
                std::fs::create_dir_all(path.parent().unwrap()).unwrap();
                std::fs::write(&path, b).unwrap();
                if *ro {
                    std::fs::set_permissions(&path, std::fs::Permissions::from_mode(0o444)).unwrap();
                }
            }
        }
    }
}

/// `S:` token; `accept` = what the real `Trie::open` says about each trie file of the tree
fn describe(c: &Case, accept: &BTreeMap<String, bool>) -> String {
    let id_of: BTreeMap<&str, u32> = c.tries.iter().map(|(k, p)| (p.as_str(), *k)).collect();
    let mut ents = vec![];
    for (p, n) in &c.nodes {
        let node = match n {
            Node::Dir => {
                let prefix = format!("{}/", p);
                let mut names: Vec<&str> = c.nodes.keys().filter(|q| q.starts_with(&prefix) && !q[prefix.len()..].contains('/')).map(|q| &q[prefix.len()..]).collect();
                names.reverse(); // the listing order is not the sorted one
                format!("D{}", names.iter().map(|n| hx(n)).collect::<Vec<_>>().join(","))
            }
            Node::File(b, model, ro) => {
                let mb: Vec<u8> = if let Some(m) = model {
                    m.clone()
                } else if let Some(k) = id_of.get(p.as_str()) {
                    vec![*accept.get(p).unwrap_or(&false) as u8, *k as u8]
                } else {
                    b.clone()
                };
                format!("F{}{}", *ro as u8, hbytes(&mb))
            }
        };
        ents.push(format!("{}={}", hx(&format!("/R/{}", p)), node));
        let cw = format!("{}/", c.cwd);
        if p.starts_with(&cw) {
            ents.push(format!("{}={}", hx(&p[cw.len()..]), node));
        }
    }
    format!("S:{}", ents.join(";"))
}

fn env_token(c: &Case) -> String {
    format!("E:{}", c.env.iter().map(|e| e.as_ref().map(|s| hx(s)).unwrap_or("-".into())).collect::<Vec<_>>().join(","))
}

// ------------------------------------------------------------------ expected results (oracle, independent of the model)

struct Expect {
    pair: Result<Vec<u32>, &'static str>,
    dropins: Vec<u32>,
    null: bool,
}

fn sym_lookup<'a>(c: &'a Case, p: &str) -> Option<&'a Node> {
    if let Some(rel) = p.strip_prefix("/R/") {
        c.nodes.get(rel.trim_end_matches('/'))
    } else if p.starts_with('/') {
        None
    } else {
        c.nodes.get(&format!("{}/{}", c.cwd, p))
    }
}

fn jn(seg: &str, f: &str) -> String {
    if seg.is_empty() {
        f.to_string()
    } else if seg.ends_with('/') {
        format!("{}{}", seg, f)
    } else {
        format!("{}/{}", seg, f)
    }
}

fn expect(c: &Case, sp: &str, accept: &BTreeMap<String, bool>) -> Expect {
    let id_of: BTreeMap<String, u32> = c.tries.iter().map(|(k, p)| (p.clone(), *k)).collect();
    let rel = |p: &str| -> String {
        if let Some(r) = p.strip_prefix("/R/") { r.to_string() } else { format!("{}/{}", c.cwd, p) }
    };
    let open = |p: &str| -> Option<u32> {
        match sym_lookup(c, p) {
            Some(Node::File(..)) => {
                let r = rel(p);
                if *accept.get(&r).unwrap_or(&false) { id_of.get(&r).copied() } else { None }
            }
            _ => None,
        }
    };
    let mut pair = Err("notfound");
    for seg in sp.split(':') {
        if sym_lookup(c, &jn(seg, "word.dat")).is_some() && sym_lookup(c, &jn(seg, "tsi.dat")).is_some() {
            pair = match (open(&jn(seg, "word.dat")), open(&jn(seg, "tsi.dat"))) {
                (Some(w), Some(t)) => Ok(vec![w, t]),
                _ => Err("io"),
            };
            break;
        }
    }
    let mut dropins = vec![];
    for seg in sp.split(':') {
        let dd = jn(seg, "dictionary.d");
        if let Some(Node::Dir) = sym_lookup(c, &dd) {
            let r = rel(&dd);
            let prefix = format!("{}/", r);
            let mut names: Vec<String> = c.nodes.iter().filter(|(q, n)| q.starts_with(&prefix) && !q[prefix.len()..].contains('/') && matches!(n, Node::File(..)))
                .map(|(q, _)| q[prefix.len()..].to_string())
                .filter(|n| n.len() > 4 && n.ends_with(".dat"))
                .collect();
            names.sort_by(|a, b| a.as_bytes().cmp(b.as_bytes()));
            for n in names {
                if let Some(k) = open(&jn(&dd, &n)) {
                    dropins.push(k);
                }
            }
        }
    }
    let null = c.sys_not_utf8 || matches!(c.user_kind, "corrupt" | "badext" | "empty" | "notutf8" | "isdir" | "readonly" | "null-corrupt");
    Expect { pair, dropins, null }
}

/// ids (of `toks`, comma separated, `B` / `-` ignored) whose file does not lie under any segment of `sp`: C17, a creation
/// reads nothing outside ITS arguments
fn outside_reach(c: &Case, sp: &str, toks: &str) -> Vec<String> {
    let prefixes: Vec<String> = sp.split(':').filter_map(|seg| {
        if seg.is_empty() { Some(format!("{}/", c.cwd)) } else { seg.strip_prefix("/R/").map(|r| format!("{}/", r.trim_end_matches('/'))) }
    }).collect();
    let mut bad = vec![];
    for t in toks.split(',') {
        if let Ok(k) = t.parse::<u32>() {
            if let Some((_, p)) = c.tries.iter().find(|(id, _)| *id == k) {
                if !prefixes.iter().any(|pre| p.starts_with(pre)) {
                    bad.push(format!("{}@{}", k, p));
                }
            }
        }
    }
    bad
}

/// the search path `chewing_new()` / `chewing_new2(NULL, …)` uses (symbolic), None when it leaves the temp dir
fn effective_sp(c: &Case) -> String {
    if !c.sys_null {
        return c.sp.clone();
    }
    if let Some(p) = &c.env[0] {
        return p.clone();
    }
    let dd = if let Some(u) = &c.env[1] { u.clone() } else if c.nodes.contains_key("H/.chewing") { "/R/H/.chewing".into() } else if let Some(x) = &c.env[2] { format!("{}/chewing", x) } else { "/R/H/.local/share/chewing".into() };
    format!("{}:/usr/share/libchewing", dd)
}

// ------------------------------------------------------------------ observations

fn ids_of(dicts: &[Box<dyn Dictionary>]) -> String {
    if dicts.is_empty() {
        return "-".into();
    }
    dicts.iter().map(|d| d.about().name.trim_start_matches('m').to_string()).collect::<Vec<_>>().join(",")
}

fn probes_of(bytes_list: &[&[u8]]) -> Vec<char> {
    let mut v: Vec<char> = vec!['a', 'b', ' ', 'Z', '=', '常'];
    for b in bytes_list {
        for l in String::from_utf8_lossy(b).lines() {
            if let Some(ch) = l.chars().next() {
                if !v.contains(&ch) && ch != '\u{fffd}' {
                    v.push(ch);
                }
            }
        }
    }
    v
}

fn abbrev_obs(t: &AbbrevTable, probes: &[char]) -> String {
    format!("ok {}", probes.iter().map(|c| format!("{}={}", *c as u32, t.find_abbrev(*c).map(|s| hx(s)).unwrap_or("-".into()))).collect::<Vec<_>>().join(","))
}

/// the fields of a SymbolSelector through `Editor::verif_snapshot` (hook H1): section 3 = engine, categories, tables, cursor
fn symbols_obs(sel: SymbolSelector) -> String {
    let dict = Layered::new(vec![], Box::new(TrieBuf::new_in_memory()));
    let ed = Editor::new(Box::new(ChewingEngine::new()), dict, LaxUserFreqEstimate::new(0), AbbrevTable::new(), sel);
    let snap = ed.verif_snapshot();
    let secs: Vec<&str> = snap.split(" ; ").collect();
    let toks: Vec<&str> = secs[3].split(' ').collect();
    // drop the engine token in front and the cursor token at the end
    format!("ok {}", toks[1..toks.len() - 1].join(" "))
}

fn load_err(e: &chewing::dictionary::LoadDictionaryError) -> &'static str {
    match e {
        chewing::dictionary::LoadDictionaryError::NotFound => "notfound",
        chewing::dictionary::LoadDictionaryError::IoError(_) => "io",
    }
}

fn guarded<F: FnOnce() -> String + std::panic::UnwindSafe>(f: F) -> String {
    std::panic::catch_unwind(f).unwrap_or_else(|_| "panic".into())
}

fn say(s: &str) {
    let so = std::io::stdout();
    let mut l = so.lock();
    writeln!(l, "{}", s).unwrap();
    l.flush().unwrap();
}

fn worker(seed: u64, thorough: bool, from: usize) {
    use chewing_capi::{candidates::*, input::*, setup::*};
    std::panic::set_hook(Box::new(|_| {}));
    let all = cases(seed, thorough);
    for (i, c) in all.iter().enumerate().skip(from) {
        let dir = tempfile::tempdir().unwrap();
        let root = dir.path().canonicalize().unwrap();
        materialise(&root, c);
        std::env::set_current_dir(root.join(&c.cwd)).unwrap();
        let mut accept = BTreeMap::new();
        for (_, p) in &c.tries {
            accept.insert(p.clone(), Trie::open(root.join(p)).is_ok());
        }
        let fs = describe(c, &accept);
        say(&format!("@begin {}", i));
        // ---- Rust API over the explicit search path
        let sp_real = String::from_utf8(real(&root, &c.sp)).unwrap();
        let ex = expect(c, &c.sp, &accept);
        let loader = || SystemDictionaryLoader::new().sys_path(sp_real.clone());
        let o = guarded(|| match loader().load() { Ok(d) => format!("ok {}", ids_of(&d)), Err(e) => load_err(&e).into() });
        say(&format!("sysl load {} {} => {}", fs, hx(&c.sp), o));
        let want = match &ex.pair { Ok(v) => format!("ok {},{}", v[0], v[1]), Err(e) => e.to_string() };
        if o != want {
            say(&format!("!oracle C12 new system-dictionary-pair case={} sp={} observed={} expected={} (first segment holding BOTH word.dat and tsi.dat; an unreadable file is an error) tree={}", i, hx(&c.sp), o.replace(' ', "_"), want.replace(' ', "_"), fs));
        }
        let bad = outside_reach(c, &c.sp, o.trim_start_matches("ok "));
        if !bad.is_empty() {
            say(&format!("!oracle C17 new loader-read-outside-its-search-path case={} sp={} files={} tree={}", i, hx(&c.sp), bad.join(","), fs));
        }
        let o = guarded(|| match loader().load_drop_in() { Ok(d) => ids_of(&d), Err(e) => load_err(&e).into() });
        say(&format!("sysl dropin {} {} => {}", fs, hx(&c.sp), o));
        let bad = outside_reach(c, &c.sp, &o);
        if !bad.is_empty() {
            say(&format!("!oracle C17 new loader-read-outside-its-search-path case={} sp={} files={} tree={}", i, hx(&c.sp), bad.join(","), fs));
        }
        let want = if ex.dropins.is_empty() { "-".to_string() } else { ex.dropins.iter().map(|k| k.to_string()).collect::<Vec<_>>().join(",") };
        if o != want {
            say(&format!("!oracle C12 new drop-in-order-or-skip case={} sp={} observed={} expected={} (segments in search order, names in byte order, a file that does not open is skipped) tree={}", i, hx(&c.sp), o, want, fs));
        }
        let texts: Vec<&[u8]> = c.nodes.iter().filter(|(p, _)| p.ends_with("swkb.dat")).filter_map(|(_, n)| if let Node::File(b, _, _) = n { Some(&b[..]) } else { None }).collect();
        let probes = probes_of(&texts);
        let ptok = probes.iter().map(|c| (*c as u32).to_string()).collect::<Vec<_>>().join(",");
        let o = guarded(|| match loader().load_abbrev() { Ok(t) => abbrev_obs(&t, &probes), Err(e) => load_err(&e).into() });
        if o == "panic" {
            say(&format!("!oracle C12 new swkb.dat-parser-panicked case={} sp={} tree={}", i, hx(&c.sp), fs));
        }
        say(&format!("sysl abbrev {} {} {} => {}", fs, hx(&c.sp), ptok, o));
        let o = guarded(|| match loader().load_symbol_selector() { Ok(s) => symbols_obs(s), Err(e) => load_err(&e).into() });
        if o == "panic" {
            say(&format!("!oracle C12 new symbols.dat-parser-panicked case={} sp={} tree={}", i, hx(&c.sp), fs));
        }
        say(&format!("sysl symbols {} {} => {}", fs, hx(&c.sp), o));
        // C17: writing OUTSIDE the searched directories changes nothing (Z is never on the path; a new directory Y)
        {
            let before = guarded(|| format!("{:?} / {:?}", loader().load().map(|d| ids_of(&d)).map_err(|e| load_err(&e)), loader().load_drop_in().map(|d| ids_of(&d)).map_err(|e| load_err(&e))));
            std::fs::create_dir_all(root.join("Y/dictionary.d")).unwrap();
            for f in ["Y/word.dat", "Y/tsi.dat", "Y/dictionary.d/a.dat", "Z/dictionary.d/zz.dat"] {
                let _ = std::fs::write(root.join(f), valid_trie_bytes(199));
            }
            let _ = std::fs::write(root.join("Z/symbols.dat"), "Q=q\n");
            let after = guarded(|| format!("{:?} / {:?}", loader().load().map(|d| ids_of(&d)).map_err(|e| load_err(&e)), loader().load_drop_in().map(|d| ids_of(&d)).map_err(|e| load_err(&e))));
            if before != after {
                say(&format!("!oracle C17 new creation-not-local case={} sp={} before={} after={} (files written outside the search path changed the result) tree={}", i, hx(&c.sp), before.replace(' ', "_"), after.replace(' ', "_"), fs));
            }
            let _ = std::fs::remove_dir_all(root.join("Y"));
            let _ = std::fs::remove_file(root.join("Z/dictionary.d/zz.dat"));
            let _ = std::fs::write(root.join("Z/symbols.dat"), match c.nodes.get("Z/symbols.dat") { Some(Node::File(b, _, _)) => b.clone(), _ => vec![] });
        }
        // ---- C API
        for (k, name) in ["CHEWING_PATH", "CHEWING_USER_PATH", "XDG_DATA_HOME", "HOME"].iter().enumerate() {
            match &c.env[k] {
                Some(v) => std::env::set_var(name, std::ffi::OsStr::from_bytes(&real(&root, v))),
                None => std::env::remove_var(name),
            }
        }
        let esp = effective_sp(c);
        let skip_default = c.sys_null && c.env[0].is_none() && Path::new("/usr/share/libchewing").exists();
        if !skip_default {
            let ex = expect(c, &esp, &accept);
            let sys_tok = if c.sys_null { "-".to_string() } else if c.sys_not_utf8 { "N".into() } else { hx(&c.sp) };
            let user_tok = match &c.user { None => "-".to_string(), Some(Err(())) => "N".into(), Some(Ok(p)) => hx(p) };
            let lhs = format!("sysl new2 {} {} {} {}", fs, env_token(c), sys_tok, user_tok);
            say(&format!("@pending {} kind={} {}", i, c.user_kind, lhs));
            let sys_c = if c.sys_not_utf8 {
                let mut p = root.as_os_str().as_bytes().to_vec();
                p.extend_from_slice(b"/\xff\xfe");
                Some(CString::new(p).unwrap())
            } else if c.sys_null { None } else { Some(CString::new(real(&root, &c.sp)).unwrap()) };
            let user_c = match &c.user {
                None => None,
                Some(Err(())) => {
                    let mut p = root.as_os_str().as_bytes().to_vec();
                    p.extend_from_slice(b"/U/\xff\xfe/chewing.dat");
                    Some(CString::new(p).unwrap())
                }
                Some(Ok(p)) => Some(CString::new(real(&root, p)).unwrap()),
            };
            let ctx = unsafe {
                if sys_c.is_none() && user_c.is_none() {
                    chewing_new()
                } else {
                    chewing_new2(sys_c.as_ref().map(|s| s.as_ptr()).unwrap_or(std::ptr::null()), user_c.as_ref().map(|s| s.as_ptr()).unwrap_or(std::ptr::null()), None, std::ptr::null_mut())
                }
            };
            let obs = if ctx.is_null() {
                "null".to_string()
            } else {
                let list = |ctx| unsafe {
                    let mut v = vec![];
                    chewing_cand_Enumerate(ctx);
                    while chewing_cand_hasNext(ctx) != 0 {
                        let s = chewing_cand_String(ctx);
                        v.push(std::ffi::CStr::from_ptr(s).to_string_lossy().into_owned());
                        chewing_free(s.cast());
                    }
                    v
                };
                let (cands, menu) = unsafe {
                    for k in "hk4".bytes() {
                        chewing_handle_Default(ctx, k as i32);
                    }
                    chewing_cand_open(ctx);
                    let cands = list(ctx);
                    chewing_cand_close(ctx);
                    chewing_handle_Esc(ctx);
                    chewing_Reset(ctx);
                    chewing_handle_Default(ctx, '`' as i32);
                    let menu = list(ctx);
                    chewing_delete(ctx);
                    (cands, menu)
                };
                let mut ids: Vec<u32> = vec![];
                let mut builtin = false;
                for s in &cands {
                    let ch = s.chars().next().unwrap_or(' ') as u32;
                    if s.chars().count() == 1 && ch == MARK_BASE {
                        continue; // the marker of the generated USER dictionary
                    }
                    if s.chars().count() == 1 && ch > MARK_BASE && ch < MARK_BASE + 200 && c.tries.iter().any(|(k, _)| *k == ch - MARK_BASE) {
                        ids.push(ch - MARK_BASE);
                    } else {
                        builtin = true;
                    }
                }
                ids.sort();
                let mut toks: Vec<String> = vec![];
                if builtin {
                    toks.push("B".into());
                }
                toks.extend(ids.iter().map(|k| k.to_string()));
                format!("ok {} {}", if toks.is_empty() { "-".into() } else { toks.join(",") }, if menu.is_empty() { "-".into() } else { menu.iter().map(|m| hx(m)).collect::<Vec<_>>().join(",") })
            };
            say(&format!("{} => {}", lhs, obs));
            // oracle: NULL exactly when a path argument is not UTF-8 or the user dictionary cannot be loaded
            if (obs == "null") != ex.null {
                say(&format!("!oracle C12 new creation-null-mismatch case={} user-kind={} sys-not-utf8={} observed={} expected-null={} record={}", i, c.user_kind, c.sys_not_utf8, obs.split(' ').next().unwrap(), ex.null, lhs));
            }
            if obs.starts_with("ok ") {
                let bad = outside_reach(c, &esp, obs.split(' ').nth(1).unwrap());
                if !bad.is_empty() {
                    say(&format!("!oracle C17 new creation-read-outside-its-arguments case={} search-path={} files={} record={}", i, hx(&esp), bad.join(","), lhs));
                }
            }
            if obs != "null" && !ex.null {
                let mut want: Vec<u32> = match &ex.pair { Ok(v) => v.clone(), Err(_) => vec![] };
                want.extend(ex.dropins.iter().copied());
                want.sort();
                want.dedup();
                let mut toks: Vec<String> = vec![];
                if ex.pair.is_err() {
                    toks.push("B".into());
                }
                toks.extend(want.iter().map(|k| k.to_string()));
                let want = if toks.is_empty() { "-".to_string() } else { toks.join(",") };
                let got = obs.split(' ').nth(1).unwrap().to_string();
                // the C observation is a candidate SET: duplicates (a directory listed twice) collapse
                let got_set: std::collections::BTreeSet<&str> = got.split(',').collect();
                let want_set: std::collections::BTreeSet<&str> = want.split(',').collect();
                if got_set != want_set {
                    say(&format!("!oracle C12 new context-dictionaries case={} sp={} observed={} expected={} (B = built-in fall-back when no valid word.dat+tsi.dat pair; every drop-in that opens is loaded) record={}", i, hx(&esp), got, want, lhs));
                }
            }
        }
        std::env::set_current_dir("/").unwrap();
        // make read-only files removable
        say(&format!("@end {}", i));
    }
    say("@done");
}

// ------------------------------------------------------------------ parent

fn spawn_worker(from: usize) -> (std::process::Child, mpsc::Receiver<Option<String>>) {
    let exe = std::env::current_exe().unwrap();
    let mut child = Command::new(exe).arg("--worker").arg(from.to_string()).stdout(Stdio::piped()).stderr(Stdio::null()).spawn().unwrap();
    let so = child.stdout.take().unwrap();
    let (tx, rx) = mpsc::channel();
    std::thread::spawn(move || {
        for l in BufReader::new(so).lines() {
            match l {
                Ok(l) => {
                    if tx.send(Some(l)).is_err() {
                        return;
                    }
                }
                Err(_) => break,
            }
        }
        let _ = tx.send(None);
    });
    (child, rx)
}

fn parser_records(out: &mut Out, seed: u64, thorough: bool) {
    let mut rng = Rng::new(seed ^ 0xABB);
    let n = if thorough { 60000 } else { 6000 };
    let dir = tempfile::tempdir().unwrap();
    let (mut n_io, mut n_ok, mut n_panic) = (0u64, 0u64, 0u64);
    let fixed: Vec<Vec<u8>> = vec![
        b"".to_vec(), b"\n".to_vec(), b"a apple\n".to_vec(), b"nospace\n".to_vec(), b" x\n".to_vec(), b"a b\r\nc d\r".to_vec(),
        b"a  two\n".to_vec(), "常 用\n".as_bytes().to_vec(), b"\xff a\n".to_vec(), b"a x\na y\n".to_vec(), b"\r\n".to_vec(), b"\r".to_vec(),
        "\n…\n常用=，、\n".as_bytes().to_vec(), b"=abc\n".to_vec(), b"a=b=c\n".to_vec(), b"x\n\n\ny=\n".to_vec(), b"a=b".to_vec(),
    ];
    for i in 0..n {
        let abbrev = i % 2 == 0;
        let bytes: Vec<u8> = if i / 2 < fixed.len() { fixed[i / 2].clone() } else if rng.chance(1, 6) {
            (0..rng.below(12)).map(|_| *rng.pick(&[10u8, 13, 32, 61, 97, 98, 0xe5, 0xb8, 0xb8, 0xff, 0])).collect()
        } else { gen_text(&mut rng, abbrev) };
        if abbrev {
            let p = dir.path().join("swkb.dat");
            std::fs::write(&p, &bytes).unwrap();
            let probes = probes_of(&[&bytes[..]]);
            let ptok = probes.iter().map(|c| (*c as u32).to_string()).collect::<Vec<_>>().join(",");
            let o = guarded(|| match AbbrevTable::open(&p) { Ok(t) => abbrev_obs(&t, &probes), Err(_) => "io".into() });
            if o == "panic" {
                n_panic += 1;
                out.oracle_fail("C12", "new", &format!("swkb.dat-parser-panicked bytes={}", hbytes(&bytes)));
            } else if o == "io" { n_io += 1 } else { n_ok += 1 }
            out.rec(&format!("sysl parseabbrev {} {} => {}", hbytes(&bytes), ptok, o));
        } else {
            let b2 = bytes.clone();
            let o = guarded(move || match SymbolSelector::new(&b2[..]) { Ok(s) => symbols_obs(s), Err(_) => "io".into() });
            if o == "panic" {
                n_panic += 1;
                out.oracle_fail("C12", "new", &format!("symbols.dat-parser-panicked bytes={}", hbytes(&bytes)));
            } else if o == "io" { n_io += 1 } else {
                n_ok += 1;
                // C01's SymWF on the real table: no leaf category without a name
                let toks: Vec<&str> = o.split(' ').collect();
                let ncat: usize = toks[1].parse().unwrap();
                for k in 0..ncat {
                    if toks[2 + 2 * k] == "x" && toks[3 + 2 * k] == "-" {
                        out.oracle_fail("C12", "new", &format!("symbols.dat-leaf-category-without-a-name bytes={} (choosing it panics: chars().next().unwrap())", hbytes(&bytes)));
                    }
                }
            }
            out.rec(&format!("sysl parsesym {} => {}", hbytes(&bytes), o));
        }
    }
    out.stat("parser.cases", n);
    out.stat("parser.ok", n_ok);
    out.stat("parser.io_error", n_io);
    out.stat("parser.panic", n_panic);
}

fn main() {
    let args: Vec<String> = std::env::args().collect();
    let seed = seed_from_env();
    let thorough = tier_is_thorough();
    if args.len() >= 3 && args[1] == "--worker" {
        worker(seed, thorough, args[2].parse().unwrap());
        return;
    }
    std::panic::set_hook(Box::new(|_| {}));
    let mut out = Out::new();
    parser_records(&mut out, seed, thorough);
    let all = cases(seed, thorough);
    let total = all.len();
    let mut from = 0usize;
    let (mut n_abort, mut n_hang, mut n_null, mut n_ok, mut n_builtin) = (0u64, 0u64, 0u64, 0u64, 0u64);
    let mut kinds: BTreeMap<String, u64> = BTreeMap::new();
    let mut samples = 0;
    // a case that ran into the 20 s watchdog is run ONCE more, alone at the head of a fresh worker and with 120 s, before it is
    // called a hang: on a heavily loaded machine one thorough run reported `context-creation-hung` for a case that takes
    // milliseconds (round 3; the same lesson as C10's and C12's other watchdogs)
    let mut retry_of: Option<usize> = None;
    let mut n_retry = 0u64;
    while from < total {
        let (mut child, rx) = spawn_worker(from);
        let mut cur: Option<usize> = None;
        let mut pending: Option<String> = None;
        let mut finished = false;
        loop {
            let secs = if retry_of.is_some() && (cur == retry_of || cur.is_none()) { 120 } else { 20 };
            match rx.recv_timeout(Duration::from_secs(secs)) {
                Ok(Some(l)) => {
                    if let Some(r) = l.strip_prefix("@begin ") {
                        cur = Some(r.parse().unwrap());
                    } else if let Some(r) = l.strip_prefix("@pending ") {
                        let mut it = r.splitn(3, ' ');
                        let _i = it.next();
                        let kind = it.next().unwrap_or("").trim_start_matches("kind=").to_string();
                        *kinds.entry(kind).or_default() += 1;
                        pending = Some(it.next().unwrap_or("").to_string());
                    } else if l.starts_with("@end ") {
                        from = cur.unwrap() + 1;
                        pending = None;
                    } else if l == "@done" {
                        finished = true;
                    } else if l.starts_with("!oracle ") {
                        let mut it = l.splitn(4, ' ');
                        it.next();
                        let (p, c, d) = (it.next().unwrap(), it.next().unwrap(), it.next().unwrap_or(""));
                        out.oracle_fail(p, c, d);
                    } else {
                        if l.starts_with("sysl new2 ") {
                            pending = None;
                            let rhs = l.split(" => ").nth(1).unwrap_or("");
                            if rhs == "null" { n_null += 1 } else { n_ok += 1 }
                            if rhs.starts_with("ok B") { n_builtin += 1 }
                            if samples < 4 && rhs.starts_with("ok") {
                                samples += 1;
                                let toks: Vec<&str> = l.split(' ').collect();
                                out.sample(&format!("new2 sys={} user={} => {}", toks[4], toks[5], rhs));
                            }
                        }
                        out.rec(&l);
                    }
                }
                Ok(None) => {
                    let st = child.wait().ok();
                    if finished {
                        from = total;
                    } else {
                        // the worker died inside a case
                        let i = cur.unwrap_or(from);
                        let lhs = pending.take().unwrap_or_else(|| format!("sysl crash {}", i));
                        n_abort += 1;
                        out.rec(&format!("{} => abort", lhs));
                        out.oracle_fail("C12", "new", &format!("context-creation-aborted-the-process case={} status={:?} record={}", i, st, lhs));
                        from = i + 1;
                    }
                    break;
                }
                Err(_) => {
                    let _ = child.kill();
                    let _ = child.wait();
                    let i = cur.unwrap_or(from);
                    if retry_of != Some(i) {
                        retry_of = Some(i);
                        n_retry += 1;
                        from = i;
                        break;
                    }
                    let lhs = pending.take().unwrap_or_else(|| format!("sysl crash {}", i));
                    n_hang += 1;
                    out.rec(&format!("{} => hang", lhs));
                    out.oracle_fail("C12", "new", &format!("context-creation-hung case={} record={}", i, lhs));
                    from = i + 1;
                    break;
                }
            }
        }
    }
    out.stat("trees", total);
    out.stat("new2.ok", n_ok);
    out.stat("new2.null", n_null);
    out.stat("new2.abort", n_abort);
    out.stat("new2.hang", n_hang);
    out.stat("new2.watchdog_retries", n_retry);
    out.stat("new2.builtin_fallback", n_builtin);
    for (k, v) in kinds {
        out.stat(&format!("new2.user_kind.{}", k), v);
    }
    let _ = PathBuf::new();
}
