//! C10 correspondence + oracle: durability and atomic replacement of the user dictionary file.
//!
//! Every schedule is realised *exactly*: the guarded hook `chewing::verif::hit` parks the snapshot
//! writer thread (and the thread running `Drop for TrieBuf`) at each named progress point; the
//! controller releases them one step at a time, in the order the plan says.  After every step the
//! controller observes the protocol state (`TrieBuf::verif_persist_state`) and the directory (the
//! dictionary file through an independent reader `Trie::open` + `entries`, and any temp file).
//!
//!   persist run g<G>j<J> <init> <tok,tok,…> => <obs> <obs> …      (one obs per realised token)
//!
//! tokens: aK.V add, uK.V update, rK remove, f flush, s reopen(sync), c close (enter Drop),
//!         d next part of Drop, o open again, w one writer step, x process death (`_exit`).
//! g = 1 iff add/update revive a tombstoned key (C09's F09 repair), j = 1 iff Drop joins an
//! in-flight writer first (F12 repair); both are probed from the implementation.
//!
//!   persist editor g<G>j<J> <init> <tok,…> => <obs> …   the same through a real `Editor` (user
//!         dictionary behind `Layered`): LK / lK `learn_phrase` (syllables known / not known to the
//!         system dictionary), UK `unlearn_phrase`, k a key event (`process_keyevent`, whose tail calls
//!         `reopen(); flush()` after a change), c d w as above; only files and the writer position
//!         are observable there.
//!
//! ORACLE (on the real files, independent of the model):
//!   live     an accepted change shows in the live entries; no other call, writer step or part of
//!            Drop alters them (the tombstone rule, finding F09 of C09, is not judged here).
//!   joins    on a sample of the joins of Drop reached with the writer still parked, Drop is released
//!            first and must block.
//!   atomic   after every step the file at the path loads and holds either what it held one step
//!            earlier or the contents captured when the in-flight writer was spawned; its inode
//!            changes only across the rename step; after `_exit` it equals what it was before.
//!   durable  after Drop has returned the file holds exactly the live entries seen before close.
use chewing::dictionary::{
    Dictionary, DictionaryBuilder, DictionaryMut, Phrase, Trie, TrieBuf, TrieBuilder,
};
use chewing::conversion::ChewingEngine;
use chewing::dictionary::Layered;
use chewing::editor::keyboard::{KeyCode, KeyboardLayout, Qwerty};
use chewing::editor::{AbbrevTable, BasicEditor, Editor, LaxUserFreqEstimate, SymbolSelector};
use chewing::verif;
use chewing::zhuyin::{Bopomofo, Syllable};
use std::collections::{BTreeMap, HashMap, HashSet};
use std::io::Write as _;
use std::os::unix::fs::MetadataExt;
use std::path::{Path, PathBuf};
use std::sync::{Arc, Condvar, Mutex};
use std::thread::{self, JoinHandle, ThreadId};
use std::time::{Duration, Instant};
use vharness::*;

/// joins of `Drop` reached with the writer still parked, over the whole run (a sample of them is
/// probed for actually blocking)
static JOINS_SEEN: std::sync::atomic::AtomicU32 = std::sync::atomic::AtomicU32::new(0);
/// probed variant: add/update revive a tombstoned key (C09's F09 repair)
static REVIVE: std::sync::atomic::AtomicBool = std::sync::atomic::AtomicBool::new(false);
const WRITER: usize = 0;
const DROPPER: usize = 1;
// generous: a loaded machine (the thorough tier running next to other builds) once left a parked thread unscheduled for
// more than 8 s and the run reported a deadlock that was not there; a real deadlock is still reported, 30 s later
const WAIT: Duration = Duration::from_secs(30);
const BIG_BASE: u32 = 100;
const BIG_MAX: u32 = 4000;

// ------------------------------------------------------------------------------------------ keys

const ALL: [Bopomofo; 37] = {
    use Bopomofo::*;
    [
        B, P, M, F, D, T, N, L, G, K, H, J, Q, X, ZH, CH, SH, R, Z, C, S, I, U, IU, A, O, E, EH,
        AI, EI, AU, OU, AN, EN, ANG, ENG, ER,
    ]
};

fn mk(init: usize, rime: usize, tone4: bool) -> Syllable {
    let mut b = Syllable::builder().insert(ALL[init % 21]).unwrap().insert(ALL[24 + rime % 13]).unwrap();
    if tone4 {
        b = b.insert(Bopomofo::TONE4).unwrap();
    }
    b.build()
}

/// key index -> (syllables, phrase).  0..7: a handful of overlapping small keys; >= 100: bulk keys
fn key_of(k: u32) -> (Vec<Syllable>, String) {
    use Bopomofo::*;
    let ce4 = chewing::syl![C, E, TONE4];
    let shi4 = chewing::syl![SH, TONE4];
    match k {
        0 => (vec![ce4], "測".into()),
        1 => (vec![ce4], "冊".into()),
        2 => (vec![shi4], "試".into()),
        3 => (vec![ce4, shi4], "測試".into()),
        4 => (vec![shi4], "市".into()),
        5 => (vec![ce4, shi4], "側室".into()),
        6 => (vec![ce4, shi4, ce4], "測試測".into()),
        7 => (vec![chewing::syl![C, E]], "測".into()),
        _ => {
            let i = (k - BIG_BASE) as usize;
            let s1 = mk(i % 21, (i / 21) % 13, true);
            let s2 = mk((i / 273) % 21, 0, false);
            let c1 = char::from_u32(0x4E00 + i as u32).unwrap();
            let c2 = char::from_u32(0x5E00 + i as u32).unwrap();
            (vec![s1, s2], [c1, c2].iter().collect())
        }
    }
}

type Content = BTreeMap<u32, (u32, u64)>;

struct Keys {
    rev: HashMap<(Vec<u16>, String), u32>,
}

static KEYS: std::sync::OnceLock<Keys> = std::sync::OnceLock::new();

fn keys() -> &'static Keys {
    KEYS.get_or_init(Keys::new)
}

impl Keys {
    fn new() -> Keys {
        let mut rev = HashMap::new();
        for k in (0..8).chain(BIG_BASE..BIG_BASE + BIG_MAX) {
            let (s, p) = key_of(k);
            rev.insert((s.iter().map(|x| x.to_u16()).collect(), p), k);
        }
        Keys { rev }
    }
    fn ix(&self, s: &[Syllable], p: &str) -> u32 {
        *self.rev.get(&(s.iter().map(|x| x.to_u16()).collect::<Vec<_>>(), p.to_string())).unwrap_or(&99)
    }
    /// last-wins fold, as `TrieBuilder::insert` does with what the writer collects
    fn fold(&self, it: impl Iterator<Item = (Vec<Syllable>, Phrase)>) -> Content {
        let mut m = Content::new();
        for (s, p) in it {
            m.insert(self.ix(&s, p.as_str()), (p.freq(), p.last_used().unwrap_or(0)));
        }
        m
    }
}

fn fmt_val(v: (u32, u64)) -> String {
    if v.1 == 1000 + v.0 as u64 { v.0.to_string() } else { format!("{}/{}", v.0, v.1) }
}

/// `e` | `k.v+k.v…` for keys < 100, then `#<count>.<checksum>` for the bulk keys
fn fmt_content(m: &Content) -> String {
    let mut parts: Vec<String> = m.iter().filter(|(k, _)| **k < BIG_BASE).map(|(k, v)| format!("{}.{}", k, fmt_val(*v))).collect();
    let big: Vec<_> = m.iter().filter(|(k, _)| **k >= BIG_BASE).collect();
    if !big.is_empty() {
        let sum = big.iter().fold(0u64, |a, (k, v)| (a + (**k as u64) * (v.0 as u64) + if v.1 == 1000 + v.0 as u64 { 0 } else { 7 }) % 1_000_003);
        parts.push(format!("#{}.{}", big.len(), sum));
    }
    if parts.is_empty() { "e".into() } else { parts.join("+") }
}

fn init_content(init: &str) -> Content {
    let mut m = Content::new();
    if init == "e" {
        return m;
    }
    for part in init.split('+') {
        if let Some(n) = part.strip_prefix("big") {
            let n: u32 = n.parse().unwrap();
            for i in 0..n {
                let v = (BIG_BASE + i) % 7 + 1;
                m.insert(BIG_BASE + i, (v, 1000 + v as u64));
            }
        } else {
            let (k, v) = part.split_once('.').unwrap();
            let v: u32 = v.parse().unwrap();
            m.insert(k.parse().unwrap(), (v, 1000 + v as u64));
        }
    }
    m
}

fn write_initial(path: &Path, c: &Content) {
    let mut b = TrieBuilder::new();
    for (k, v) in c {
        let (s, p) = key_of(*k);
        b.insert(&s, Phrase::new(p, v.0).with_time(v.1)).unwrap();
    }
    b.build(path).unwrap();
}

/// `Editor` holds `Box<dyn …>` without a `Send` bound; it is built on the controller thread and
/// only *dropped* on the dropper thread (nothing in it has thread affinity)
struct SendBox<T>(T);
unsafe impl<T> Send for SendBox<T> {}
impl<T> SendBox<T> {
    fn into_inner(self) -> T {
        self.0
    }
}

fn thread_count() -> usize {
    std::fs::read_dir("/proc/self/task").map(|d| d.count()).unwrap_or(0)
}

/// the independent reader: `Trie::open` + `entries`
fn read_file(p: &Path) -> Option<Content> {
    let t = Trie::open(p).ok()?;
    Some(keys().fold(t.entries()))
}

/// `-` no other file next to the dictionary; `p` one that does not load; `c=<entries>` one that does.
/// `unspecified`: the writer is between `File::create` and `BufWriter::flush` (progress point
/// `build.written`): what the temp file holds is not determined (nothing yet for a small
/// dictionary, everything for one larger than the buffer) — reported as `p` like the model's
/// `partial_`, whatever it happens to hold.
fn tmp_state(path: &Path, unspecified: bool) -> String {
    let dir = path.parent().unwrap();
    let mut out = vec![];
    if let Ok(rd) = std::fs::read_dir(dir) {
        for e in rd.flatten() {
            if e.path() != path {
                out.push(match read_file(&e.path()) {
                    Some(c) if !unspecified => format!("c={}", fmt_content(&c)),
                    _ => "p".to_string(),
                });
            }
        }
    }
    out.sort();
    if out.is_empty() { "-".into() } else { out.join("&") }
}

/// entries of the dictionary file; `!` not loadable, `?` missing
fn file_state(path: &Path) -> String {
    if !path.exists() {
        return "?".into();
    }
    match read_file(path) {
        Some(c) => fmt_content(&c),
        None => "!".into(),
    }
}

/// `0.5+3.1/0` -> `0+3`; `!`, `?`, `e`, `-`, `p` unchanged; `c=…` keeps its tag
fn keys_only(x: &str) -> String {
    let (tag, body) = match x.strip_prefix("c=") { Some(b) => ("c=", b), None => ("", x) };
    if body.contains('.') {
        format!("{}{}", tag, body.split('+').map(|e| e.split('.').next().unwrap()).collect::<Vec<_>>().join("+"))
    } else {
        x.to_string()
    }
}

// ------------------------------------------------------------------------------------------ gate

#[derive(Default)]
struct G {
    parked: [Option<&'static str>; 2],
    tickets: [u32; 2],
    passes: [u64; 2],
    free_run: bool,
    log: Vec<&'static str>,
    /// the thread running `Drop` of the dictionary under test (the writer thread also drops a
    /// `TrieBuf`, its private snapshot: those hits are not part of the protocol)
    dropper_id: Option<ThreadId>,
}

struct Gate {
    m: Mutex<G>,
    cv: Condvar,
}

fn install(gate: &Arc<Gate>, controller: ThreadId) {
    let gate = gate.clone();
    verif::set_callback(Some(Box::new(move |pt: &'static str| {
        let mut g = gate.m.lock().unwrap();
        if pt == "ckpt.spawned" {
            g.log.push(pt);
            return;
        }
        if thread::current().id() == controller || g.free_run {
            return;
        }
        let role = if pt.starts_with("drop.") { DROPPER } else { WRITER };
        if role == DROPPER && g.dropper_id != Some(thread::current().id()) {
            return;
        }
        g.log.push(pt);
        g.parked[role] = Some(pt);
        gate.cv.notify_all();
        let t0 = Instant::now();
        while g.tickets[role] == 0 && !g.free_run {
            let (g2, _) = gate.cv.wait_timeout(g, Duration::from_millis(200)).unwrap();
            g = g2;
            if t0.elapsed() > WAIT * 4 {
                g.free_run = true; // never hang the process
            }
        }
        if g.tickets[role] > 0 {
            g.tickets[role] -= 1;
        }
        g.parked[role] = None;
        g.passes[role] += 1;
        gate.cv.notify_all();
    })));
}

// -------------------------------------------------------------------------------------- executor

#[derive(Clone, Debug, PartialEq)]
enum P {
    Add(u32, u32),
    Upd(u32, u32),
    Rem(u32),
    Flush,
    Sync,
    Close,
    D,
    Open,
    W(u32),
    Crash,
    /// editor tier: `learn_phrase` (bool: the system dictionary knows the syllables)
    Learn(u32, bool),
    Unlearn(u32),
    /// editor tier: a key event (`process_keyevent`)
    Key,
}

fn plan_text(p: &[P]) -> String {
    p.iter()
        .map(|t| match t {
            P::Add(k, v) => format!("a{}.{}", k, v),
            P::Upd(k, v) => format!("u{}.{}", k, v),
            P::Rem(k) => format!("r{}", k),
            P::Flush => "f".into(),
            P::Sync => "s".into(),
            P::Close => "c".into(),
            P::D => "d".into(),
            P::Open => "o".into(),
            P::W(n) => format!("W{}", n),
            P::Crash => "x".into(),
            P::Learn(k, true) => format!("L{}", k),
            P::Learn(k, false) => format!("l{}", k),
            P::Unlearn(k) => format!("U{}", k),
            P::Key => "k".into(),
        })
        .collect::<Vec<_>>()
        .join(",")
}

fn parse_plan(s: &str) -> Vec<P> {
    s.split(',')
        .filter(|t| !t.is_empty())
        .map(|t| {
            let (h, r) = t.split_at(1);
            let kv = |r: &str| {
                let (k, v) = r.split_once('.').unwrap();
                (k.parse().unwrap(), v.parse().unwrap())
            };
            match h {
                "a" => { let (k, v) = kv(r); P::Add(k, v) }
                "u" => { let (k, v) = kv(r); P::Upd(k, v) }
                "r" => P::Rem(r.parse().unwrap()),
                "f" => P::Flush,
                "s" => P::Sync,
                "c" => P::Close,
                "d" => P::D,
                "o" => P::Open,
                "W" => P::W(r.parse().unwrap()),
                "x" => P::Crash,
                "L" => P::Learn(r.parse().unwrap(), true),
                "l" => P::Learn(r.parse().unwrap(), false),
                "U" => P::Unlearn(r.parse().unwrap()),
                "k" => P::Key,
                _ => panic!("bad token {t}"),
            }
        })
        .collect()
}

fn pc_name(pt: &str) -> &'static str {
    match pt {
        "ckpt.start" => "start",
        "ckpt.collected" => "collected",
        "build.created" => "created",
        "build.written" => "written",
        "build.flushed" => "flushed",
        "build.synced" => "synced",
        "build.renamed" => "renamed",
        "ckpt.built" => "built",
        "ckpt.reopened" => "reopened",
        _ => "unknown",
    }
}

struct Failure {
    class: String,
    what: String,
}

struct Exec {
    gate: Arc<Gate>,
    path: PathBuf,
    dict: Option<TrieBuf>,
    /// editor tier: the dictionary is owned by an `Editor` (behind `Layered`), no state accessor
    editor: Option<Editor>,
    editor_tier: bool,
    dropper: Option<JoinHandle<()>>,
    realised: Vec<String>,
    obs: Vec<String>,
    // oracle state
    prev_f: String,
    prev_ino: u64,
    snap: Option<String>,
    last_live: String,
    live: Content,
    grave: Vec<u32>,
    joins_probed: u32,
    /// editor tier: keys learned and not unlearned since
    ed_expected: std::collections::BTreeSet<u32>,
    ed_unlearned: std::collections::BTreeSet<u32>,
    ed_f09: bool,
    pre_close: (bool, Option<bool>),
    join_first: Option<bool>,
    failures: Vec<Failure>,
    timed_out: bool,
    child: bool,
}

impl Exec {
    fn new(dir: &Path, init: &str, child: bool) -> Exec {
        Exec::new_tier(dir, init, child, false)
    }

    fn new_tier(dir: &Path, init: &str, child: bool, editor_tier: bool) -> Exec {
        let path = dir.join("chewing.dat");
        let c = init_content(init);
        write_initial(&path, &c); // before the callback is installed
        let gate = Arc::new(Gate { m: Mutex::new(G::default()), cv: Condvar::new() });
        install(&gate, thread::current().id());
        let dict = TrieBuf::open(&path).expect("open");
        let (dict, editor) = if editor_tier {
            // system dictionary: the syllable of keys 0 and 1 is known, nothing else
            let (s0, p0) = key_of(0);
            let (_, p1) = key_of(1);
            // (a plain `Trie`: a `TrieBuf` here would run its own `Drop` through the hooks)
            let mut b = TrieBuilder::new();
            b.insert(&s0, Phrase::new(p0, 100)).unwrap();
            b.insert(&s0, Phrase::new(p1, 50)).unwrap();
            let mut bytes = vec![];
            b.write(&mut bytes).expect("sys dict");
            let sys = Trie::new(std::io::Cursor::new(bytes)).expect("sys dict");
            let layered = Layered::new(vec![Box::new(sys)], Box::new(dict));
            let ed = Editor::new(
                Box::new(ChewingEngine::new()),
                layered,
                LaxUserFreqEstimate::new(0),
                AbbrevTable::new(),
                SymbolSelector::new(std::io::Cursor::new(&b""[..])).expect("symbols"),
            );
            (None, Some(ed))
        } else {
            (Some(dict), None)
        };
        let f = fmt_content(&c);
        let ino = std::fs::metadata(&path).map(|m| m.ino()).unwrap_or(0);
        Exec {
            gate, path, dict, editor, editor_tier, dropper: None, realised: vec![], obs: vec![],
            prev_f: f.clone(), prev_ino: ino, snap: None, last_live: f, live: c.clone(), grave: vec![], joins_probed: 0, ed_expected: c.keys().cloned().collect(), ed_unlearned: Default::default(), ed_f09: false, pre_close: (false, None), join_first: None,
            failures: vec![], timed_out: false, child,
        }
    }

    fn fail(&mut self, class: &str, what: String) {
        self.failures.push(Failure { class: class.into(), what });
    }

    // ---- gate helpers
    fn parked(&self, role: usize) -> Option<&'static str> {
        self.gate.m.lock().unwrap().parked[role]
    }
    fn log_len(&self) -> usize {
        self.gate.m.lock().unwrap().log.len()
    }
    fn spawned_since(&self, mark: usize) -> bool {
        self.gate.m.lock().unwrap().log[mark..].contains(&"ckpt.spawned")
    }
    fn wait_parked(&mut self, role: usize, also_done: Option<&JoinHandle<()>>) -> Option<&'static str> {
        let t0 = Instant::now();
        let mut g = self.gate.m.lock().unwrap();
        loop {
            if let Some(p) = g.parked[role] {
                return Some(p);
            }
            if let Some(h) = also_done {
                if h.is_finished() {
                    return None;
                }
            }
            if t0.elapsed() > WAIT {
                drop(g);
                self.timeout(format!("role {} never reached a progress point", role));
                return None;
            }
            let (g2, _) = self.gate.cv.wait_timeout(g, Duration::from_millis(if also_done.is_some() { 1 } else { 50 })).unwrap();
            g = g2;
        }
    }
    /// hand one ticket to the parked thread and wait until it has left the progress point
    fn release(&mut self, role: usize) {
        let t0 = Instant::now();
        let mut g = self.gate.m.lock().unwrap();
        let before = g.passes[role];
        g.tickets[role] += 1;
        self.gate.cv.notify_all();
        while g.passes[role] == before {
            if t0.elapsed() > WAIT {
                drop(g);
                self.timeout("released thread did not move".into());
                return;
            }
            let (g2, _) = self.gate.cv.wait_timeout(g, Duration::from_millis(50)).unwrap();
            g = g2;
        }
    }
    fn timeout(&mut self, what: String) {
        self.timed_out = true;
        let mut g = self.gate.m.lock().unwrap();
        g.free_run = true;
        self.gate.cv.notify_all();
        drop(g);
        self.fail("new", format!("deadlock-or-timeout: {}", what));
    }

    // ---- observation
    fn tmp_state(&self) -> String {
        tmp_state(&self.path, self.parked(WRITER) == Some("build.written"))
    }
    fn file_state(&self) -> String {
        file_state(&self.path)
    }

    fn observe(&mut self, tok: String, ret: &str, pre_point: Option<&'static str>) {
        let f = self.file_state();
        let t = self.tmp_state();
        let wr = self.parked(WRITER);
        let mut live_fail: Option<String> = None;
        let o = if let Some(d) = &self.dict {
            let st = d.verif_persist_state();
            let h = match st.writer {
                None => "-",
                Some(true) => "fin",
                Some(false) => wr.map(pc_name).unwrap_or("running"),
            };
            let base = keys().fold(st.base.iter().cloned());
            let mut pend = Content::new();
            for (s, p, fr, ti) in &st.pending {
                pend.insert(keys().ix(s, p), (*fr, *ti));
            }
            let mut gr: Vec<u32> = st.graveyard.iter().map(|(s, p)| keys().ix(s, p)).collect();
            gr.sort();
            let mut grs: Vec<String> = gr.iter().filter(|k| **k < BIG_BASE).map(|k| k.to_string()).collect();
            let nbig = gr.iter().filter(|k| **k >= BIG_BASE).count();
            if nbig > 0 {
                grs.push(format!("#{}", nbig));
            }
            let gr_s = if grs.is_empty() { "e".to_string() } else { grs.join("+") };
            // ---- oracle: an accepted change shows in the live entries, nothing else alters them
            let nl = keys().fold(d.entries());
            let mut want = self.live.clone();
            let kind = &tok[..1];
            let kv = |t: &str| -> (u32, u32) {
                let (k, v) = t[1..].split_once('.').unwrap();
                (k.parse().unwrap(), v.parse().unwrap())
            };
            let mut hidden_by_tombstone = false;
            match kind {
                "a" | "u" if ret == "k" => {
                    let (k, v) = kv(&tok);
                    // the tombstone rule is C09's finding F09: not judged here
                    hidden_by_tombstone = self.grave.contains(&k) && !nl.contains_key(&k);
                    want.insert(k, (v, 1000 + v as u64));
                }
                "r" => {
                    want.remove(&tok[1..].parse::<u32>().unwrap());
                }
                "o" => {
                    want = read_file(&self.path).unwrap_or_default();
                }
                _ => {}
            }
            let live_bad = if hidden_by_tombstone {
                let (k, _) = kv(&tok);
                want.remove(&k);
                want != nl
            } else {
                want != nl
            };
            self.live = nl.clone();
            self.grave = gr.clone();
            self.last_live = fmt_content(&nl);
            if live_bad {
                live_fail = Some(format!("live: after `{}` the dictionary shows {} but the accepted changes give {}", tok, fmt_content(&nl), fmt_content(&want)));
            }
            format!("{}:{}{}:{}:{}:{}:{}:{}", ret, st.dirty as u8, h, fmt_content(&base), fmt_content(&pend), gr_s, f, t)
        } else if self.editor_tier {
            if let Some(ed) = self.editor.as_mut() {
                self.last_live = fmt_content(&keys().fold(ed.user_dict().entries()));
            }
            format!("{}:{}:{}:{}", ret, wr.map(pc_name).unwrap_or("-"), keys_only(&f), keys_only(&t))
        } else {
            format!("{}:~{}:{}:{}", ret, wr.map(pc_name).unwrap_or("-"), f, t)
        };
        if let Some(m) = live_fail {
            self.fail("new", m);
        }
        // ---- oracle: atomic replacement, evaluated on the real file
        let ino = std::fs::metadata(&self.path).map(|m| m.ino()).unwrap_or(0);
        if f == "!" || f == "?" {
            self.fail("new", format!("atomic: after `{}` the dictionary file is {}", tok, if f == "!" { "not loadable" } else { "missing" }));
        } else if f != self.prev_f && Some(&f) != self.snap.as_ref() {
            self.fail("new", format!("atomic: after `{}` the file holds {} which is neither the previous contents {} nor the snapshot {:?}", tok, f, self.prev_f, self.snap));
        }
        if ino != self.prev_ino && !(tok == "w" && pre_point == Some("build.synced")) {
            self.fail("new", format!("atomic: the file at the path was replaced during `{}` (not the rename step)", tok));
        }
        if f != self.prev_f && !(tok == "w" && pre_point == Some("build.synced")) {
            self.fail("new", format!("atomic: the contents at the path changed during `{}` (not the rename step): {} -> {}", tok, self.prev_f, f));
        }
        self.prev_f = f;
        self.prev_ino = ino;
        self.realised.push(tok);
        self.obs.push(o);
    }

    fn after_possible_spawn(&mut self, mark: usize) {
        if self.spawned_since(mark) {
            self.snap = Some(self.last_live.clone());
            if let Some(p) = self.wait_parked(WRITER, None) {
                if p != "ckpt.start" {
                    self.fail("new", format!("protocol: fresh writer first seen at {}", p));
                }
            }
        }
    }

    /// one writer step; false if no writer is parked
    fn step_writer(&mut self) -> bool {
        let Some(pt) = self.parked(WRITER) else { return false };
        let tc = thread_count();
        self.release(WRITER);
        if self.timed_out {
            return false;
        }
        if pt != "ckpt.reopened" {
            self.wait_parked(WRITER, None);
        } else if let Some(d) = &self.dict {
            let t0 = Instant::now();
            while d.verif_persist_state().writer != Some(true) {
                if t0.elapsed() > WAIT {
                    self.timeout("writer released from its last point never finished".into());
                    break;
                }
                thread::yield_now();
            }
        } else if self.editor.is_some() {
            // no accessor behind `Layered`: the writer has finished once its OS thread is gone
            let t0 = Instant::now();
            while thread_count() >= tc {
                if t0.elapsed() > WAIT {
                    self.timeout("writer released from its last point never exited".into());
                    break;
                }
                thread::yield_now();
            }
        }
        self.observe("w".into(), "-", Some(pt));
        true
    }

    fn run(&mut self, plan: &[P]) {
        for t in plan {
            if self.timed_out {
                break;
            }
            match t {
                P::Add(k, v) | P::Upd(k, v) => {
                    let Some(d) = self.dict.as_mut() else { continue };
                    let (s, p) = key_of(*k);
                    let (ret, tok) = if matches!(t, P::Add(..)) {
                        (d.add_phrase(&s, Phrase::new(p, *v).with_time(1000 + *v as u64)).is_ok(), format!("a{}.{}", k, v))
                    } else {
                        (d.update_phrase(&s, Phrase::new(p, 0), *v, 1000 + *v as u64).is_ok(), format!("u{}.{}", k, v))
                    };
                    self.observe(tok, if ret { "k" } else { "e" }, None);
                }
                P::Rem(k) => {
                    let Some(d) = self.dict.as_mut() else { continue };
                    let (s, p) = key_of(*k);
                    let ret = d.remove_phrase(&s, &p).is_ok();
                    self.observe(format!("r{}", k), if ret { "k" } else { "e" }, None);
                }
                P::Flush => {
                    let mark = self.log_len();
                    let Some(d) = self.dict.as_mut() else { continue };
                    let ret = d.flush().is_ok();
                    self.after_possible_spawn(mark);
                    self.observe("f".into(), if ret { "k" } else { "e" }, None);
                }
                P::Sync => {
                    let Some(d) = self.dict.as_mut() else { continue };
                    let ret = d.reopen().is_ok();
                    self.observe("s".into(), if ret { "k" } else { "e" }, None);
                }
                P::Learn(k, _) | P::Unlearn(k) => {
                    let Some(ed) = self.editor.as_mut() else { continue };
                    let (s, p) = key_of(*k);
                    let (ret, tok) = match t {
                        P::Learn(_, sys) => (ed.learn_phrase(&s, &p).is_ok(), format!("{}{}", if *sys { "L" } else { "l" }, k)),
                        _ => (ed.unlearn_phrase(&s, &p).is_ok(), format!("U{}", k)),
                    };
                    if matches!(t, P::Learn(..)) {
                        if self.ed_unlearned.contains(k) && !REVIVE.load(std::sync::atomic::Ordering::Relaxed) {
                            // learning a phrase again after unlearning it stays hidden behind the tombstone:
                            // finding F09 of property C09, not judged here
                            self.ed_f09 = true;
                        }
                        self.ed_expected.insert(*k);
                    } else {
                        self.ed_expected.remove(k);
                        self.ed_unlearned.insert(*k);
                    }
                    self.observe(tok, if ret { "k" } else { "e" }, None);
                }
                P::Key => {
                    let mark = self.log_len();
                    let Some(ed) = self.editor.as_mut() else { continue };
                    ed.process_keyevent(Qwerty.map(KeyCode::Esc));
                    self.after_possible_spawn(mark);
                    self.observe("k".into(), "-", None);
                }
                P::Close if self.editor_tier => {
                    let Some(ed) = self.editor.take() else { continue };
                    let ed = SendBox(ed);
                    let gate = self.gate.clone();
                    self.dropper = Some(thread::spawn(move || {
                        gate.m.lock().unwrap().dropper_id = Some(thread::current().id());
                        drop(ed.into_inner())
                    }));
                    let h = self.dropper.take().unwrap();
                    let p = self.wait_parked(DROPPER, Some(&h));
                    self.dropper = Some(h);
                    if self.join_first.is_none() {
                        self.join_first = Some(p == Some("drop.join0"));
                    }
                    self.observe("c".into(), "-", None);
                }
                P::Close => {
                    let Some(d) = self.dict.take() else { continue };
                    let st = d.verif_persist_state();
                    self.pre_close = (st.dirty, st.writer);
                    let gate = self.gate.clone();
                    self.dropper = Some(thread::spawn(move || {
                        gate.m.lock().unwrap().dropper_id = Some(thread::current().id());
                        drop(d)
                    }));
                    let h = self.dropper.take().unwrap();
                    let p = self.wait_parked(DROPPER, Some(&h));
                    self.dropper = Some(h);
                    if self.join_first.is_none() {
                        self.join_first = Some(p == Some("drop.join0"));
                    }
                    self.observe("c".into(), "-", None);
                }
                P::D => {
                    if self.dropper.is_none() {
                        continue;
                    }
                    let Some(pt) = self.parked(DROPPER) else { continue };
                    let mut released = false;
                    if pt == "drop.join0" || pt == "drop.join" {
                        // a join returns only once the writer has finished.  On a sample of the joins
                        // reached with the writer still parked, let Drop go first and see that it blocks.
                        if let Some(wpt) = self.parked(WRITER) {
                            let n = JOINS_SEEN.fetch_add(1, std::sync::atomic::Ordering::Relaxed) + 1;
                            if n <= 60 || n % 16 == 0 {
                                self.joins_probed += 1;
                                let h = self.dropper.take().unwrap();
                                self.release(DROPPER);
                                released = true;
                                let t0 = Instant::now();
                                let mut passed = false;
                                while t0.elapsed() < Duration::from_millis(4) {
                                    if h.is_finished() || self.parked(DROPPER).is_some() {
                                        passed = true;
                                        break;
                                    }
                                    thread::yield_now();
                                }
                                self.dropper = Some(h);
                                if passed && self.parked(WRITER) == Some(wpt) {
                                    let f = self.file_state();
                                    self.fail("new", format!("durable: Drop passed `{}` while the snapshot writer was still running (parked at {}); the file holds {} and the live entries were {}",
                                        pt, wpt, f, self.last_live));
                                }
                            }
                        }
                        // drain the writer: the join takes effect when it has finished
                        while self.step_writer() {}
                        if self.timed_out {
                            continue;
                        }
                    }
                    let h = self.dropper.take().unwrap();
                    self.finish_d(h, released);
                }
                P::Open => {
                    if self.dict.is_some() || self.dropper.is_some() {
                        continue;
                    }
                    match TrieBuf::open(&self.path) {
                        Ok(d) => {
                            self.dict = Some(d);
                            self.observe("o".into(), "k", None);
                        }
                        Err(_) => self.observe("o".into(), "e", None),
                    }
                }
                P::W(n) => {
                    for _ in 0..*n {
                        if !self.step_writer() {
                            break;
                        }
                    }
                }
                P::Crash => {
                    if self.child {
                        let mut so = std::io::stdout().lock();
                        let _ = writeln!(so, "realised={}", self.realised.join(","));
                        let _ = writeln!(so, "obs={}", self.obs.join(" "));
                        let _ = writeln!(so, "prev_f={}", self.prev_f);
                        for f in &self.failures {
                            let _ = writeln!(so, "fail={} {}", f.class, f.what);
                        }
                        let _ = so.flush();
                        unsafe { libc::_exit(0) };
                    }
                }
            }
        }
    }

    fn finish_d(&mut self, h: JoinHandle<()>, released: bool) {
        let mark = self.log_len();
        if !released {
            self.release(DROPPER);
        }
        let p = self.wait_parked(DROPPER, Some(&h));
        if p.is_none() && !self.timed_out {
            // Drop has returned: the dictionary is closed
            let _ = h.join();
            self.observe("d".into(), "-", None);
            let f = self.prev_f.clone();
            if self.editor_tier {
                let have: std::collections::BTreeSet<u32> = read_file(&self.path).unwrap_or_default().keys().cloned().collect();
                if (have != self.ed_expected && !self.ed_f09) || f != self.last_live {
                    self.fail("new", format!("durable(editor): after the editor was dropped the file holds {} (keys {:?}) but the learned phrases are {:?} and the user dictionary showed {}",
                        f, have, self.ed_expected, self.last_live));
                }
            } else if f != self.last_live {
                let f12 = self.join_first == Some(false) && self.pre_close.0 && self.pre_close.1 == Some(false);
                let class = if f12 { "F12-drop-inflight" } else { "new" };
                self.fail(class, format!("durable: after flush and close the file holds {} but the live entries before close were {} (at close: dirty={}, writer={:?})",
                    f, self.last_live, self.pre_close.0, self.pre_close.1));
            }
        } else {
            self.dropper = Some(h);
            self.after_possible_spawn(mark);
            self.observe("d".into(), "-", None);
        }
    }

    fn cleanup(&mut self) {
        {
            let mut g = self.gate.m.lock().unwrap();
            g.free_run = true;
            self.gate.cv.notify_all();
        }
        if let Some(h) = self.dropper.take() {
            let t0 = Instant::now();
            while !h.is_finished() && t0.elapsed() < WAIT {
                thread::sleep(Duration::from_millis(1));
            }
            if h.is_finished() {
                let _ = h.join();
            }
        }
        self.dict = None; // free-running Drop on the controller thread
        self.editor = None;
        verif::set_callback(None);
    }
}

// ------------------------------------------------------------------------------------- generator

#[derive(Clone, Copy)]
struct Sim {
    dirty: bool,
    writer: Option<u32>, // remaining steps; Some(0) = finished, still registered
}

const STEPS: u32 = 9;

/// enumerate plans: foreground scripts (each followed by a complete close) x writer advances in
/// every gap where the pruning simulation believes a writer is in flight.  The simulation only
/// *selects* plans; what is compared is the schedule actually realised.
struct Gen {
    alphabet: Vec<P>,
    advances: Vec<u32>,
    join_first: bool,
    out: Vec<Vec<P>>,
    limit: usize,
}

impl Gen {
    fn sim_fg(s: &mut Sim, t: &P) {
        match t {
            P::Add(..) | P::Upd(..) | P::Rem(..) => s.dirty = true,
            P::Flush => {
                if s.writer.is_none() && s.dirty {
                    s.writer = Some(STEPS);
                    s.dirty = false;
                }
            }
            P::Sync => {
                if s.writer == Some(0) {
                    s.writer = None;
                }
            }
            _ => {}
        }
    }
    fn gaps(&self, s: Sim) -> Vec<u32> {
        match s.writer {
            Some(r) if r > 0 => {
                let mut v: Vec<u32> = self.advances.iter().cloned().filter(|n| *n <= r).collect();
                if !v.contains(&r) {
                    v.push(r);
                }
                v
            }
            _ => vec![0],
        }
    }
    fn go(&mut self, pos: usize, len: usize, plan: &mut Vec<P>, s: Sim) {
        if self.out.len() >= self.limit {
            return;
        }
        if pos == len {
            self.close(plan, s);
            return;
        }
        for a in self.alphabet.clone() {
            let a = match a {
                P::Add(k, _) => P::Add(k, pos as u32 + 1),
                P::Upd(k, _) => P::Upd(k, pos as u32 + 1),
                x => x,
            };
            let mut s2 = s;
            Gen::sim_fg(&mut s2, &a);
            plan.push(a);
            for n in self.gaps(s2) {
                let mut s3 = s2;
                if n > 0 {
                    s3.writer = s3.writer.map(|r| r - n);
                    plan.push(P::W(n));
                }
                self.go(pos + 1, len, plan, s3);
                if n > 0 {
                    plan.pop();
                }
            }
            plan.pop();
        }
    }
    /// c, then the parts of Drop with advances where a writer may be in flight
    fn close(&mut self, plan: &mut Vec<P>, s: Sim) {
        let base = plan.len();
        plan.push(P::Close);
        if self.join_first {
            // join0 (drains), sync, flush, [advance], join
            plan.extend([P::D, P::D, P::D]);
            let spawned = s.dirty;
            let opts: Vec<u32> = if spawned { self.advances.iter().cloned().filter(|n| *n < STEPS).collect() } else { vec![0] };
            for n in opts {
                let l = plan.len();
                if n > 0 {
                    plan.push(P::W(n));
                }
                plan.push(P::D);
                self.out.push(plan.clone());
                plan.truncate(l);
            }
        } else {
            // sync, [advance], flush, [advance], join
            let mut s2 = s;
            Gen::sim_fg(&mut s2, &P::Sync);
            plan.push(P::D);
            for n in self.gaps(s2) {
                let l = plan.len();
                let mut s3 = s2;
                if n > 0 {
                    s3.writer = s3.writer.map(|r| r - n);
                    plan.push(P::W(n));
                }
                Gen::sim_fg(&mut s3, &P::Flush);
                plan.push(P::D);
                let opts: Vec<u32> = match s3.writer { Some(r) if r > 0 => self.advances.iter().cloned().filter(|n| *n < r).collect(), _ => vec![0] };
                for m in opts {
                    let l2 = plan.len();
                    if m > 0 {
                        plan.push(P::W(m));
                    }
                    plan.push(P::D);
                    self.out.push(plan.clone());
                    plan.truncate(l2);
                }
                plan.truncate(l);
            }
        }
        plan.truncate(base);
    }
}

// ------------------------------------------------------------------------------------------ main

/// scratch directory: the bulk enumeration runs on tmpfs when there is one (`sync_data` is then
/// free), the witnesses and the crash tier on the default temp dir (a real file system)
fn scratch(fast: bool) -> tempfile::TempDir {
    if fast && Path::new("/dev/shm").is_dir() {
        if let Ok(d) = tempfile::tempdir_in("/dev/shm") {
            return d;
        }
    }
    tempfile::tempdir().expect("tempdir")
}

struct Ctx {
    out: Out,
    fast: bool,
    g: u8,
    j: u8,
    seen: HashSet<String>,
    n_run: u64,
    n_distinct: u64,
    n_timeouts: u64,
    n_fail: u64,
    n_crash: u64,
    cover: BTreeMap<String, u64>,
    samples: u32,
}

impl Ctx {
    fn exec(&mut self, init: &str, plan: &[P]) {
        let dir = scratch(self.fast);
        let mut ex = Exec::new(dir.path(), init, false);
        ex.run(plan);
        ex.cleanup();
        self.n_run += 1;
        self.emit(init, &ex.realised, &ex.obs, &ex.failures, ex.timed_out, &plan_text(plan));
    }

    fn exec_editor(&mut self, init: &str, plan: &[P]) {
        let dir = scratch(self.fast);
        let mut ex = Exec::new_tier(dir.path(), init, false, true);
        ex.run(plan);
        ex.cleanup();
        self.n_run += 1;
        let toks = ex.realised.join(",");
        for f in &ex.failures {
            self.n_fail += 1;
            self.out.oracle_fail("C10", &f.class, &format!("editor init={} schedule={} plan={} :: {}", init, toks, plan_text(plan), f.what));
        }
        if ex.timed_out {
            self.n_timeouts += 1;
        }
        if self.seen.insert(format!("editor {} {}", init, toks)) {
            self.n_distinct += 1;
            *self.cover.entry("editor".into()).or_insert(0) += 1;
            self.out.rec(&format!("persist editor g{}j{} {} {} => {}", self.g, self.j, init, toks, ex.obs.join(" ")));
        }
    }

    fn emit(&mut self, init: &str, realised: &[String], obs: &[String], failures: &[Failure], timed_out: bool, plan: &str) {
        let toks = realised.join(",");
        if timed_out {
            self.n_timeouts += 1;
        }
        let key = format!("{} {}", init, toks);
        for f in failures {
            self.n_fail += 1;
            self.out.oracle_fail("C10", &f.class, &format!("init={} schedule={} plan={} :: {}", init, toks, plan, f.what));
        }
        if !self.seen.insert(key) {
            return;
        }
        self.n_distinct += 1;
        // coverage: foreground op kind x protocol state it ran in
        let mut pre = "0-".to_string();
        for (t, o) in realised.iter().zip(obs.iter()) {
            let kind = &t[..1];
            if kind != "w" && kind != "d" && kind != "x" {
                let h = if pre.ends_with('-') { "none" } else if pre.ends_with("fin") { "fin" } else { "inflight" };
                *self.cover.entry(format!("{}|d{}|{}", kind, &pre[..1], h)).or_insert(0) += 1;
            }
            if kind == "w" {
                *self.cover.entry("w".into()).or_insert(0) += 1;
            }
            let f: Vec<&str> = o.split(':').collect();
            if f.len() > 1 && !f[1].starts_with('~') {
                pre = f[1].to_string();
            }
        }
        self.out.rec(&format!("persist run g{}j{} {} {} => {}", self.g, self.j, init, toks, obs.join(" ")));
        if self.samples < 4 && realised.len() > 8 {
            self.samples += 1;
            self.out.sample(&format!("plan {} init {} realised {}", plan, init, toks));
        }
    }

    /// process death at the end of `plan` (which ends with `x`), in a child process
    fn crash(&mut self, ctx: &str, editor: bool, init: &str, plan: &[P]) {
        let dir = tempfile::tempdir().expect("tempdir");
        let exe = std::env::current_exe().unwrap();
        let outp = std::process::Command::new(exe)
            .args([if editor { "--child-ed" } else { "--child" }, dir.path().to_str().unwrap(), init, &plan_text(plan)])
            .output()
            .expect("child");
        self.n_run += 1;
        let so = String::from_utf8_lossy(&outp.stdout).to_string();
        let get = |k: &str| so.lines().find_map(|l| l.strip_prefix(k)).map(|s| s.to_string());
        let (Some(realised), Some(obs), Some(prev_f)) = (get("realised="), get("obs="), get("prev_f=")) else {
            self.out.oracle_fail("C10", "new", &format!("crash child for init={} plan={} did not reach the crash point: status {:?}", init, plan_text(plan), outp.status));
            return;
        };
        let mut failures: Vec<Failure> = so
            .lines()
            .filter_map(|l| l.strip_prefix("fail="))
            .map(|l| { let (c, w) = l.split_once(' ').unwrap_or((l, "")); Failure { class: c.into(), what: w.into() } })
            .collect();
        // what the directory holds after the process died
        let path = dir.path().join("chewing.dat");
        let f = file_state(&path);
        let at_written = obs.split(' ').last().and_then(|o| o.split(':').nth(1)).map(|h| h.ends_with("written")).unwrap_or(false);
        let t = tmp_state(&path, at_written);
        if f == "!" || f == "?" {
            failures.push(Failure { class: "new".into(), what: format!("atomic: after process death the dictionary file is {}", if f == "!" { "not loadable" } else { "missing" }) });
        } else if f != prev_f {
            failures.push(Failure { class: "new".into(), what: format!("atomic: after process death the file holds {} but held {} just before", f, prev_f) });
        }
        let mut r: Vec<String> = realised.split(',').filter(|s| !s.is_empty()).map(|s| s.to_string()).collect();
        let mut o: Vec<String> = obs.split(' ').filter(|s| !s.is_empty()).map(|s| s.to_string()).collect();
        r.push("x".into());
        // where the writer was when the process died (second field of the last observation)
        let pc = o.last().and_then(|p| p.split(':').nth(1)).map(|h| h.trim_start_matches(|c: char| c == '0' || c == '1' || c == '~').to_string()).unwrap_or_else(|| "?".into());
        let pc = if pc.is_empty() || pc == "-" { "none".to_string() } else { pc };
        *self.cover.entry(format!("x|{}|{}", ctx, pc)).or_insert(0) += 1;
        self.n_crash += 1;
        if editor {
            o.push(format!("X:{}:{}", keys_only(&f), keys_only(&t)));
            let toks = r.join(",");
            for fl in &failures {
                self.n_fail += 1;
                self.out.oracle_fail("C10", &fl.class, &format!("editor init={} schedule={} plan={} :: {}", init, toks, plan_text(plan), fl.what));
            }
            if self.seen.insert(format!("editor {} {}", init, toks)) {
                self.n_distinct += 1;
                self.out.rec(&format!("persist editor g{}j{} {} {} => {}", self.g, self.j, init, toks, o.join(" ")));
            }
        } else {
            o.push(format!("X:{}:{}", f, t));
            self.emit(init, &r, &o, &failures, false, &plan_text(plan));
        }
    }
}

fn probe_revive() -> u8 {
    let mut d = TrieBuf::new_in_memory();
    let (s, p) = key_of(0);
    let _ = d.add_phrase(&s, Phrase::new(p.clone(), 1));
    let _ = d.remove_phrase(&s, &p);
    let _ = d.add_phrase(&s, Phrase::new(p, 2));
    (d.entries().count() == 1) as u8
}

fn main() {
    let args: Vec<String> = std::env::args().collect();
    if args.len() >= 5 && (args[1] == "--child" || args[1] == "--child-ed") {
        let mut ex = Exec::new_tier(Path::new(&args[2]), &args[3], true, args[1] == "--child-ed");
        ex.run(&parse_plan(&args[4]));
        // the plan did not reach `x`
        ex.cleanup();
        std::process::exit(3);
    }
    let thorough = tier_is_thorough();
    let mut rng = Rng::new(seed_from_env());
    let mut cx = Ctx { out: Out::new(), fast: false, g: probe_revive(), j: 0, seen: HashSet::new(), n_run: 0, n_distinct: 0,
        n_timeouts: 0, n_fail: 0, n_crash: 0, cover: BTreeMap::new(), samples: 0 };
    // probe: does Drop join an in-flight writer first?
    {
        let dir = tempfile::tempdir().unwrap();
        let mut ex = Exec::new(dir.path(), "e", false);
        ex.run(&[P::Close]);
        cx.j = ex.join_first.unwrap_or(false) as u8;
        ex.cleanup();
    }
    REVIVE.store(cx.g == 1, std::sync::atomic::Ordering::Relaxed);
    cx.out.stat("variant_revive_tombstone", cx.g);
    cx.out.stat("variant_drop_joins_first", cx.j);
    if args.len() >= 4 && args[1] == "--one" {
        // replay of a single plan: persist --one <init> <plan>
        let plan = parse_plan(&args[3]);
        let ed = plan.iter().any(|t| matches!(t, P::Learn(..) | P::Unlearn(_) | P::Key));
        if plan.last() == Some(&P::Crash) {
            cx.crash("replay", ed, &args[2], &plan)
        } else if ed {
            cx.exec_editor(&args[2], &plan)
        } else {
            cx.exec(&args[2], &plan)
        }
        cx.out.flush();
        return;
    }
    let t0 = Instant::now();

    // ---- 1. fixed witnesses (DESIGN F12 and its neighbours), every writer position of the overlap
    for n in 0..=STEPS {
        for m in [0, 1, 9] {
            let mut p = vec![P::Upd(0, 1), P::Flush];
            if n > 0 { p.push(P::W(n)); }
            p.extend([P::Upd(1, 2), P::Flush]);
            if m > 0 { p.push(P::W(m)); }
            p.extend([P::Close, P::D, P::D, P::D, P::D]);
            cx.exec("e", &p);
            cx.exec("0.7+2.5", &p);
        }
    }
    // the editor's pattern: change, reopen, flush after every key that changed the dictionary
    for n in [0u32, 2, 5, 6, 9] {
        let mut p = vec![];
        for (i, k) in [0u32, 1, 2].iter().enumerate() {
            p.extend([P::Upd(*k, i as u32 + 1), P::Sync, P::Flush]);
            if n > 0 { p.push(P::W(n)); }
        }
        p.extend([P::Close, P::D, P::D, P::D, P::D, P::Open, P::Upd(3, 9), P::Sync, P::Flush, P::Close, P::D, P::D, P::D, P::D]);
        cx.exec("e", &p);
    }

    // ---- 1b. editor tier: learn / unlearn / key events through a real `Editor` over a file-backed user
    // dictionary, the writer advanced between them, the editor dropped at every writer position
    {
        let ops: Vec<Vec<P>> = vec![
            vec![P::Learn(0, true)],
            vec![P::Learn(3, false)],
            vec![P::Learn(0, true), P::Learn(3, false)],
            vec![P::Learn(3, false), P::Learn(3, false)],
            vec![P::Learn(0, true), P::Unlearn(0)],
            vec![P::Unlearn(2), P::Learn(1, true)],
        ];
        let advs: Vec<u32> = if thorough { (0..=STEPS).collect() } else { vec![0, 2, 5, 9] };
        let advs2: Vec<u32> = if thorough { vec![0, 3, 6, 9] } else { vec![0, 9] };
        cx.fast = true;
        for init in ["e", "0.7+2.5"] {
            for a in &ops {
                for b in &ops {
                    for n in &advs {
                        for m in advs2.clone() {
                            // a, key, [writer n], b, key, [writer m], drop
                            let mut p = a.clone();
                            p.push(P::Key);
                            if *n > 0 { p.push(P::W(*n)); }
                            p.extend(b.iter().cloned());
                            p.push(P::Key);
                            if m > 0 { p.push(P::W(m)); }
                            p.extend([P::Close, P::D, P::D, P::D, P::D]);
                            cx.exec_editor(init, &p);
                        }
                    }
                }
            }
        }
    }

    // ---- 2. enumeration
    let alphabet = vec![P::Add(0, 0), P::Add(1, 0), P::Upd(0, 0), P::Upd(1, 0), P::Rem(0), P::Rem(1), P::Flush, P::Sync];
    let fine: Vec<u32> = (0..=STEPS).collect();
    let coarse: Vec<u32> = vec![0, 2, 5, 6, 9];
    let coarser: Vec<u32> = vec![0, 5, 9];
    let small_alpha = vec![P::Upd(0, 0), P::Rem(0), P::Add(0, 0), P::Flush, P::Sync];
    // (length, alphabet, writer advances offered in every gap, also from a non-empty file)
    let levels: Vec<(usize, Vec<P>, Vec<u32>, bool)> = if thorough {
        vec![
            (0, alphabet.clone(), fine.clone(), true),
            (1, alphabet.clone(), fine.clone(), true),
            (2, alphabet.clone(), fine.clone(), true),
            (3, alphabet.clone(), fine.clone(), true),
            (4, alphabet.clone(), coarse.clone(), false),
            (5, small_alpha.clone(), coarser.clone(), false),
        ]
    } else {
        vec![
            (0, alphabet.clone(), fine.clone(), true),
            (1, alphabet.clone(), fine.clone(), true),
            (2, alphabet.clone(), coarse.clone(), true),
            (3, alphabet.clone(), coarse.clone(), true),
            (4, alphabet.clone(), coarse.clone(), false),
        ]
    };
    let mut plans: Vec<(String, Vec<P>)> = vec![];
    for (len, alpha, adv, both) in levels {
        let mut g = Gen { alphabet: alpha, advances: adv, join_first: cx.j == 1, out: vec![], limit: usize::MAX };
        g.go(0, len, &mut vec![], Sim { dirty: false, writer: None });
        cx.out.stat(&format!("plans_len{}", len), g.out.len() * if both { 2 } else { 1 });
        for p in g.out {
            if both {
                plans.push(("0.7+2.5".into(), p.clone()));
            }
            plans.push(("e".into(), p));
        }
    }
    cx.out.stat("plans_enumerated", plans.len());
    if args.len() >= 2 && args[1] == "--count" {
        cx.out.flush();
        return;
    }
    cx.fast = true;
    // quick: every plan with at most 2 foreground steps, and a seeded sample of the longer ones
    let quota = if thorough { usize::MAX } else { 5000 };
    let mut chosen = 0usize;
    let total = plans.len();
    for (i, (init, p)) in plans.iter().enumerate() {
        let fg = p.iter().filter(|t| !matches!(t, P::W(_) | P::D | P::Close)).count();
        let rest = total - i;
        let take = thorough || fg <= 2 || rng.below(rest as u64) < (quota.saturating_sub(chosen)) as u64;
        if take {
            chosen += 1;
            cx.exec(init, p);
        }
        if !thorough && t0.elapsed() > Duration::from_secs(50) {
            cx.out.stat("quick_time_box_hit_at_plan", i);
            break;
        }
    }

    cx.fast = false;
    // ---- 3. crash tier: the process dies (`_exit` in a child) in every foreground context x every writer
    // position: (context, editor tier, initial file, steps before the writer advances, steps after)
    let scen: Vec<(&str, bool, &str, Vec<P>, Vec<P>)> = vec![
        ("run-clean", false, "e", vec![P::Upd(0, 1), P::Flush], vec![]),
        ("run-clean-nonempty", false, "0.7+2.5", vec![P::Rem(0), P::Add(1, 3), P::Flush], vec![]),
        ("run-clean-bulk", false, "0.7+big600", vec![P::Upd(0, 1), P::Upd(100, 9), P::Rem(101), P::Flush], vec![]),
        // changes accepted while the writer is in flight, never flushed
        ("run-dirty", false, "2.5", vec![P::Upd(0, 1), P::Flush], vec![P::Upd(1, 2), P::Rem(2)]),
        // … and a flush that is refused because the writer is still registered
        ("run-refused-flush", false, "e", vec![P::Upd(0, 1), P::Flush], vec![P::Upd(1, 2), P::Flush]),
        // reload / adoption attempts while in flight (the editor's reopen-after-change)
        ("run-reopen", false, "2.5", vec![P::Upd(0, 1), P::Flush], vec![P::Sync, P::Upd(1, 2), P::Sync, P::Flush]),
        // second writer of a session, the first one's result discarded
        ("run-second-writer", false, "2.5", vec![P::Upd(0, 1), P::Flush, P::Upd(1, 2), P::W(9), P::Sync, P::Flush], vec![]),
        // dying inside Drop: just entered, after its first part, with the writer Drop itself spawned
        ("drop-entered", false, "e", vec![P::Upd(0, 1), P::Flush], vec![P::Upd(1, 2), P::Close]),
        ("drop-part1", false, "e", vec![P::Upd(0, 1), P::Flush], vec![P::Upd(1, 2), P::Flush, P::Close, P::D]),
        ("drop-own-writer", false, "2.5", vec![P::Upd(0, 1), P::Close, P::D, P::D, P::D], vec![]),
        // second session over the files of the first
        ("second-session", false, "2.5", vec![P::Upd(0, 1), P::Close, P::D, P::D, P::D, P::D, P::Open, P::Rem(2), P::Flush], vec![]),
        // through a real Editor
        ("editor-run", true, "e", vec![P::Learn(0, true), P::Key], vec![P::Learn(3, false)]),
        ("editor-drop", true, "0.7+2.5", vec![P::Learn(0, true), P::Key], vec![P::Unlearn(2), P::Close]),
    ];
    for (ctx, ed, init, pre, post) in &scen {
        if !thorough && t0.elapsed() > Duration::from_secs(110) {
            cx.out.stat("quick_time_box_hit_in_crash_tier", ctx);
            break;
        }
        for n in 0..=STEPS {
            let mut p = pre.clone();
            if n > 0 { p.push(P::W(n)); }
            p.extend(post.iter().cloned());
            p.push(P::Crash);
            cx.crash(ctx, *ed, init, &p);
        }
    }
    cx.out.stat("crash_children", cx.n_crash);
    let crash_states = cx.cover.keys().filter(|k| k.starts_with("x|")).count();
    cx.out.stat("crash_states_distinct", crash_states);
    cx.out.stat("crash_contexts", scen.len());
    // and bulk contents without a crash: every writer position, then a normal close
    for n in [0u32, 3, 6] {
        let mut p = vec![P::Upd(0, 1), P::Upd(100, 9), P::Rem(101), P::Flush];
        if n > 0 { p.push(P::W(n)); }
        p.extend([P::Add(2, 4), P::Close, P::D, P::D, P::D, P::D]);
        cx.exec("big600", &p);
    }

    cx.out.stat("schedules_run", cx.n_run);
    cx.out.stat("schedules_distinct", cx.n_distinct);
    cx.out.stat("timeouts", cx.n_timeouts);
    cx.out.stat("oracle_failures", cx.n_fail);
    let cover = cx.cover.clone();
    for (k, v) in &cover {
        cx.out.stat(&format!("cover.{}", k), v);
    }
    cx.out.stat("wall_ms", t0.elapsed().as_millis());
    cx.out.flush();
}
