//! C10, SQLite back end (feature `sqlite`): every accepted change is durable when the call returns;
//! a killed process leaves exactly the changes of the calls that had returned.
//!
//!   persistsql run <tok,…> => <view> <view> …   after every call, what an independent read-only
//!         connection reads while the writing connection stays open (no flush, no close)
//!   persistsql kill <tok,…> <n> => <view>       the child process was SIGKILLed while call number
//!         n (0-based) was in progress / about to be entered; n calls had been acknowledged; what a
//!         fresh connection reads afterwards.  n is `acks` or `acks + 1` — whichever the database
//!         shows (the kill can land before or after the commit of the call in progress).
//!
//! tokens: aK.F add_phrase(freq F), uK.F.UF.T update_phrase(phrase freq F, user_freq UF, time T),
//!         rK remove_phrase, f flush (wal_checkpoint), s reopen.   view: `e` | `k.freq.time+…`
//!
//! ORACLE (independent of the model, a plain map): the view after every call, and after a kill, must
//! be the map obtained from a prefix of the calls — all acknowledged ones, plus possibly the one in
//! progress; nothing else (no half transaction: `update_phrase` runs two INSERTs).
//! Kill points are realised by time (a random delay of 0..400 µs after the call was released), not
//! by hooks: statement boundaries inside a transaction are hit by chance, and counted.

#[cfg(not(feature = "sqlite"))]
fn main() {
    println!("#stat built_without_sqlite 1");
}

#[cfg(feature = "sqlite")]
fn main() {
    imp::main()
}

#[cfg(feature = "sqlite")]
mod imp {
    use chewing::dictionary::{Dictionary, DictionaryMut, Phrase, SqliteDictionary};
    use chewing::zhuyin::{Bopomofo, Syllable};
    use std::collections::BTreeMap;
    use std::io::{BufRead, BufReader, Write};
    use std::path::Path;
    use std::process::{Command, Stdio};
    use std::time::{Duration, Instant};
    use vharness::*;

    fn key_of(k: u32) -> (Vec<Syllable>, String) {
        use Bopomofo::*;
        let ce4 = chewing::syl![C, E, TONE4];
        let shi4 = chewing::syl![SH, TONE4];
        match k {
            0 => (vec![ce4], "測".into()),
            1 => (vec![ce4], "冊".into()),
            2 => (vec![shi4], "試".into()),
            3 => (vec![ce4, shi4], "測試".into()),
            4 => (vec![shi4], "市".into()),
            5 => (vec![ce4, shi4], "側室".into()),
            6 => (vec![ce4, shi4, ce4], "測試測".into()),
            _ => (vec![chewing::syl![C, E]], "測".into()),
        }
    }

    #[derive(Clone, Debug, PartialEq)]
    enum C {
        Add(u32, u32),
        Upd(u32, u32, u32, u64),
        Rem(u32),
        Flush,
        Reopen,
    }

    fn tok(c: &C) -> String {
        match c {
            C::Add(k, f) => format!("a{}.{}", k, f),
            C::Upd(k, f, uf, t) => format!("u{}.{}.{}.{}", k, f, uf, t),
            C::Rem(k) => format!("r{}", k),
            C::Flush => "f".into(),
            C::Reopen => "s".into(),
        }
    }

    fn parse(t: &str) -> C {
        let n: Vec<u64> = t[1..].split('.').filter(|s| !s.is_empty()).map(|s| s.parse().unwrap()).collect();
        match &t[..1] {
            "a" => C::Add(n[0] as u32, n[1] as u32),
            "u" => C::Upd(n[0] as u32, n[1] as u32, n[2] as u32, n[3]),
            "r" => C::Rem(n[0] as u32),
            "f" => C::Flush,
            _ => C::Reopen,
        }
    }

    fn toks(cs: &[C]) -> String {
        cs.iter().map(tok).collect::<Vec<_>>().join(",")
    }

    /// the oracle's own bookkeeping: key -> (freq, Option<(user_freq, time)>)
    type Spec = BTreeMap<u32, (u32, Option<(u32, u64)>)>;

    fn apply(m: &mut Spec, c: &C) {
        match c {
            C::Add(k, f) => {
                m.insert(*k, (*f, None));
            }
            C::Upd(k, f, uf, t) => match m.get_mut(k) {
                Some((_, Some(u))) => u.0 = *uf,
                _ => {
                    m.insert(*k, (*f, Some((*uf, *t))));
                }
            },
            C::Rem(k) => {
                m.remove(k);
            }
            _ => {}
        }
    }

    fn spec_view(m: &Spec) -> String {
        let parts: Vec<String> = m
            .iter()
            .map(|(k, (f, u))| match u {
                Some((uf, t)) => format!("{}.{}.{}", k, (*f).max(*uf), t),
                None => format!("{}.{}.0", k, f),
            })
            .collect();
        if parts.is_empty() { "e".into() } else { parts.join("+") }
    }

    fn do_call(d: &mut SqliteDictionary, c: &C) -> bool {
        match c {
            C::Add(k, f) => {
                let (s, p) = key_of(*k);
                d.add_phrase(&s, Phrase::new(p, *f)).is_ok()
            }
            C::Upd(k, f, uf, t) => {
                let (s, p) = key_of(*k);
                d.update_phrase(&s, Phrase::new(p, *f), *uf, *t).is_ok()
            }
            C::Rem(k) => {
                let (s, p) = key_of(*k);
                d.remove_phrase(&s, &p).is_ok()
            }
            C::Flush => d.flush().is_ok(),
            C::Reopen => d.reopen().is_ok(),
        }
    }

    fn view_of(d: &SqliteDictionary) -> String {
        let mut m: BTreeMap<u32, (u32, u64)> = BTreeMap::new();
        for (s, p) in d.entries() {
            let k = (0..8u32).find(|k| { let (ks, kp) = key_of(*k); ks == s && kp == p.as_str() }).unwrap_or(99);
            m.insert(k, (p.freq(), p.last_used().unwrap_or(0)));
        }
        let parts: Vec<String> = m.iter().map(|(k, (f, t))| format!("{}.{}.{}", k, f, t)).collect();
        if parts.is_empty() { "e".into() } else { parts.join("+") }
    }

    fn read_view(path: &Path, read_only: bool) -> Result<String, String> {
        let d = if read_only { SqliteDictionary::open_read_only(path) } else { SqliteDictionary::open(path) };
        match d {
            Ok(d) => Ok(view_of(&d)),
            Err(e) => Err(format!("{e}")),
        }
    }

    fn gen_calls(rng: &mut Rng, len: usize) -> Vec<C> {
        let mut t = 10u64;
        (0..len)
            .map(|_| {
                t += 1;
                let k = rng.below(4) as u32;
                match rng.weighted(&[3, 6, 3, 1, 1]) {
                    0 => C::Add(k, 1 + rng.below(9) as u32),
                    1 => C::Upd(k, 1 + rng.below(9) as u32, 1 + rng.below(30) as u32, t),
                    2 => C::Rem(k),
                    3 => C::Flush,
                    _ => C::Reopen,
                }
            })
            .collect()
    }

    fn child(path: &str, plan: &str) {
        let mut d = SqliteDictionary::open(path).expect("open");
        let stdin = std::io::stdin();
        let mut out = std::io::stdout();
        writeln!(out, "ready").unwrap();
        out.flush().unwrap();
        let mut line = String::new();
        for t in plan.split(',') {
            line.clear();
            if stdin.lock().read_line(&mut line).unwrap_or(0) == 0 {
                return;
            }
            let ok = do_call(&mut d, &parse(t));
            writeln!(out, "ack {}", ok as u8).unwrap();
            out.flush().unwrap();
        }
        // wait to be killed
        line.clear();
        let _ = stdin.lock().read_line(&mut line);
    }

    pub fn main() {
        let args: Vec<String> = std::env::args().collect();
        if args.len() >= 4 && args[1] == "--child" {
            child(&args[2], &args[3]);
            return;
        }
        let thorough = tier_is_thorough();
        let mut rng = Rng::new(seed_from_env() ^ 0x51_17E);
        let mut out = Out::new();
        let t0 = Instant::now();
        let mut fails = 0u64;

        // ---- 1. durable on return: an independent connection after every call
        let n_run = if thorough { 400 } else { 60 };
        let mut n_calls = 0u64;
        for i in 0..n_run {
            let cs = if i == 0 {
                vec![C::Add(0, 5), C::Upd(0, 5, 9, 11), C::Upd(0, 5, 12, 13), C::Rem(0), C::Upd(0, 3, 4, 15), C::Add(0, 2)]
            } else {
                let len = 1 + rng.below(8) as usize;
                gen_calls(&mut rng, len)
            };
            let dir = tempfile::tempdir().expect("tempdir");
            let path = dir.path().join("chewing.sqlite3");
            let mut d = SqliteDictionary::open(&path).expect("open");
            let mut m = Spec::new();
            let mut views = vec![];
            for (j, c) in cs.iter().enumerate() {
                let ok = do_call(&mut d, c);
                n_calls += 1;
                apply(&mut m, c);
                let v = read_view(&path, true).unwrap_or_else(|e| format!("!{}", e.replace(' ', "_")));
                if !ok {
                    fails += 1;
                    out.oracle_fail("C10", "new", &format!("sqlite: call {} of {} returned Err", j, toks(&cs)));
                }
                if v != spec_view(&m) {
                    fails += 1;
                    out.oracle_fail("C10", "new", &format!("sqlite durable: after call {} of {} returned, an independent connection reads {} instead of {}", j, toks(&cs), v, spec_view(&m)));
                }
                views.push(v);
            }
            out.rec(&format!("persistsql run {} => {}", toks(&cs), views.join(" ")));
            drop(d);
        }
        out.stat("run_lists", n_run);
        out.stat("run_calls", n_calls);

        // ---- 2. process death: lock-step child, SIGKILL a random moment after releasing a call
        let n_kill = if thorough { 1500 } else { 150 };
        let exe = std::env::current_exe().unwrap();
        let (mut hit_before, mut hit_after, mut in_update_new) = (0u64, 0u64, 0u64);
        let mut by_kind: BTreeMap<String, u64> = BTreeMap::new();
        for i in 0..n_kill {
            let len = 2 + rng.below(7) as usize;
            let cs = gen_calls(&mut rng, len);
            let kill_at = rng.below(len as u64 + 1) as usize; // = number of acknowledged calls
            let delay_us = if i % 5 == 0 { 0 } else { rng.below(400) };
            let dir = tempfile::tempdir().expect("tempdir");
            let path = dir.path().join("chewing.sqlite3");
            let mut ch = Command::new(&exe)
                .args(["--child", path.to_str().unwrap(), &toks(&cs)])
                .stdin(Stdio::piped())
                .stdout(Stdio::piped())
                .spawn()
                .expect("spawn");
            let mut cin = ch.stdin.take().unwrap();
            let mut cout = BufReader::new(ch.stdout.take().unwrap());
            let mut line = String::new();
            cout.read_line(&mut line).unwrap();
            let mut acks = 0usize;
            for _ in 0..kill_at {
                writeln!(cin, "go").unwrap();
                cin.flush().unwrap();
                line.clear();
                if cout.read_line(&mut line).unwrap_or(0) == 0 {
                    break;
                }
                acks += 1;
            }
            if acks < len {
                writeln!(cin, "go").unwrap();
                let _ = cin.flush();
                if delay_us > 0 {
                    let t = Instant::now();
                    while t.elapsed() < Duration::from_micros(delay_us) {
                        std::hint::spin_loop();
                    }
                }
            }
            let _ = ch.kill();
            let _ = ch.wait();
            let mut m = Spec::new();
            for c in &cs[..acks] {
                apply(&mut m, c);
            }
            let before = spec_view(&m);
            let mut after = before.clone();
            if acks < len {
                apply(&mut m, &cs[acks]);
                after = spec_view(&m);
            }
            let v = match read_view(&path, false) {
                Ok(v) => v,
                Err(e) => {
                    fails += 1;
                    out.oracle_fail("C10", "new", &format!("sqlite atomic: after SIGKILL in call {} of {} the database does not open: {}", acks, toks(&cs), e));
                    continue;
                }
            };
            let n = if v == before { hit_before += 1; acks } else { hit_after += 1; acks + 1 };
            if v != before && v != after {
                fails += 1;
                out.oracle_fail("C10", "new", &format!("sqlite atomic: after SIGKILL in call {} of {} (delay {} us) a new connection reads {} — neither {} (acknowledged calls) nor {} (plus the call in progress)", acks, toks(&cs), delay_us, v, before, after));
            }
            if acks < len {
                let kind = tok(&cs[acks])[..1].to_string();
                *by_kind.entry(kind).or_insert(0) += 1;
                if let C::Upd(k, ..) = &cs[acks] {
                    let mut m0 = Spec::new();
                    for c in &cs[..acks] { apply(&mut m0, c); }
                    if !matches!(m0.get(k), Some((_, Some(_)))) { in_update_new += 1; }
                }
            }
            out.rec(&format!("persistsql kill {} {} => {}", toks(&cs), n, v));
        }
        out.stat("kills", n_kill);
        out.stat("kill_found_call_not_committed", hit_before);
        out.stat("kill_found_call_committed", hit_after);
        out.stat("kill_in_two_statement_update", in_update_new);
        for (k, v) in &by_kind {
            out.stat(&format!("kill_in_call.{}", k), v);
        }
        out.stat("oracle_failures", fails);
        out.stat("wall_ms", t0.elapsed().as_millis());
        out.flush();
    }
}
