// scratch probe (not committed): F25 and F33 on the real C API
use chewing_capi::input::*;
use chewing_capi::output::*;
use chewing_capi::setup::*;
use chewing_capi::candidates::*;
use std::ffi::{c_char, c_int, c_void, CStr, CString};
use std::sync::Mutex;

static LOG: Mutex<Vec<(usize, String)>> = Mutex::new(Vec::new());

unsafe extern "C" fn cb(data: *mut c_void, _level: c_int, _fmt: *const c_char, arg: *const c_char) {
    let s = unsafe { CStr::from_ptr(arg) }.to_string_lossy().into_owned();
    LOG.lock().unwrap().push((data as usize, s));
}

type VarFn = unsafe extern "C" fn(*mut c_void, c_int, *const c_char, ...);

fn keys(ctx: *mut ChewingContext, s: &str) {
    for b in s.bytes() {
        unsafe { chewing_handle_Default(ctx, b as c_int) };
    }
}

fn main() {
    let sys = CString::new(format!("{}/tests/data", std::env::var("VERIF_REPO").unwrap())).unwrap();
    let user = CString::new("/tmp/probe-c17/:memory:").unwrap();
    unsafe {
        // F25
        let a = chewing_new2(sys.as_ptr(), user.as_ptr(), None, std::ptr::null_mut());
        keys(a, "hk4g4hk4g4");
        chewing_handle_Down(a);
        println!("A before reset: cursor {} selecting {}", chewing_cursor_Current(a), chewing_cand_CheckDone(a));
        chewing_Reset(a);
        keys(a, "hk4g4");
        chewing_handle_Home(a);
        chewing_handle_Down(a);
        chewing_handle_Esc(a);
        let b = chewing_new2(sys.as_ptr(), user.as_ptr(), None, std::ptr::null_mut());
        keys(b, "hk4g4");
        chewing_handle_Home(b);
        chewing_handle_Down(b);
        chewing_handle_Esc(b);
        println!("F25: reset ctx cursor {} fresh ctx cursor {}", chewing_cursor_Current(a), chewing_cursor_Current(b));
        chewing_delete(a);
        chewing_delete(b);
        // F33
        let f: VarFn = std::mem::transmute(cb as unsafe extern "C" fn(*mut c_void, c_int, *const c_char, *const c_char));
        let a = chewing_new2(sys.as_ptr(), user.as_ptr(), Some(f), 0xA as *mut c_void);
        LOG.lock().unwrap().clear();
        keys(a, "h");
        let n1: Vec<usize> = LOG.lock().unwrap().iter().map(|x| x.0).collect();
        println!("F33 step1: A alone, key on A -> {} lines, data tags {:?}", n1.len(), n1.iter().collect::<std::collections::BTreeSet<_>>());
        let b = chewing_new2(sys.as_ptr(), user.as_ptr(), Some(f), 0xB as *mut c_void);
        LOG.lock().unwrap().clear();
        keys(a, "k");
        let n2: Vec<usize> = LOG.lock().unwrap().iter().map(|x| x.0).collect();
        println!("F33 step2: after new2(B, loggerB), key on A -> {} lines, data tags {:?}", n2.len(), n2.iter().collect::<std::collections::BTreeSet<_>>());
        chewing_delete(b);
        LOG.lock().unwrap().clear();
        keys(a, "4");
        let n3 = LOG.lock().unwrap().len();
        println!("F33 step3: after delete(B), key on A -> {} lines", n3);
        chewing_delete(a);
    }
}
