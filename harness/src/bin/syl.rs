//! C13 correspondence + oracle: syllable codec over its full finite domain.
use chewing::zhuyin::{Bopomofo, Syllable, SyllableErrorKind};
use chewing_capi::output::chewing_phone_to_bopomofo;
use std::collections::{HashMap, HashSet};
use std::str::FromStr;
use vharness::*;

const ALL: [Bopomofo; 42] = {
    use Bopomofo::*;
    [
        B, P, M, F, D, T, N, L, G, K, H, J, Q, X, ZH, CH, SH, R, Z, C, S, I, U, IU, A, O, E, EH,
        AI, EI, AU, OU, AN, EN, ANG, ENG, ER, TONE5, TONE2, TONE3, TONE4, TONE1,
    ]
};

fn d(b: Option<Bopomofo>) -> String {
    opt(b.map(|b| b as u16))
}

fn syl(c: u16) -> Syllable {
    Syllable::try_from(c).unwrap()
}

fn p2b(c: u16, len: usize) -> String {
    let mut buf = vec![0xAAu8; len.max(1)];
    let ret = unsafe { chewing_phone_to_bopomofo(c, buf.as_mut_ptr().cast(), len as u16) };
    // written iff the first byte changed or (len>0 and string empty -> NUL written)
    let n = buf.iter().position(|b| *b == 0);
    let written = match n {
        Some(n) if len > 0 && !buf[..n].contains(&0xAA) => Some(String::from_utf8_lossy(&buf[..n]).to_string()),
        _ => None,
    };
    format!("{} {}", ret, match written { Some(s) => hx(&s), None => "-".into() })
}

fn parse_res(s: &str) -> String {
    match Syllable::from_str(s) {
        Ok(v) => format!("ok {}", v.to_u16()),
        Err(e) => format!(
            "err {}",
            match e.kind() {
                SyllableErrorKind::IncorrectOrder => "order",
                SyllableErrorKind::InvalidBopomofo => "invalid",
                _ => "multiple",
            }
        ),
    }
}

fn kind_ix(b: Bopomofo) -> u8 {
    use chewing::zhuyin::BopomofoKind::*;
    match b.kind() {
        Initial => 0,
        Medial => 1,
        Rime => 2,
        Tone => 3,
    }
}

fn main() {
    let mut out = Out::new();
    let thorough = tier_is_thorough();
    let mut rng = Rng::new(seed_from_env());

    // ---- discriminants really are 0..41 in this order (the model relies on it)
    for (i, b) in ALL.iter().enumerate() {
        assert_eq!(*b as usize, i);
        let ch: char = (*b).into();
        out.rec(&format!("syl sym {} => {} {} {}", i, kind_ix(*b), ch as u32,
            opt(Bopomofo::try_from(ch).ok().map(|x| x as u16))));
    }
    // chars that are not symbols
    for cp in [0u32, 0x41, 0x3104, 0x312A, 0x02C8, 0x02CC, 0x4E00] {
        let ch = char::from_u32(cp).unwrap();
        out.rec(&format!("syl chr {} => {}", cp, opt(Bopomofo::try_from(ch).ok().map(|x| x as u16))));
    }

    // ---- every 16-bit value: is it a syllable (try_from), and if so accessors, spelling, removers, pop, C conversion;
    //      oracle S (C13, F47): an accepted value converts back from its components and from its spelling
    let mut valid: Vec<u16> = vec![];
    let (mut n_roundtrip, mut n_tone1) = (0u64, 0u64);
    for c in 0..=65535u16 {
        let s = match Syllable::try_from(c) {
            Ok(s) => s,
            Err(_) => {
                out.rec(&format!("syl code {} => err {} {}", c, p2b(c, 16), p2b(c, 0)));
                continue;
            }
        };
        valid.push(c);
        let text = s.to_string();
        let mut rm = vec![];
        for k in 0..4 {
            let mut t = s;
            match k {
                0 => t.remove_initial(),
                1 => t.remove_medial(),
                2 => t.remove_rime(),
                _ => t.remove_tone(),
            };
            if Syllable::try_from(t.to_u16()).ok() != Some(t) {
                out.oracle_fail("C13", "new", &format!("remove kind {} on {:#06x} gives {:#06x}, which try_from rejects", k, c, t.to_u16()));
            }
            rm.push(t.to_u16().to_string());
        }
        let mut t = s;
        let popped = t.pop();
        if Syllable::try_from(t.to_u16()).ok() != Some(t) {
            out.oracle_fail("C13", "new", &format!("pop on {:#06x} gives {:#06x}, which try_from rejects", c, t.to_u16()));
        }
        let blen = text.len();
        out.rec(&format!(
            "syl code {} => {} {} {} {} {} {} {} {} {} {} {} {}",
            c, d(s.initial()), d(s.medial()), d(s.rime()), d(s.tone()), hx(&text),
            s.is_empty() as u8, rm.join(" "), d(popped), t.to_u16(),
            p2b(c, blen + 1), p2b(c, blen), p2b(c, 0)
        ));
        // the known class, computed from the bit layout alone: all fields inside their tables, tone value 5 (F18)
        let tone1 = c & 0x8000 == 0 && (c >> 9) & 63 <= 21 && (c >> 7) & 3 <= 3 && (c >> 3) & 15 <= 13 && c & 7 == 5;
        let class = if tone1 { "F18-tone1" } else { "new" };
        let mut ok = true;
        if s.to_u16() != c {
            out.oracle_fail("C13", "new", &format!("try_from({:#06x}) hands out the syllable {:#06x}", c, s.to_u16()));
            ok = false;
        }
        let mut b = Some(Syllable::builder());
        for x in [s.initial(), s.medial(), s.rime(), s.tone()].into_iter().flatten() {
            b = b.and_then(|b| b.insert(x).ok());
        }
        let rebuilt = b.map(|b| b.build());
        if rebuilt != Some(s) {
            out.oracle_fail("C13", class, &format!("try_from accepts {:#06x} but its components ({} {} {} {}) build {}", c,
                d(s.initial()), d(s.medial()), d(s.rime()), d(s.tone()),
                rebuilt.map(|r| format!("{:#06x}", r.to_u16())).unwrap_or("an error".into())));
            ok = false;
        }
        let back = Syllable::from_str(&text).ok();
        if back != Some(s) {
            out.oracle_fail("C13", class, &format!("try_from accepts {:#06x} but its spelling {} parses to {}", c, hx(&text),
                back.map(|r| format!("{:#06x}", r.to_u16())).unwrap_or("an error".into())));
            ok = false;
        }
        if ok { n_roundtrip += 1 } else if tone1 { n_tone1 += 1 }
    }
    out.stat("codes", 65536);
    out.stat("codes_accepted", valid.len());
    out.stat("codes_accepted_roundtrip", n_roundtrip);
    out.stat("codes_accepted_tone1_F18", n_tone1);

    // ---- update: every syllable value x 42 symbols (both tiers); the result must again be a syllable value
    let mut n_upd = 0u64;
    for &c in &valid {
        let mut res = vec![];
        for b in ALL {
            let mut t = syl(c);
            let r = std::panic::catch_unwind(move || {
                t.update(b);
                t.to_u16()
            });
            if let Ok(v) = r {
                if Syllable::try_from(v).is_err() {
                    out.oracle_fail("C13", "new", &format!("update({}) on {:#06x} gives {:#06x}, which try_from rejects", b as u16, c, v));
                }
            }
            res.push(match r { Ok(v) => v.to_string(), Err(_) => "!".to_string() });
            n_upd += 1;
        }
        out.rec(&format!("syl update {} => {}", c, res.join(" ")));
    }
    out.stat("updates", n_upd);

    // ---- builder / parser: all strings of <= 3 symbols, then every one-symbol extension of every
    //      string that parses (this reaches every transition of every reachable builder state)
    let mut ok_strings: Vec<Vec<usize>> = vec![vec![]];
    let mut frontier: Vec<Vec<usize>> = vec![vec![]];
    let mut n_parse = 0u64;
    let mut spell_of: HashMap<String, u16> = HashMap::new();
    let mut seen_codes: HashSet<u16> = HashSet::new();
    let emit = |out: &mut Out, syms: &Vec<usize>, n_parse: &mut u64| -> bool {
        let s: String = syms.iter().map(|i| char::from(ALL[*i])).collect();
        let r = parse_res(&s);
        out.rec(&format!("syl parse {} => {}", hx(&s), r));
        *n_parse += 1;
        // oracle S (C13): parse ok => kinds strictly increasing, spelling of the result is the input
        if let Ok(v) = Syllable::from_str(&s) {
            let kinds: Vec<u8> = syms.iter().map(|i| kind_ix(ALL[*i])).collect();
            if !kinds.windows(2).all(|w| w[0] < w[1]) {
                out.oracle_fail("C13", "new", &format!("disordered spelling {} accepted", hx(&s)));
            }
            if v.to_string() != s {
                let class = if s.contains('ˉ') { "F18-tone1" } else { "new" };
                out.oracle_fail("C13", class, &format!("parse({})={} spells back as {}", hx(&s), v.to_u16(), hx(&v.to_string())));
            }
            if Syllable::try_from(v.to_u16()).ok() != Some(v) {
                out.oracle_fail("C13", "new", &format!("parse({}) = {:#06x}, which try_from rejects", hx(&s), v.to_u16()));
            }
            true
        } else {
            false
        }
    };
    for len in 1..=6 {
        let mut next = vec![];
        for base in &frontier {
            for i in 0..42 {
                let mut s = base.clone();
                s.push(i);
                let ok = emit(&mut out, &s, &mut n_parse);
                if ok {
                    ok_strings.push(s.clone());
                }
                if ok || len <= 2 {
                    next.push(s);
                }
            }
        }
        frontier = next;
        if frontier.is_empty() {
            break;
        }
    }
    // non-symbol characters and random junk
    for s in ["a", "ㄅa", " ㄅ", "ㄅ ", "一", "ㄅㄅ", "ˊㄅ", "ㄚㄅˊ", "ㄧㄧ", "ㄅㄧㄚˊˊ"] {
        out.rec(&format!("syl parse {} => {}", hx(s), parse_res(s)));
        n_parse += 1;
    }
    for _ in 0..(if thorough { 200_000 } else { 20_000 }) {
        let n = rng.below(7) as usize;
        let s: String = (0..n).map(|_| char::from(ALL[rng.below(42) as usize])).collect();
        out.rec(&format!("syl parse {} => {}", hx(&s), parse_res(&s)));
        n_parse += 1;
    }
    out.stat("parses", n_parse);
    out.stat("parse_ok_strings", ok_strings.len());

    // ---- oracle S on the 6160 composable tuples, built through the public builder
    let mut composable: Vec<(Syllable, [Option<Bopomofo>; 4])> = vec![];
    for i in 0..22usize {
        for m in 0..4usize {
            for r in 0..14usize {
                for t in 0..5usize {
                    let comps = [
                        if i == 0 { None } else { Some(ALL[i - 1]) },
                        if m == 0 { None } else { Some(ALL[21 + m - 1]) },
                        if r == 0 { None } else { Some(ALL[24 + r - 1]) },
                        if t == 0 { None } else { Some(ALL[37 + t - 1]) },
                    ];
                    let mut b = Syllable::builder();
                    for c in comps.iter().flatten() {
                        b = b.insert(*c).expect("composable tuple rejected by the builder");
                    }
                    let s = b.build();
                    let code = s.to_u16();
                    out.rec(&format!("syl compose {} {} {} {} => {}", i, m, r, t, code));
                    if !seen_codes.insert(code) {
                        out.oracle_fail("C13", "new", &format!("code {} composed twice", code));
                    }
                    if [s.initial(), s.medial(), s.rime(), s.tone()] != comps {
                        out.oracle_fail("C13", "new", &format!("components of {} do not round-trip", code));
                    }
                    if Syllable::try_from(code).ok() != Some(s) {
                        out.oracle_fail("C13", "new", &format!("code {} does not round-trip", code));
                    }
                    let text = s.to_string();
                    if let Some(prev) = spell_of.insert(text.clone(), code) {
                        out.oracle_fail("C13", "new", &format!("codes {} and {} share spelling {}", prev, code, hx(&text)));
                    }
                    if Syllable::from_str(&text).ok() != Some(s) {
                        out.oracle_fail("C13", "new", &format!("spelling {} of {} does not parse back", hx(&text), code));
                    }
                    // update with each component re-applied is the identity; with another value replaces it
                    let mut u = Syllable::new();
                    for c in comps.iter().flatten() {
                        u.update(*c);
                    }
                    if u != s {
                        out.oracle_fail("C13", "new", &format!("update-built {} != builder-built {}", u.to_u16(), code));
                    }
                    // removers / pop / update act on exactly one component
                    for k in 0..4 {
                        let mut x = s;
                        let removed = match k { 0 => x.remove_initial(), 1 => x.remove_medial(), 2 => x.remove_rime(), _ => x.remove_tone() };
                        let mut want = comps;
                        want[k] = None;
                        if removed != comps[k] || [x.initial(), x.medial(), x.rime(), x.tone()] != want || x.to_u16() == 0 {
                            out.oracle_fail("C13", "new", &format!("remove kind {} on {} gives {}", k, code, x.to_u16()));
                        }
                    }
                    {
                        let mut x = s;
                        let last = (0..4).rev().find(|k| comps[*k].is_some());
                        let popped = x.pop();
                        let mut want = comps;
                        if let Some(k) = last { want[k] = None; }
                        if popped != last.and_then(|k| comps[k]) || [x.initial(), x.medial(), x.rime(), x.tone()] != want {
                            out.oracle_fail("C13", "new", &format!("pop on {} gives {}", code, x.to_u16()));
                        }
                    }
                    for b in &ALL[..41] {
                        let mut x = s;
                        x.update(*b);
                        let mut want = comps;
                        want[kind_ix(*b) as usize] = Some(*b);
                        if [x.initial(), x.medial(), x.rime(), x.tone()] != want {
                            out.oracle_fail("C13", "new", &format!("update({}) on {} gives {}", *b as u16, code, x.to_u16()));
                        }
                    }
                    composable.push((s, comps));
                }
            }
        }
    }
    out.stat("composable", composable.len());

    // ---- starts_with: shift class of every syllable value by single-bit probes (model compares the mask; a probe that
    //      is not a syllable value cannot be asked) ...
    for &p in &valid {
        let ps = syl(p);
        let mut mask = 0u32;
        for j in 0..16 {
            let q = p ^ (1 << j);
            if let Ok(qs) = Syllable::try_from(q) {
                if qs.starts_with(ps) {
                    mask |= 1 << j;
                }
            }
        }
        out.rec(&format!("syl swmask {} => {}", p, mask));
    }
    // ... random pairs ...
    let pick = |rng: &mut Rng| valid[rng.below(valid.len() as u64) as usize];
    for _ in 0..(if thorough { 500_000 } else { 50_000 }) {
        let a = pick(&mut rng);
        let mut b = pick(&mut rng);
        if rng.chance(1, 2) {
            // a near-prefix: clear some low fields of a
            b = a & [0xFFFF, 0xFFF8, 0xFF80, 0xFE00][rng.below(4) as usize];
            if rng.chance(1, 4) {
                b ^= 1 << rng.below(16);
            }
            if Syllable::try_from(b).is_err() {
                b = a;
            }
        }
        out.rec(&format!("syl sw {} {} => {}", a, b, syl(a).starts_with(syl(b)) as u8));
    }
    // ... and oracle S on all composable pairs (spec: agree up to the last component present in p)
    let mut bad = 0u64;
    for (s, sc) in &composable {
        for (p, pc) in &composable {
            if p.is_empty() {
                continue;
            }
            let last = (0..4).rev().find(|k| pc[*k].is_some()).unwrap();
            let spec = (0..=last).all(|k| sc[k] == pc[k]);
            if s.starts_with(*p) != spec {
                bad += 1;
                if bad <= 5 {
                    out.oracle_fail("C13", "new", &format!("starts_with({}, {}) = {} but spec {}", s.to_u16(), p.to_u16(), !spec, spec));
                }
            }
        }
    }
    out.stat("starts_with_pairs", composable.len() * (composable.len() - 1));
    out.sample("syl code 10268 => 19 - 28 40 …  (accessors, spelling, removers, pop, C conversion of one code)");
    out.flush();
}
