//! Shared by `legacy.rs` and `corrupt.rs` (C12 / C19): sharded child-process workers with a
//! watchdog, trie-part extraction through the public API, small DER writer, entry tokens.
#![allow(dead_code)]
use chewing::dictionary::{Dictionary, LookupStrategy, Phrase, Trie};
use chewing::zhuyin::Syllable;
use std::io::{BufRead, BufReader, Read};
use std::process::{Command, Stdio};
use std::sync::mpsc;
use std::time::Duration;

pub fn hex(b: &[u8]) -> String {
    let mut s = String::with_capacity(2 * b.len());
    for x in b {
        s.push_str(&format!("{:02x}", x));
    }
    s
}

pub fn syls_tok(s: &[u16]) -> String {
    if s.is_empty() {
        "-".into()
    } else {
        s.iter().map(|x| x.to_string()).collect::<Vec<_>>().join(",")
    }
}

/// `<syls>/<x-hex phrase>/<freq>/<time>`
pub fn entry_tok(syls: &[u16], phrase: &str, freq: u32, time: u64) -> String {
    format!("{}/x{}/{}/{}", syls_tok(syls), hex(phrase.as_bytes()), freq, time)
}

pub fn entry_of(e: &(Vec<Syllable>, Phrase)) -> (Vec<u16>, Vec<u8>, u32, u64) {
    (
        e.0.iter().map(|s| s.to_u16()).collect(),
        e.1.as_str().as_bytes().to_vec(),
        e.1.freq(),
        e.1.last_used().unwrap_or_default(),
    )
}

pub fn entries_tok(es: &[(Vec<u16>, Vec<u8>, u32, u64)]) -> String {
    format!(
        "D:{}",
        es.iter()
            .map(|e| format!("{}/x{}/{}/{}", syls_tok(&e.0), hex(&e.1), e.2, e.3))
            .collect::<Vec<_>>()
            .join(";")
    )
}

/// opaque phrase token of the `walk` records
pub fn phrase_tok(p: &Phrase) -> String {
    format!(
        "x{}:{}:{}",
        hex(p.as_str().as_bytes()),
        p.freq(),
        match p.last_used() {
            Some(t) => t.to_string(),
            None => "-".into(),
        }
    )
}

// ---------------------------------------------------------------- DER writer (definite, minimal)
pub fn der_len(n: usize) -> Vec<u8> {
    if n < 0x80 {
        vec![n as u8]
    } else if n < 0x100 {
        vec![0x81, n as u8]
    } else if n < 0x10000 {
        vec![0x82, (n >> 8) as u8, n as u8]
    } else {
        vec![0x83, (n >> 16) as u8, (n >> 8) as u8, n as u8]
    }
}

pub fn tlv(tag: u8, content: &[u8]) -> Vec<u8> {
    let mut v = vec![tag];
    v.extend(der_len(content.len()));
    v.extend_from_slice(content);
    v
}

/// a trie file with the given index and phrase bytes (empty info strings)
pub fn trie_doc(index: &[u8], data: &[u8]) -> Vec<u8> {
    let mut body = tlv(0x0c, b"CHEW");
    body.extend([2u8, 1, 0]);
    body.extend(tlv(0x30, &[0x0c, 0, 0x0c, 0, 0x0c, 0, 0x0c, 0, 0x0c, 0]));
    body.extend(tlv(0x04, index));
    body.extend(tlv(0x30, data));
    tlv(0x30, &body)
}

pub fn rec8(a: u32, b: u16, s: u16) -> [u8; 8] {
    let mut r = [0u8; 8];
    r[..4].copy_from_slice(&a.to_be_bytes());
    r[4..6].copy_from_slice(&b.to_be_bytes());
    r[6..8].copy_from_slice(&s.to_be_bytes());
    r
}

/// What the repository's `PhrasesIter` decodes from `data` (≤ 65535 bytes), obtained through the
/// public API: a two-record index (root -> one leaf covering all of `data`) and an empty query.
pub fn decode_phrases(data: &[u8]) -> Vec<Phrase> {
    if data.is_empty() || data.len() > 65535 {
        return vec![];
    }
    let mut index = vec![];
    index.extend(rec8(1, 1, 0));
    index.extend(rec8(0, data.len() as u16, 0));
    let doc = trie_doc(&index, data);
    match Trie::new(&doc[..]) {
        Ok(t) => t.lookup_all_phrases(&Vec::<Syllable>::new(), LookupStrategy::Standard),
        Err(_) => vec![],
    }
}

/// (index bytes, phrase bytes) of an opened `Trie`, read off its derived `Debug` output
/// (`index: [..], phrase_seq: [..], fuzzy_search: ..`) — no source hook needed.
pub fn trie_parts(t: &Trie) -> Option<(Vec<u8>, Vec<u8>)> {
    let s = format!("{:?}", t);
    let m2 = s.rfind("], phrase_seq: [")?;
    let tail = &s[m2 + "], phrase_seq: [".len()..];
    let e2 = tail.find(']')?;
    let data = parse_nums(&tail[..e2])?;
    let head = &s[..m2];
    let m1 = head.rfind("index: [")?;
    let index = parse_nums(&head[m1 + "index: [".len()..])?;
    Some((index, data))
}

fn parse_nums(s: &str) -> Option<Vec<u8>> {
    let s = s.trim();
    if s.is_empty() {
        return Some(vec![]);
    }
    s.split(',').map(|x| x.trim().parse::<u8>().ok()).collect()
}

#[derive(Clone, Copy, Debug, PartialEq)]
pub struct IRec {
    pub a: u64,
    pub b: u64,
    pub s: u16,
}

pub fn parse_index(index: &[u8]) -> Vec<IRec> {
    index
        .chunks_exact(8)
        .map(|c| IRec {
            a: u32::from_be_bytes(c[..4].try_into().unwrap()) as u64,
            b: u16::from_be_bytes(c[4..6].try_into().unwrap()) as u64,
            s: u16::from_be_bytes(c[6..8].try_into().unwrap()),
        })
        .collect()
}

/// `T:db,de=p|p;…` for every leaf-shaped record with an in-range, non-empty data range
pub fn leaf_table(recs: &[IRec], data: &[u8]) -> (String, usize) {
    let mut count = std::collections::BTreeMap::new();
    let mut items = vec![];
    // `total` = what a walk entering every leaf-shaped record once can yield at most (two leaf
    // records may share a data range: each of them yields it)
    let mut total = 0;
    for r in recs {
        if r.s == 0 && r.b > 0 && r.a + r.b <= data.len() as u64 {
            let key = (r.a, r.a + r.b);
            if !count.contains_key(&key) {
                let ps = decode_phrases(&data[r.a as usize..(r.a + r.b) as usize]);
                count.insert(key, ps.len());
                items.push(format!(
                    "{},{}={}",
                    r.a,
                    r.a + r.b,
                    ps.iter().map(phrase_tok).collect::<Vec<_>>().join("|")
                ));
            }
            total += count[&key];
        }
    }
    (format!("T:{}", items.join(";")), total)
}

/// record is used as a node by the traversals: the root, or a non-zero syllable
fn nodeish(i: usize, r: &IRec) -> bool {
    i == 0 || r.s != 0
}
fn in_range(r: &IRec, n: usize) -> bool {
    r.b > 0 && r.a + r.b <= n as u64
}

/// finding class F16: the index is not a tree laid out parent-before-child — some node record's
/// (in-bounds, non-empty) child range starts at or before the record itself, or two node records'
/// child ranges overlap.  Mirrors `¬ (Forward t ∧ Disjoint t)` of `Props/C12.lean`.
pub fn non_tree_index(recs: &[IRec]) -> bool {
    let n = recs.len();
    let nodes: Vec<(usize, &IRec)> =
        recs.iter().enumerate().filter(|(i, r)| nodeish(*i, r) && in_range(r, n)).collect();
    for (i, r) in &nodes {
        if r.a <= *i as u64 {
            return true;
        }
    }
    for x in 0..nodes.len() {
        for y in x + 1..nodes.len() {
            let (p, q) = (nodes[x].1, nodes[y].1);
            if p.a < q.a + q.b && q.a < p.a + p.b {
                return true;
            }
        }
    }
    false
}

/// finding class F17: a zero syllable at a non-first position of some node record's child range.
/// Mirrors `¬ NoZeroChild t` of `Props/C12.lean`.
pub fn zero_syllable_child(recs: &[IRec]) -> bool {
    let n = recs.len();
    for (i, r) in recs.iter().enumerate() {
        if nodeish(i, r) && in_range(r, n) {
            for j in (r.a + 1)..(r.a + r.b) {
                if recs[j as usize].s == 0 {
                    return true;
                }
            }
        }
    }
    false
}

/// A 16-bit value that is a syllable code (what `Syllable::try_from` has to accept since the repair of C13's F47),
/// computed here from the bit layout alone — independent of the repository's `try_from` and of the Lean model:
/// the empty pattern 0x8000, or marker bit clear, initial <= 21, medial <= 3, rime <= 13, tone <= 5, not zero.
pub fn is_syllable_code(v: u16) -> bool {
    if v == 0x8000 {
        return true;
    }
    v != 0 && v & 0x8000 == 0 && (v >> 9) & 0x3f <= 21 && (v >> 7) & 3 <= 3 && (v >> 3) & 0xf <= 13 && v & 7 <= 5
}

/// a random valid (non-empty) syllable code: any combination of in-range component fields, not all absent
pub fn valid_code(rng: &mut vharness::Rng) -> u16 {
    loop {
        let v = (rng.below(22) * 512 + rng.below(4) * 128 + rng.below(14) * 8 + rng.below(6)) as u16;
        if v != 0 {
            return v;
        }
    }
}

/// values `Syllable::try_from` must reject although they are not zero: component index out of range (initial 53 /
/// tone 7; tone 6; initial 22; rime 14 and 15), marker bit next to other bits, all ones
pub const INVALID_CODES: &[u16] = &[0x6a07, 0x8208, 0x020e, 0xffff, 0x2bee, 0x2c00, 0x0070, 0x0078, 0x8001, 0xa81c, 0x0007];

/// a node record (any record but the root with a non-zero syllable field) whose syllable is not a syllable code.
/// Mirrors `¬ sylsOk` of `Model/TrieValidate.lean`; since the repair of F47 `validate_index` has to reject such an index
/// (`entries()` would panic at `Syllable::try_from(..).unwrap()`).
pub fn invalid_syllable_node(recs: &[IRec]) -> bool {
    recs.iter().enumerate().any(|(i, r)| i != 0 && r.s != 0 && !is_syllable_code(r.s))
}

// ---------------------------------------------------------------- child-process workers
pub enum Ev {
    /// a line the worker printed
    Line(String),
    /// the worker died (signal / abort / non-zero exit) or was killed by the watchdog while
    /// working on the step it announced with `@begin <step-id> <text>`
    Died { step: Option<(String, String)>, timeout: bool, stderr: String },
}

pub fn limit_memory(bytes: u64) {
    unsafe {
        let lim = libc::rlimit { rlim_cur: bytes, rlim_max: bytes };
        libc::setrlimit(libc::RLIMIT_AS, &lim);
    }
}

/// Runs `current_exe <args…>` as a worker.  The worker prints `@begin <id> <text>` before each
/// step, then ordinary lines, and `@done` at the very end.  Returns the events in order and
/// `true` if the worker reached `@done`.  `watchdog` bounds the time between two `@begin`s.
pub fn run_worker(args: &[String], watchdog: Duration) -> (Vec<Ev>, bool) {
    let exe = std::env::current_exe().unwrap();
    let mut child = Command::new(exe)
        .args(args)
        .stdin(Stdio::null())
        .stdout(Stdio::piped())
        .stderr(Stdio::piped())
        .spawn()
        .expect("spawn worker");
    let stdout = child.stdout.take().unwrap();
    let mut stderr = child.stderr.take().unwrap();
    let (tx, rx) = mpsc::channel::<Option<String>>();
    let reader = std::thread::spawn(move || {
        let r = BufReader::new(stdout);
        for line in r.lines() {
            match line {
                Ok(l) => {
                    if tx.send(Some(l)).is_err() {
                        return;
                    }
                }
                Err(_) => break,
            }
        }
        let _ = tx.send(None);
    });
    let errt = std::thread::spawn(move || {
        let mut s = Vec::new();
        let _ = stderr.read_to_end(&mut s);
        String::from_utf8_lossy(&s).to_string()
    });
    let mut evs = vec![];
    let mut cur: Option<(String, String)> = None;
    let mut done = false;
    let mut timeout = false;
    loop {
        match rx.recv_timeout(watchdog) {
            Ok(Some(l)) => {
                if let Some(rest) = l.strip_prefix("@begin ") {
                    let (id, text) = rest.split_once(' ').unwrap_or((rest, ""));
                    cur = Some((id.to_string(), text.to_string()));
                } else if l == "@done" {
                    done = true;
                    cur = None;
                } else if l.starts_with("@end") {
                    cur = None;
                } else {
                    evs.push(Ev::Line(l));
                }
            }
            Ok(None) => break,
            Err(mpsc::RecvTimeoutError::Timeout) => {
                timeout = true;
                let _ = child.kill();
                break;
            }
            Err(mpsc::RecvTimeoutError::Disconnected) => break,
        }
    }
    let _ = child.wait();
    let _ = reader.join();
    let stderr = errt.join().unwrap_or_default();
    if !done {
        evs.push(Ev::Died { step: cur, timeout, stderr });
    }
    (evs, done)
}

/// the first panic of a worker's stderr: the `panicked at <location>` line and its message
pub fn stderr_gist(s: &str) -> String {
    let lines: Vec<&str> = s.lines().collect();
    let mut g = String::new();
    if let Some(i) = lines.iter().position(|l| l.contains("panicked at")) {
        g = lines[i].split("panicked at").nth(1).unwrap_or("").trim().to_string();
        if let Some(m) = lines.get(i + 1) {
            g.push_str(" | ");
            g.push_str(m.trim());
        }
    } else if let Some(l) = lines.iter().find(|l| l.contains("memory allocation")) {
        g = l.to_string();
    } else if let Some(l) = lines.last() {
        g = l.to_string();
    }
    g.chars().take(240).collect::<String>().replace(' ', "_")
}

/// STATISTIC (the predicate of the former finding class F39, dictionary-file form; repaired at the engine by
/// 870202b, no oracle class any more): the root's first child is a leaf, i.e. the file holds an entry under the
/// empty syllable key (`TrieBuilder` itself writes such files when asked to); `lookup(&[])` is then non-empty
/// and every conversion used to abort.
pub fn empty_key_entry(recs: &[IRec]) -> bool {
    match recs.first() {
        Some(r) if in_range(r, recs.len()) => recs[r.a as usize].s == 0,
        _ => false,
    }
}
