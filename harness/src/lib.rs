//! Shared helpers of the correspondence harness: PRNG, hex, transcript output.
use std::io::{self, BufWriter, Write};

/// xorshift64* — every random choice of a run derives from one seed (VERIF_SEED).
#[derive(Clone, Debug)]
pub struct Rng(pub u64);

impl Rng {
    pub fn new(seed: u64) -> Rng {
        let mut r = Rng(seed ^ 0x9E37_79B9_7F4A_7C15);
        if r.0 == 0 {
            r.0 = 0x1234_5678_9ABC_DEF1;
        }
        for _ in 0..4 {
            r.next();
        }
        r
    }
    pub fn next(&mut self) -> u64 {
        let mut x = self.0;
        x ^= x >> 12;
        x ^= x << 25;
        x ^= x >> 27;
        self.0 = x;
        x.wrapping_mul(0x2545_F491_4F6C_DD1D)
    }
    /// uniform in 0..n (n > 0)
    pub fn below(&mut self, n: u64) -> u64 {
        self.next() % n
    }
    pub fn range(&mut self, lo: i64, hi: i64) -> i64 {
        lo + (self.below((hi - lo + 1) as u64) as i64)
    }
    pub fn chance(&mut self, num: u64, den: u64) -> bool {
        self.below(den) < num
    }
    pub fn pick<'a, T>(&mut self, xs: &'a [T]) -> &'a T {
        &xs[self.below(xs.len() as u64) as usize]
    }
    /// weighted choice: returns the index
    pub fn weighted(&mut self, weights: &[u32]) -> usize {
        let total: u64 = weights.iter().map(|w| *w as u64).sum();
        let mut x = self.below(total);
        for (i, w) in weights.iter().enumerate() {
            if x < *w as u64 {
                return i;
            }
            x -= *w as u64;
        }
        weights.len() - 1
    }
}

pub fn seed_from_env() -> u64 {
    std::env::var("VERIF_SEED")
        .ok()
        .and_then(|s| s.trim().parse::<u64>().ok())
        .unwrap_or(1)
}

pub fn tier_is_thorough() -> bool {
    std::env::var("VERIF_TIER").map(|t| t == "thorough").unwrap_or(false)
}

/// `x<hex of utf-8 bytes>`; the empty string is `x`.
pub fn hx(s: &str) -> String {
    hb(s.as_bytes(), 'x')
}

/// `b<hex>` raw bytes
pub fn hbytes(b: &[u8]) -> String {
    hb(b, 'b')
}

fn hb(b: &[u8], tag: char) -> String {
    let mut out = String::with_capacity(1 + 2 * b.len());
    out.push(tag);
    for byte in b {
        out.push_str(&format!("{:02x}", byte));
    }
    out
}

pub fn unhex(s: &str) -> Vec<u8> {
    let s = &s[1..];
    (0..s.len() / 2)
        .map(|i| u8::from_str_radix(&s[2 * i..2 * i + 2], 16).unwrap())
        .collect()
}

/// Option<number> as `-` / number
pub fn opt<T: std::fmt::Display>(o: Option<T>) -> String {
    match o {
        Some(v) => v.to_string(),
        None => "-".to_string(),
    }
}

pub struct Out {
    w: BufWriter<io::Stdout>,
    pub lines: u64,
    /// while set nothing is written (editor BFS: the oracles are fed with a silently replayed history to rebuild
    /// their cross-step state; every replayed step was recorded and judged when it was first explored)
    pub mute: bool,
    /// `!oracle` lines written so far (not counted while muted)
    pub oracle_fails: u64,
    /// while set `#stat` / `#sample` lines are dropped (editor BFS: the oracles' periodic statistics are per-session noise there)
    pub mute_stats: bool,
}

impl Out {
    pub fn new() -> Out {
        Out { w: BufWriter::with_capacity(1 << 20, io::stdout()), lines: 0, mute: false, oracle_fails: 0, mute_stats: false }
    }
    /// a transcript record the model has to reproduce
    pub fn rec(&mut self, line: &str) {
        if self.mute {
            return;
        }
        self.lines += 1;
        writeln!(self.w, "{}", line).unwrap();
    }
    /// statistics / comments (ignored by the model driver, collected by the orchestrator)
    pub fn stat(&mut self, key: &str, val: impl std::fmt::Display) {
        if self.mute || self.mute_stats {
            return;
        }
        writeln!(self.w, "#stat {} {}", key, val).unwrap();
    }
    pub fn sample(&mut self, text: &str) {
        if self.mute || self.mute_stats {
            return;
        }
        writeln!(self.w, "#sample {}", text).unwrap();
    }
    /// the property, evaluated directly on the implementation, fails on this input
    /// `class` is the finding class the input falls in (see KNOWN_FINDINGS.txt), or `new`
    pub fn oracle_fail(&mut self, prop: &str, class: &str, detail: &str) {
        if self.mute {
            return;
        }
        self.oracle_fails += 1;
        writeln!(self.w, "!oracle {} {} {}", prop, class, detail).unwrap();
    }
    pub fn flush(&mut self) {
        self.w.flush().unwrap();
    }
}

impl Default for Out {
    fn default() -> Self {
        Out::new()
    }
}

impl Drop for Out {
    fn drop(&mut self) {
        let _ = self.w.flush();
    }
}
