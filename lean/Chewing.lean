-- Root of the `Chewing` library: every property module (and through them the model and proofs).
import Chewing.Props.C13
