-- @component capiget capigetExpected
import Chewing.Model.CApiGetters
import Chewing.Driver.Util
/-!
`capiget …` records: the C getters of `capi/src/io.rs` (work package capiget; C17 / C06).

    capiget obs <display> <len> <is_empty> <cursor> <commit> <notice> <bopomofo> <entering_syllable> <is_selecting>
                <all_candidates> <paginated_candidates> <total_page> <current_page_no> <has_next> <has_prev>
                <intervals> <last_key_behavior> <options> <phone sequence>
            => commit_Check=… commit_String=… … modes=… zuin_Check=… zuin_String=… zuin_count=… phoneSeqLen=… phoneSeq=…

Before `=>`: the answers of the TWIN editor's Rust getters after a call of a generated C-API history (texts `x<hex>`,
lists `L<x…>,<x…>` or `-` for `Err`, options `-` for `Err`, intervals `I<start>:<end>:<is_phrase>,…`, the 14 option fields in the
encoding of `Model/Config.lean`).  After `=>`: what the REAL C getters returned on the C context driven with the same
calls, in the order `observe_c` asks them (every plain getter once, `chewing_cand_string_by_index(_static)` for
0..TotalChoice and for -1, TotalChoice, TotalChoice+7, the two enumeration loops, the eleven legacy mode getters, the deprecated
`chewing_zuin_Check` / `chewing_zuin_String(ctx, &count)`, `chewing_get_phoneSeqLen` / `chewing_get_phoneSeq`).

The model (`Model/CApiGetters.lean`: `getOn` over the generated table `Gen.CApiGetters.getterTable`) recomputes every
answer from the facts, threading the getter slots (static buffers, iterator slots) through the calls in that order.
-/
namespace Chewing.Driver
open Chewing Chewing.CApi

def gListOf (s : String) : Option (List Text) :=
  if s == "-" then none
  else
    let body := (s.drop 1).toString
    if body.isEmpty then some [] else some ((body.splitOn ",").map cpsOfHx)

def gOptNat (s : String) : Option Nat := if s == "-" then none else some (natOf s)

def gIntervals (s : String) : List (Nat × Nat × Bool) :=
  let body := (s.drop 1).toString
  if body.isEmpty then [] else
    (body.splitOn ",").map fun t =>
      match t.splitOn ":" with
      | [a, b, p] => (natOf a, natOf b, p == "1")
      | _ => (0, 0, false)

def gKB (s : String) : KB :=
  if s == "Ignore" then .ignore else if s == "Commit" then .commit else if s == "Bell" then .bell else .absorb

/-- what `CStr::from_ptr(p).to_string_lossy()` of the harness shows for a value, as an `x<hex>` token -/
def gText (v : GVal) : String :=
  match v with
  | .heap none => hexBytes 'x' ("<NULL>".toList.map Char.toNat)
  | v => match v.text with
    | some bs => hexBytes 'x' bs
    | none => "x??"

def gInt (v : GVal) : String :=
  match v with
  | .int i => toString i
  | _ => "?"

/-- state of the recomputation: slots and the output tokens so far (reversed) -/
structure GRun where
  slots : GSlots := {}
  out : List String := []
  bad : Option String := none

def GRun.call (f : GFacts) (r : GRun) (q : Getter) : GRun × GVal :=
  match getOn f r.slots q with
  | .ok (s, v) => ({ r with slots := s }, v)
  | .panic p => ({ r with bad := some ("panic:" ++ p) }, .unit)
  | .outOfFuel => ({ r with bad := some "outOfFuel" }, .unit)

def GRun.int (f : GFacts) (r : GRun) (label fn : String) : GRun :=
  let (r, v) := r.call f (.plain ("chewing_" ++ fn))
  { r with out := (label ++ "=" ++ gInt v) :: r.out }

def GRun.str (f : GFacts) (r : GRun) (label fn : String) : GRun :=
  let (r, v) := r.call f (.plain ("chewing_" ++ fn))
  { r with out := (label ++ "=" ++ gText v) :: r.out }

def gJoin (xs : List String) : String := "L" ++ ",".intercalate xs

/-- `for i in idx { by_index(i); by_index_static(i) }` -/
def GRun.byIndex (f : GFacts) (r : GRun) (idx : List Int) (withStatic : Bool) : GRun × List String × List String :=
  idx.foldl (fun (acc : GRun × List String × List String) i =>
    let (r, hs, ss) := acc
    let (r, v) := r.call f (.candStringByIndex i)
    if withStatic then
      let (r, w) := r.call f (.candStringByIndexStatic i)
      (r, hs ++ [gText v], ss ++ [gText w])
    else (r, hs ++ [gText v], ss)) (r, [], [])

def legacyModeFns : List String :=
  ["chewing_get_ChiEngMode", "chewing_get_ShapeMode", "chewing_get_candPerPage", "chewing_get_maxChiSymbolLen",
   "chewing_get_addPhraseDirection", "chewing_get_spaceAsSelection", "chewing_get_escCleanAllBuf",
   "chewing_get_autoShiftCur", "chewing_get_easySymbolInput", "chewing_get_phraseChoiceRearward",
   "chewing_get_autoLearn"]

def capigetObs (f : GFacts) : String :=
  let r : GRun := {}
  let r := r.int f "commit_Check" "commit_Check"
  let r := r.str f "commit_String" "commit_String"
  let r := r.str f "commit_String_static" "commit_String_static"
  let r := r.str f "buffer_String" "buffer_String"
  let r := r.str f "buffer_String_static" "buffer_String_static"
  let r := r.int f "buffer_Check" "buffer_Check"
  let r := r.int f "buffer_Len" "buffer_Len"
  let r := r.int f "cursor_Current" "cursor_Current"
  let r := r.str f "bopomofo_String" "bopomofo_String"
  let r := r.str f "bopomofo_String_static" "bopomofo_String_static"
  let r := r.int f "bopomofo_Check" "bopomofo_Check"
  let r := r.int f "aux_Check" "aux_Check"
  let r := r.int f "aux_Length" "aux_Length"
  let r := r.str f "aux_String" "aux_String"
  let r := r.str f "aux_String_static" "aux_String_static"
  let r := r.int f "CheckIgnore" "keystroke_CheckIgnore"
  let r := r.int f "CheckAbsorb" "keystroke_CheckAbsorb"
  let r := r.int f "cand_CheckDone" "cand_CheckDone"
  let r := r.int f "cand_TotalPage" "cand_TotalPage"
  let r := r.int f "cand_ChoicePerPage" "cand_ChoicePerPage"
  let (r, tcv) := r.call f (.plain "chewing_cand_TotalChoice")
  let r := { r with out := ("cand_TotalChoice=" ++ gInt tcv) :: r.out }
  let r := r.int f "cand_CurrentPage" "cand_CurrentPage"
  let tc : Int := max ((tcv.toInt).getD 0) 0
  let (r, hs, ss) := r.byIndex f ((List.range tc.toNat).map Int.ofNat) true
  let r := { r with out := ("by_index_static=" ++ gJoin ss) :: ("by_index=" ++ gJoin hs) :: r.out }
  let (r, bs, _) := r.byIndex f [-1, tc, tc + 7] false
  let r := { r with out := ("by_index_beyond=" ++ gJoin bs) :: r.out }
  let (r, _) := r.call f .candEnumerate
  let r :=
    match candLoop f 100000 r.slots [] with
    | .ok (s, vs) => { r with slots := s, out := ("cand_Enumerate=" ++ gJoin (vs.map gText)) :: r.out }
    | _ => { r with bad := some "cand loop" }
  let r := r.int f "list_has_next" "cand_list_has_next"
  let r := r.int f "list_has_prev" "cand_list_has_prev"
  let (r, _) := r.call f .intervalEnumerate
  let r :=
    match intervalLoop f 1000 r.slots [] with
    | .ok (s, vs) =>
      let ts := vs.map fun v => match v with
        | .ival (some (a, b)) => toString a ++ ":" ++ toString b
        | _ => "-1:-1"
      { r with slots := s, out := ("intervals=I" ++ ",".intercalate ts) :: r.out }
    | _ => { r with bad := some "interval loop" }
  let (r, ms) := legacyModeFns.foldl (fun (acc : GRun × List String) fn =>
    let (r, v) := acc.1.call f (.mode fn)
    (r, acc.2 ++ [gInt v])) (r, [])
  let r := { r with out := ("modes=" ++ ",".intercalate ms) :: r.out }
  let (r, zc) := r.call f .zuinCheck
  let (r, zs) := r.call f .zuinString
  let (r, pl) := r.call f .phoneSeqLen
  let (r, ps) := r.call f .phoneSeq
  let (zsText, zsCount) := match zs with
    | .strCount p c => (gText (.heap p), toString c)
    | _ => ("x??", "?")
  let psText := match ps with
    | .ushorts v => "P" ++ ",".intercalate (v.map toString)
    | _ => "P?"
  let r := { r with out := ("phoneSeq=" ++ psText) :: ("phoneSeqLen=" ++ gInt pl) :: ("zuin_count=" ++ zsCount) ::
    ("zuin_String=" ++ zsText) :: ("zuin_Check=" ++ gInt zc) :: r.out }
  match r.bad with
  | some b => "model-" ++ b
  | none => unwords r.out.reverse

def capigetExpected (fn : String) (args : List String) : Option String :=
  match fn, args with
  | "obs", [disp, len, emp, cur, com, notice, bopo, es, sel, all, pag, tp, cp, hn, hp, ivs, last, opts, phones] =>
    let f : GFacts :=
      { display := cpsOfHx disp, len := natOf len, isEmpty := emp == "1", cursor := natOf cur, commit := cpsOfHx com,
        notice := cpsOfHx notice, bopo := cpsOfHx bopo, enteringSyllable := es == "1", isSelecting := sel == "1",
        allCandidates := gListOf all, paginated := gListOf pag, totalPage := gOptNat tp, currentPageNo := gOptNat cp,
        hasNextSel := hn == "1", hasPrevSel := hp == "1", intervals := gIntervals ivs, last := gKB last,
        options := Config.Options.ofList ((opts.splitOn ",").map natOf),
        phoneSeq := (let body := (phones.drop 1).toString; if body.isEmpty then [] else (body.splitOn ",").map natOf) }
    some (capigetObs f)
  | _, _ => none

end Chewing.Driver
