-- @component cstr cstrExpected
-- @component own ownExpected
import Chewing.Model.CStr
import Chewing.Model.Owned
import Chewing.Gen.CApi
import Chewing.Driver.Util
/-!
`cstr …` / `own …` records of harness/src/bin/capi_mem.rs and capi_caller.rs (C15).

    cstr copy <cap> x<text>              => b<bytes up to the last non-zero byte> <trailing zero bytes>
    cstr get <which> <cap> x<heap text>  => b<…> <…>          (a context buffer after its static getter)
    cstr caller <fn> <param> <cap> x<text> => <w> b<the w bytes written from offset 0>   (capi_caller.rs: caller buffers)
    cstr callerparams                    => <fn>:<buf>:<len>,…   (the `*mut c_char` out-parameters, generated table)
    cstr valid b<bytes>                  => 0|1               (`utf8Decode` vs `str::from_utf8`)
    cstr selkeys <k0,…,k9>               => 0 x<text> | -1 -  (`chewing_config_get_str("chewing.selection_keys")` for these keys)
    own run <call,…>                     => ok                (else `ub@i:<site>`, `ret@i:<fn>:<model result>`, `heap@i:<fn>`, `parse@i`)
    own mem <call,…>                     => clean|ub          (model: does the history use an invalid object)
    own memsub <clean|ub> <call,…>       => ok                (memcheck error ⇒ the model predicted ub; else `unpredicted`)

A call is `<exported function>[:arg…][=<result>]`.  The function name is mapped to an operation of the ghost model
with the tables regenerated from capi/src/io.rs: the arms of the four iterator protocols and of the registry by name,
every other function through `dictMutFns` (possibly mutating the user dictionary) / `exportedFns` (anything else).
-/
namespace Chewing.Driver
open Chewing.CStr Chewing.Owned Chewing.Gen.CApi

/-- split a buffer into (bytes up to the last non-zero byte, number of trailing zeros) -/
def splitDump (buf : List Nat) : List Nat × Nat :=
  let r := buf.reverse.dropWhile (· == 0)
  (r.reverse, buf.length - r.length)

def dumpText (buf : List Nat) : String :=
  let (p, z) := splitDump buf
  s!"{hexBytes 'b' p} {z}"

/-- capacity of the buffer a `cstr get <which>` record dumps, from the generated table -/
def whichCap (which : String) : Option Nat :=
  let field := match which with
    | "commit" => "commit_buf" | "buffer" => "preedit_buf" | "bopomofo" => "bopomofo_buf"
    | "cand" => "cand_buf" | "aux" => "aux_buf" | "kbtype" => "kbtype_buf" | _ => ""
  (ctxBuffers.find? (fun p => p.1 == field)).map (·.2)

def cstrExpected (fn : String) (args : List String) : Option String :=
  match fn, args with
  | "copy", [cap, x] =>
    if copyCstrShape == 1 then some (dumpText (copyCstr (natOf cap) (unhex x)))
    else some (dumpText (copyCstrOld (natOf cap) (unhex x)))
  | "get", [which, cap, x] =>
    -- the capacity in the record must be the one the source declares for that buffer
    match whichCap which with
    | some c =>
      if c != natOf cap then some s!"capacity-of-{which}-is-{c}"
      else if copyCstrShape == 1 then some (dumpText (copyCstr c (unhex x)))
      else some (dumpText (copyCstrOld c (unhex x)))
    | none => none
  | "selkeys", [ks] =>
    -- chewing_config_get_str("chewing.selection_keys") for the keys the context holds
    let keys : List Int := ((ks.splitOn ",").filter (· != "")).map fun t => t.toInt?.getD 0
    if selKeysGetterShape != 1 then none
    else match selKeysCStr keys with
      | none => some "-1 -"
      | some buf => (cText buf).map fun t => s!"0 {hexBytes 'x' t}"
  | "caller", [f, param, cap, x] =>
    -- a caller-buffer write: the kind of the parameter comes from the table generated from capi/src/io.rs
    match callerBufParams.find? (fun r => r.1 == f && r.2.1 == param) with
    | some (_, _, _, kind) =>
      let w := if kind == 0 then
          (if callerCopyShape == 1 then callerCopy (natOf cap) (unhex x) else callerCopyOld (natOf cap) (unhex x))
        else fitCopy (natOf cap) (unhex x)
      some s!"{w.length} {hexBytes 'b' w}"
    | none => none
  | "callerparams", [] =>
    some (",".intercalate (callerBufParams.map fun r => s!"{r.1}:{r.2.1}:{r.2.2.1}"))
  | "valid", [b] => some (if (Chewing.CStr.utf8Decode (unhex b)).isSome then "1" else "0")
  | _, _ => none

/-- functions that return a heap `CString` registered in `OWNED` (generated from the source) -/
def heapCStringFns : List String := (heapGetters.filter (fun g => g.2 == 0)).map (·.1)

def isExported (f : String) : Bool := exportedFns.any (fun r => r.1 == f)

/-- one call token → (operation, observed result if any) -/
def parseCall (tok : String) : Option (Op × Option Int) :=
  let (lhs, ret) := match tok.splitOn "=" with
    | [l, r] => (l, r.toInt?)
    | _ => (tok, none)
  match lhs.splitOn ":" with
  | [] => none
  | f :: as =>
    if !isExported f then none
    else
      let op : Option Op := match f, as with
        | "chewing_userphrase_enumerate", [n] => some (.upEnumerate (natOf n))
        | "chewing_userphrase_has_next", [] => some .upHasNext
        | "chewing_userphrase_get", [] => some .upGet
        | "chewing_cand_Enumerate", [s, n] => some (.candEnumerate (s == "1") (natOf n))
        | "chewing_cand_hasNext", [s] => some (.candHasNext (s == "1"))
        | "chewing_cand_String", [a] => some (.candString (natOf a))
        | "chewing_cand_String_static", [] => some .candStringStatic
        | "chewing_interval_Enumerate", [n] => some (.intvEnumerate (natOf n))
        | "chewing_interval_hasNext", [] => some .intvHasNext
        | "chewing_interval_Get", [] => some .intvGet
        | "chewing_kbtype_Enumerate", [n] => some (.kbEnumerate (natOf n))
        | "chewing_kbtype_hasNext", [] => some .kbHasNext
        | "chewing_kbtype_String", [a] => some (.kbString (natOf a))
        | "chewing_kbtype_String_static", [] => some .kbStringStatic
        | "chewing_Reset", [] => some .reset
        | "chewing_get_phoneSeq", [a, n] => some (.heapGet (natOf a) (.u16slice (natOf n)))
        | "chewing_free", [a] => some (.free (natOf a))
        | _, [a] => if heapCStringFns.contains f then some (.heapGet (natOf a) .cstring) else none
        | _, [] =>
          -- the iterator / registry functions must come with their arguments
          if iterSites.any (fun s => s.2.contains f) || f == "chewing_free" || f == "chewing_get_phoneSeq" then none
          else if dictMutFns.contains f then some .mutate else some .other
        | _, _ => none
      op.map (·, ret)

/-- the step function of the code the translator saw (`chewing_free` removing the registry entry or not; the user-phrase
iterator owning a snapshot or borrowing the dictionary) -/
def stepNow (c : Ctx) (op : Op) : Outcome (Ctx × Res) :=
  if userphraseIterBorrows == 1 then stepBorrow c op
  else if freeRemoves == 1 then step c op else stepOld c op

/-- replay a history: first disagreement / undefined step, or `ok` -/
def replay (c : Ctx) (i : Nat) : List String → String
  | [] => "ok"
  | tok :: rest =>
    match parseCall tok with
    | none => s!"parse@{i}:{tok}"
    | some (op, ret) =>
      if !heapOk c op then s!"heap@{i}:{tok}"
      else match stepNow c op with
        | .ub site => s!"ub@{i}:{site}"
        | .ok (c', r) =>
          match ret with
          | some obs => if obs == r then replay c' (i + 1) rest else s!"ret@{i}:{tok}:model={r}"
          | none => replay c' (i + 1) rest

/-- does the history use an invalid object (`some true`), or is it defined (`some false`); `none` = unparsable -/
def usesInvalid (c : Ctx) : List String → Option Bool
  | [] => some false
  | tok :: rest =>
    match parseCall tok with
    | none => none
    | some (op, _) =>
      match stepNow c op with
      | .ub _ => some true
      | .ok (c', _) => usesInvalid c' rest

def calls (s : String) : List String := (s.splitOn ",").filter (· != "")

def ownExpected (fn : String) (args : List String) : Option String :=
  match fn, args with
  | "run", [cs] => some (replay Owned.init 0 (calls cs))
  | "run", [] => some "ok"
  | "mem", [cs] => (usesInvalid Owned.init (calls cs)).map fun b => if b then "ub" else "clean"
  | "memsub", [obs, cs] =>
    (usesInvalid Owned.init (calls cs)).map fun b => if obs == "ub" && !b then "unpredicted" else "ok"
  | _, _ => none

end Chewing.Driver
