-- @component capiops capiopsExpected
import Chewing.Model.CApiOps
import Chewing.Model.Config
import Chewing.Driver.Util
/-!
`capiops …` records: the C call glue of `capi/src/io.rs` (work package capiglue; C06 / C01 / C07).

    capiops call <op> <arg|-> <is_selecting> <is_entering> <kbtype> <k0,…,k9> <res> => <Keyboard> <editor call> <rc>

Before `=>`: the C call (`h:<Name>` = `chewing_handle_<Name>`, `Default` / `Numlock` / `CtrlNum` with the C `int`,
`cand_open`, `cand_close`, `cand_choose_by_index <i>`, `cand_list_first|last|next|prev`, `commit_preedit_buf`,
`clean_preedit_buf`, `clean_bopomofo_buf`, `ack`, `Reset`), the facts the glue reads (`is_selecting()`,
`is_entering()` of the twin editor before the call, the keyboard type number in force, the ten selection keys) and
`<res>` = `ok` / `err` / `-`: the `Result` of the `Editor` call the harness twin made (`-`: no call or no result).

After `=>`: the `AnyKeyboardLayout` variant the twin holds, what the harness twin actually fed to the twin `Editor`
(`key <index> <code> <unicode> <modifier bits>` | `select <n>` | `start` | `cancel` | `commit` | `clear` | `ack` |
`clearsyl` | `jump <0..3>` | `none`) and the value the REAL C function returned.

The model recomputes all three: the keyboard from the keyboard-type number through `Model/Config.lean`
(`chewing_set_KBType`'s generated dispatch table), the editor call and the return rule through
`Model/CApiOps.lean` (`translate`), the return value from the rule and `<res>`.
-/
namespace Chewing.Driver
open Chewing Chewing.CApi

/-- `DvorakOnQwerty` ↦ `dvorak_on_qwerty` (variant name ↦ the keyboard's name in `Model/Keyboard.lean`) -/
def snakeCase (s : String) : String :=
  String.ofList (s.toList.foldl (fun acc ch =>
    if ch.isUpper then (if acc.isEmpty then acc else acc ++ ['_']) ++ [ch.toLower] else acc ++ [ch]) [])

def capiHandlerOf (name : String) : Option Handler := Handler.all.find? (·.name == name)

def capiParseOp (op arg : String) : Option COp :=
  if op.startsWith "h:" then (capiHandlerOf (op.drop 2).toString).map COp.named
  else match op with
  | "Default" => some (.default (intOf arg))
  | "Numlock" => some (.numlock (intOf arg))
  | "CtrlNum" => some (.ctrlNum (intOf arg))
  | "cand_open" => some .candOpen
  | "cand_close" => some .candClose
  | "cand_choose_by_index" => some (.candChoose (intOf arg))
  | "cand_list_first" => some .candListFirst
  | "cand_list_last" => some .candListLast
  | "cand_list_next" => some .candListNext
  | "cand_list_prev" => some .candListPrev
  | "commit_preedit_buf" => some .commitPreedit
  | "clean_preedit_buf" => some .cleanPreedit
  | "clean_bopomofo_buf" => some .cleanBopomofo
  | "ack" => some .ack
  | "Reset" => some .reset
  | _ => none

def modBits (m : Mods) : Nat := m.shift.toNat + 2 * m.ctrl.toNat + 4 * m.capslock.toNat + 8 * m.numlock.toNat

def capiCallText : EdCall → String
  | .none => "none"
  | .key ev => unwords ["key", toString ev.index, toString ev.code, toString ev.unicode, toString (modBits ev.mods)]
  | .select n => "select " ++ toString n
  | .startSelecting => "start"
  | .cancelSelecting => "cancel"
  | .commit => "commit"
  | .clear => "clear"
  | .ack => "ack"
  | .clearSyl => "clearsyl"
  | .jump w => "jump " ++ toString w

def capiopsExpected (fn : String) (args : List String) : Option String :=
  match fn, args with
  | "call", [op, arg, sel, ent, kbid, keys, res] =>
    (capiParseOp op arg).map fun cop =>
      let kbIdx := (Config.pairByNum (Config.kbOfNum (intOf kbid))).1
      let variant := Gen.Cfg.keyboards.getD kbIdx "?"
      let f : Facts :=
        { isSelecting := sel == "1", isEntering := ent == "1",
          selKeys := (keys.splitOn ",").map intOf, kb := snakeCase variant }
      match translate f cop with
      | .ok g =>
        let rc : String :=
          match g.rule, res with
          | .const r, _ => toString r
          | rule, "ok" => toString (rule.rc true)
          | rule, "err" => toString (rule.rc false)
          | _, _ => "result-missing"
        unwords [variant, capiCallText g.call, rc]
      | .panic p => unwords [variant, "panic", p]
      | .outOfFuel => unwords [variant, "outOfFuel"]
  | _, _ => none

end Chewing.Driver
