-- @component capiuser capiuserExpected
import Chewing.Model.CApiUser
import Chewing.Driver.Util
/-!
`capiuser …` records (work package capiuser; C08 / C09 / C01 / C16): the user-phrase calls and the context-writing
configuration calls of `capi/src/io.rs`, recomputed by `Model/CApiUser.lean`.

    capiuser add|remove|lookup <E0> <phrase> <bopomofo> => <rc> <E1>
    capiuser enum <twin entries> => <rc> <E>
    capiuser kbtype <n> => <rc> <chewing_get_KBType> <AnyKeyboardLayout variant of the twin>
    capiuser setstr <name> <value> <k0,…,k9 before> => <rc> <k0,…,k9 after> <chewing_get_KBType> <variant>   (kept: rc, keys)
    capiuser selkey <k0,…,k9 before> <the len ints passed|-> <len> => <k0,…,k9 after>

`<E0>` / `<E1>`: what the REAL C context enumerates (`chewing_userphrase_enumerate` / `has_next` / `get`) before / after
the call, `x<phrase>:x<bopomofo>` sorted and joined by `,` (`-` = nothing).  `<phrase>` / `<bopomofo>`: `x<hex>`, `-` = NULL,
`!` = bytes that are not UTF-8.  `<rc>` = the value the REAL C function returned.  `<twin entries>`: the twin editor's
`user_dict().entries()` as `code.code:x<phrase>` — the model prints them (`printSyls`) and must obtain the strings C hands out.

The model runs `CCtx.userAdd / userRemove / userLookup / userEntries / setKBType / setStr / setSelKey` over
`CApiUser.listEnv` with the user dictionary read from `<E0>` (each bopomofo string parsed by `parseBopomofo`).
-/
namespace Chewing.Driver
open Chewing Chewing.CApi Chewing.CApiUser

def cuParseEntries (tok : String) : List (Text × Text) :=
  if tok == "-" then [] else (tok.splitOn ",").map fun e =>
    match e.splitOn ":" with
    | [p, b] => (cpsOfHx p, cpsOfHx b)
    | _ => ([], [])

def cuArg (tok : String) : Option Text := if tok == "-" || tok == "!" then none else some (cpsOfHx tok)

def cuInsert (s : String) : List String → List String
  | [] => [s]
  | t :: ts => if s ≤ t then s :: t :: ts else t :: cuInsert s ts

def cuSort (l : List String) : List String := l.foldr cuInsert []

def cuEntriesTok (c : CCtx ListDict Nat) : String :=
  let l := cuSort ((c.userEntries listUEnv).map fun e => hxCps e.1 ++ ":" ++ hxCps e.2)
  if l.isEmpty then "-" else ",".intercalate l

def cuCtx (e0 : String) : CCtx ListDict Nat :=
  listCtx ((cuParseEntries e0).map fun e => (parseBopomofo e.2, e.1))

def cuKeys (tok : String) : List Int := if tok == "-" then [] else (tok.splitOn ",").map intOf

def cuKeysTok (ks : List Int) : String := ",".intercalate (ks.map toString)

def cuOutcome (r : Outcome (CCtx ListDict Nat × Int)) (f : CCtx ListDict Nat → Int → String) : String :=
  match r with
  | .ok (c, rc) => f c rc
  | .panic p => "panic " ++ p
  | .outOfFuel => "outOfFuel"

def cuVariant (kb : String) : String := (Gen.Cfg.keyboards.find? fun v => snake v == kb).getD "?"

def capiuserExpected (fn : String) (args : List String) : Option String :=
  match fn, args with
  | "add", [e0, p, b] =>
    some (cuOutcome ((cuCtx e0).userAdd listEnv (cuArg p) (cuArg b)) fun c rc => unwords [toString rc, cuEntriesTok c])
  | "remove", [e0, p, b] =>
    some (cuOutcome ((cuCtx e0).userRemove listEnv (cuArg p) (cuArg b)) fun c rc => unwords [toString rc, cuEntriesTok c])
  | "lookup", [e0, p, b] =>
    let c := cuCtx e0
    some (unwords [toString (c.userLookup listEnv (cuArg p) (cuArg b)), cuEntriesTok c])
  | "enum", [codes] =>
    let d : ListDict := if codes == "-" then [] else (codes.splitOn ",").map fun e =>
      match e.splitOn ":" with
      | [k, p] => ((k.splitOn ".").map natOf, cpsOfHx p)
      | _ => ([], [])
    some (cuOutcome ((listCtx d).applyUser listEnv listUEnv .userEnumerate) fun c rc => unwords [toString rc, cuEntriesTok c])
  | "kbtype", [n] =>
    some (cuOutcome ((listCtx []).setKBType listEnv listUEnv (intOf n)) fun c rc =>
      unwords [toString rc, toString (Config.kbOfNum (intOf n)), cuVariant c.kb])
  | "setstr", [name, value, keys, variant] =>
    let c0 : CCtx ListDict Nat := { listCtx [] with selKeys := cuKeys keys, kb := snake variant }
    some (cuOutcome (c0.setStr listEnv listUEnv (String.ofList ((cpsOfHx name).map Char.ofNat)) (cpsOfHx value)) fun c rc =>
      unwords [toString rc, cuKeysTok c.selKeys, cuVariant c.kb])
  | "selkey", [pre, keys, len] =>
    let c0 : CCtx ListDict Nat := { listCtx [] with selKeys := cuKeys pre }
    some (cuKeysTok (c0.setSelKey (some (cuKeys keys)) (intOf len)).selKeys)
  | _, _ => none

end Chewing.Driver
