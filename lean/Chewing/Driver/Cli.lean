-- @component cli cliExpected
import Chewing.Model.Cli
import Chewing.Driver.Util
/-! `cli …` records: the dictionary compiler / dumper of the command-line tool (C20). -/
namespace Chewing.Driver
open Chewing Chewing.Cli

def commaNats (xs : List Nat) : String :=
  if xs.isEmpty then "-" else ",".intercalate (xs.map toString)

def natsOfComma (s : String) : List Nat :=
  if s == "-" then [] else (s.splitOn ",").map natOf

def dbOf (s : String) : Option Db :=
  if s == "trie" then some .trie else if s == "sqlite" then some .sqlite else none

def flagsOf (csv keep skip : String) : Flags :=
  { csv := csv == "1", keep := keep == "1", skip := skip == "1" }

def pfS (pf : PF) : String := hxCps pf.1 ++ ":" ++ toString pf.2

/-- expected right-hand side of a `cli` record -/
def cliExpected (fn : String) (args : List String) : Option String :=
  match fn, args with
  | "ws", [lo, hi] =>
    let lo := natOf lo
    let hi := natOf hi
    some (commaNats (((List.range (hi - lo)).map (· + lo)).filter isWs))
  | "run", [db, csv, keep, skip, src] =>
    match dbOf db with
    | none => none
    | some db =>
      let f := flagsOf csv keep skip
      let res := compileRun f (readLines (cpsOfHx src))
      let rep := commaNats (res.reported.map (·.1))
      match res.inserted with
      | none => some (unwords ["1", rep, "0", "-", "-"])
      | some rs =>
        let es := entries db rs
        some (unwords ["0", rep, "1", hxCps (writeLines (dump false es)), hxCps (writeLines (dump true es))])
  | "runraw", [db, csv, keep, skip, src] =>
    -- the source as bytes (`b<hex>`): a line that is not valid UTF-8 is reported like any other malformed line
    -- (last field: `io` = the tool stopped with the I/O error of `BufRead::lines`, which the fixed code never does)
    match dbOf db with
    | none => none
    | some db =>
      let f := flagsOf csv keep skip
      let res := compileRaw f (readRawLines (unhex src))
      let rep := commaNats (res.reported.map (·.1))
      match res.inserted with
      | none => some (unwords ["1", rep, "0", "-", "-", "ok"])
      | some rs =>
        let es := entries db rs
        some (unwords ["0", rep, "1", hxCps (writeLines (dump false es)), hxCps (writeLines (dump true es)), "ok"])
  | "lookup", [db, csv, keep, skip, src, key] =>
    match dbOf db with
    | none => none
    | some db =>
      let f := flagsOf csv keep skip
      let res := compileRun f (readLines (cpsOfHx src))
      match res.inserted with
      | none => some "-"
      | some rs =>
        let ps := dictLookup db rs (natsOfComma key)
        some (unwords (toString ps.length :: ps.map pfS))
  | "line", [delim, keep, line] =>
    some (match parseLine (natOf delim) (keep == "1") (cpsOfHx line) with
      | .ok r => unwords ["ok", hxCps r.phrase, toString r.freq, commaNats r.syls]
      | .error _ => "err")
  | _, _ => none

end Chewing.Driver
