-- @component codec codecExpected
import Chewing.Model.TrieCodec
import Chewing.Driver.Util
/-!
`codec …` records: the trie file codec (C11).

* `codec write <name> <copyright> <license> <version> <software> <entry>… => b<file>|err`
  entry = `<key>/<x-phrase>/<freq>/<ts|->`, key = syllable codes joined by `,` or `-` (empty key)
* `codec lookup b<file> <std|fuzzy> <key>… => [<phrase>,…] …|err`   phrase = `x<hex>/<freq>/<ts|->`
* `codec lookupn b<file> <std|fuzzy> <n> <key>… => [<phrase>,…] …|err`   `lookup_first_n_phrases(key, n, …)`
* `codec first b<file> <std|fuzzy> <key>… => <phrase|-> …|err`            `lookup_first_phrase`
* `codec entries b<file> => ok <key>=<phrase> …|panic|fuel|err`
* `codec about b<file> => x… x… x… x… x…|err`
-/
namespace Chewing.Driver
open Chewing Chewing.TrieCodec

def keyOf (s : String) : List Nat :=
  if s == "-" || s.isEmpty then [] else (s.splitOn ",").map natOf

def keyS (k : List Nat) : String :=
  if k.isEmpty then "-" else ",".intercalate (k.map toString)

def optNatOf (s : String) : Option Nat := if s == "-" then none else some (natOf s)

def phraseS (p : Phrase) : String :=
  hxCps p.text ++ "/" ++ toString p.freq ++ "/" ++ optS p.lastUsed

def entryOf (s : String) : Option Entry :=
  match s.splitOn "/" with
  | [k, p, f, t] => some (keyOf k, { text := cpsOfHx p, freq := natOf f, lastUsed := optNatOf t })
  | _ => none

def phrasesS (ps : List Phrase) : String := "[" ++ ",".intercalate (ps.map phraseS) ++ "]"

def strategyOf (s : String) : Option Strategy :=
  if s == "std" then some .standard else if s == "fuzzy" then some .fuzzyPartialPrefix else none

/-- expected right-hand side of a `codec` record -/
def codecExpected (fn : String) (args : List String) : Option String :=
  match fn, args with
  | "write", n :: c :: l :: v :: s :: es =>
    match es.mapM entryOf with
    | none => none
    | some es =>
      let info : Info := { name := cpsOfHx n, copyright := cpsOfHx c, license := cpsOfHx l,
                           version := cpsOfHx v, software := cpsOfHx s }
      some (match (Builder.ofEntries info es).write with
        | some bytes => hexBytes 'b' bytes
        | none => "err")
  | "lookup", file :: st :: keys =>
    match strategyOf st with
    | none => none
    | some st =>
      some (match openTrie (unhex file) with
        | none => "err"
        | some t => unwords (keys.map fun k => phrasesS (lookupAll t (keyOf k) st)))
  | "lookupn", file :: st :: n :: keys =>
    match strategyOf st with
    | none => none
    | some st =>
      some (match openTrie (unhex file) with
        | none => "err"
        | some t => unwords (keys.map fun k => phrasesS (lookupFirstN t (keyOf k) (natOf n) st)))
  | "first", file :: st :: keys =>
    match strategyOf st with
    | none => none
    | some st =>
      some (match openTrie (unhex file) with
        | none => "err"
        | some t => unwords (keys.map fun k =>
            match lookupFirst t (keyOf k) st with
            | some p => phraseS p
            | none => "-"))
  | "entries", [file] =>
    some (match openTrie (unhex file) with
      | none => "err"
      | some t =>
        match entries t with
        | .ok es => unwords ("ok" :: es.map fun e => keyS e.1 ++ "=" ++ phraseS e.2)
        | .panic _ => "panic"
        | .outOfFuel => "fuel")
  | "about", [file] =>
    some (match openTrie (unhex file) with
      | none => "err"
      | some t =>
        let i := about t
        unwords [hxCps i.name, hxCps i.copyright, hxCps i.license, hxCps i.version, hxCps i.software])
  | _, _ => none

end Chewing.Driver
