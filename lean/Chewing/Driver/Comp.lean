-- @component comp compExpected
-- @component cedi cediExpected
-- @component cedc cedcExpected
import Chewing.Model.CompEditor
import Chewing.Driver.Util
/-!
`comp …` / `cedi …` / `cedc …` records: `Composition` and `CompositionEditor` (C04, C05), one step from the
implementation's own pre-state.

  comp state = <n> <sym>*n <gap>*n <m> <sel>*m        sym = s<code> | c<code point>
  ced  state = <cursor> <k> <stack>*k <comp state>     gap = B | K | U | N
  sel = <start>:<stop>:<0|1>:x<hex utf-8>

Selections of the *result* are printed sorted (as strings) on both sides: the model replaces the
`swap_remove` loop by a `filter`, so only the multiset is compared (see `Model/CompositionOps.lean`).
-/
namespace Chewing.Driver
open Chewing

def symTok : Sym → String
  | .syl c => "s" ++ toString c
  | .chr c => "c" ++ toString c

def parseSym (t : String) : Option Sym :=
  match t.toList with
  | 's' :: r => (String.ofList r).toNat?.map Sym.syl
  | 'c' :: r => (String.ofList r).toNat?.map Sym.chr
  | _ => none

def gapTok : Gap → String
  | .begin => "B"
  | .brk => "K"
  | .glue => "U"
  | .normal => "N"

def parseGap : String → Option Gap
  | "B" => some .begin
  | "K" => some .brk
  | "U" => some .glue
  | "N" => some .normal
  | _ => none

def selTok (s : Interval) : String :=
  toString s.start ++ ":" ++ toString s.stop ++ ":" ++ (if s.isPhrase then "1" else "0") ++ ":" ++ hxCps s.text

def parseSel (t : String) : Option Interval :=
  match t.splitOn ":" with
  | [a, b, p, x] => do
    let a ← a.toNat?
    let b ← b.toNat?
    some { start := a, stop := b, isPhrase := p == "1", text := cpsOfHx x }
  | _ => none

def takeMap {α : Type} (f : String → Option α) : Nat → List String → Option (List α × List String)
  | 0, rest => some ([], rest)
  | n + 1, t :: rest => do
    let a ← f t
    let (as, rest') ← takeMap f n rest
    some (a :: as, rest')
  | _ + 1, [] => none

def parseComp (toks : List String) : Option (Composition × List String) :=
  match toks with
  | n :: rest => do
    let n ← n.toNat?
    let (syms, rest) ← takeMap parseSym n rest
    let (gaps, rest) ← takeMap parseGap n rest
    match rest with
    | m :: rest => do
      let m ← m.toNat?
      let (sels, rest) ← takeMap parseSel m rest
      some ({ symbols := syms, gaps := gaps, selections := sels }, rest)
    | [] => none
  | [] => none

def sortStrings (l : List String) : List String := l.mergeSort (fun a b => !(decide (b < a)))

def compToks (c : Composition) : String :=
  unwords ([toString c.symbols.length] ++ c.symbols.map symTok ++ c.gaps.map gapTok
    ++ [toString c.selections.length] ++ sortStrings (c.selections.map selTok))

def outComp : Outcome Composition → String
  | .ok c => "ok " ++ compToks c
  | .panic s => "panic:" ++ s
  | .outOfFuel => "out-of-fuel"

def optTok {α : Type} (f : α → String) : Option α → String
  | some a => f a
  | none => "-"

def b01 (b : Bool) : String := if b then "1" else "0"

/-- expected right-hand side of a `comp` record -/
def compExpected (fn : String) (args : List String) : Option String := do
  let (c, rest) ← parseComp args
  match fn, rest with
  | "insert", [i, s] => some (outComp (c.insert (← i.toNat?) (← parseSym s)))
  | "push", [s] => some (outComp (c.push (← parseSym s)))
  | "remove", [i] => some (outComp (c.remove (← i.toNat?)))
  | "remove_front", [n] => some (outComp (c.removeFront (← n.toNat?)))
  | "replace", [i, s] => some (outComp (c.replace (← i.toNat?) (← parseSym s)))
  | "set_gap", [i, g] => some (outComp (c.setGap (← i.toNat?) (← parseGap g)))
  | "push_selection", [s] => some (outComp (c.pushSelection (← parseSel s)))
  | "clear", [] => some (outComp (.ok c.clear))
  | "get", [i] =>
    let i ← i.toNat?
    some (unwords [toString c.len, b01 c.isEmpty, optTok symTok (c.symbol? i), optTok gapTok (c.gap? i),
      optTok gapTok (c.gapAfter? i)])
  | _, _ => none

def parseCed (toks : List String) : Option (CompEditor × List String) :=
  match toks with
  | cur :: k :: rest => do
    let cur ← cur.toNat?
    let k ← k.toNat?
    let (stack, rest) ← takeMap String.toNat? k rest
    let (c, rest) ← parseComp rest
    some ({ cursor := cur, stack := stack, inner := c }, rest)
  | _ => none

/-- C04's view of a `CompositionEditor` step: the inner composition -/
def outCedInner : Outcome CompEditor → String
  | .ok e => "ok " ++ compToks e.inner
  | .panic s => "panic:" ++ s
  | .outOfFuel => "out-of-fuel"

/-- C05's view of a `CompositionEditor` step: cursor, cursor stack, symbols -/
def outCedCursor : Outcome CompEditor → String
  | .ok e => "ok " ++ unwords ([toString e.cursor, toString e.stack.length] ++ e.stack.map toString
      ++ [toString e.symbols.length] ++ e.symbols.map symTok)
  | .panic s => "panic:" ++ s
  | .outOfFuel => "out-of-fuel"

def parseCedOp (fn : String) (rest : List String) : Option CedOp :=
  match fn, rest with
  | "push_cursor", [] => some .pushCursor
  | "pop_cursor", [] => some .popCursor
  | "clamp_cursor", [] => some .clampCursor
  | "move_cursor", [n] => n.toNat?.map .moveCursor
  | "clear", [] => some .clear
  | "remove_front", [n] => n.toNat?.map .removeFront
  | "remove_after_cursor", [] => some .removeAfterCursor
  | "remove_before_cursor", [] => some .removeBeforeCursor
  | "move_cursor_to_end", [] => some .moveToEnd
  | "move_cursor_to_beginning", [] => some .moveToBeginning
  | "move_cursor_left", [] => some .moveLeft
  | "move_cursor_right", [] => some .moveRight
  | "insert", [s] => (parseSym s).map .insert
  | "insert_glue", [] => some .insertGlue
  | "insert_break", [] => some .insertBreak
  | "replace", [s] => (parseSym s).map .replace
  | "select", [s] => (parseSel s).map .select
  | _, _ => none

/-- expected right-hand side of a `cedi` record (pre-state, method ⇒ inner composition) -/
def cediExpected (fn : String) (args : List String) : Option String := do
  let (e, rest) ← parseCed args
  let op ← parseCedOp fn rest
  some (outCedInner (e.apply op))

/-- expected right-hand side of a `cedc` record (pre-state, method ⇒ cursor, stack, symbols) -/
def cedcExpected (fn : String) (args : List String) : Option String := do
  let (e, rest) ← parseCed args
  match fn, rest with
  | "get", [] =>
    some (unwords [toString e.len, b01 e.isEmpty, b01 e.isBob, b01 e.isEob, optTok symTok e.symbol?,
      optTok symTok e.symbolForSelect])
  | _, _ =>
    let op ← parseCedOp fn rest
    some (outCedCursor (e.apply op))

end Chewing.Driver
