-- @component cfg cfgExpected
import Chewing.Model.Config
import Chewing.Driver.Util
/-!
`cfg …` records: the configuration API (C16).  Every stateful record carries the implementation's own
pre-state `S` = three tokens

    <13 integers: get_int of the documented integer options, fixed order>  <KBType>:<x KBString>  <10 selection keys>

and the model recomputes the return code and the post-state from it (no drift between steps).

    cfg hasopt <xname>                         => <ret>
    cfg init                                   => S
    cfg setint S <xname> <v>                   => <ret> S'
    cfg getint S <xname>                       => <ret>
    cfg legacyset S <fn> <v>                   => S'
    cfg legacyget S <fn>                       => <ret>
    cfg setstr S <xname> <xvalue>              => <ret> S'
    cfg getstr S <xname>                       => <ret> <xvalue|->        (or `abort`)
    cfg setkb S <n>                            => <ret> S'
    cfg kbstr2num <xname>                      => <n>
    cfg setselkey S <len> <k,…>                => S'
    cfg configure S <cand> <maxchi> <k,…> <b,…6> <hsu> => <ret> S'
    cfg kbenum                                 => <total> <x names joined by ,>
    cfg kbinit <class>                         => <KBType> <x KBString> ok
    cfg kbeff <sel> <class>                    => <ret> <KBType> <x KBString> ok
    cfg kbeff2 <sel> <sel> <class>             => <ret> <ret> <KBType> <x KBString> ok
    cfg kbkeep <kb> <class>                    => ok
    cfg keyeq <kb> <key> <x by-number> <x by-name> => <1|0>

`<sel>` = `num <n>` | `name <xvalue>`.  `<class>` = the reference (keyboard, syllable editor) pairs whose
behaviour on all probe keys equals that of the context (`Kb+Syl/Kb+Syl/…`, found by the harness with the
Rust API); the model answers `ok` iff the pair it says is in effect is one of them.
-/
namespace Chewing.Driver
open Chewing Chewing.Config Chewing.Gen.Cfg

/-- order of the integers in a state token (the documented integer options) -/
def cfgStateNames : List String :=
  ["chewing.user_phrase_add_direction", "chewing.disable_auto_learn_phrase", "chewing.auto_shift_cursor",
   "chewing.candidates_per_page", "chewing.language_mode", "chewing.easy_symbol_input",
   "chewing.esc_clear_all_buffer", "chewing.auto_commit_threshold", "chewing.phrase_choice_rearward",
   "chewing.character_form", "chewing.space_is_select_key", "chewing.conversion_engine",
   "chewing.enable_fullwidth_toggle_key"]

def strOfHx (s : String) : String := String.ofList ((cpsOfHx s).map Char.ofNat)

def intsOf (s : String) : List Int := (s.splitOn ",").map intOf

/-- stored field value from what the getter reported -/
def undoGet (g : GetRule) (x : Int) : Option Nat :=
  match g with
  | .cast => if x < 0 then none else some x.toNat
  | .enum arms => (arms.find? fun a => a.2 == x).map (·.1)

def decodeOpts (xs : List Int) : Option Options :=
  let start : Option Options := some (Options.ofList optDefaults)
  let o := (cfgStateNames.zip xs).foldl (fun (acc : Option Options) (p : String × Int) =>
    acc.bind fun o =>
      match assoc p.1 getIntArms with
      | some (f, g) => (undoGet g p.2).map fun v => o.set f v
      | none => none) start
  -- lookup_strategy is not observable: take the one the engine rule ties to the conversion engine kind
  o.map fun o =>
    let strat := setIntArms.findSome? fun (_, f, r) =>
      match r with
      | .engine arms => (arms.find? fun a => a.2.2.2 == o.get f).map fun a => a.2.2.1
      | _ => none
    match strat with
    | some s => o.set lookupStrategyField s
    | none => o

def decodeEngine (o : Options) : Nat :=
  (setIntArms.findSome? fun (_, f, r) =>
    match r with
    | .engine arms => (arms.find? fun a => a.2.2.2 == o.get f).map fun a => a.2.1
    | _ => none).getD initEngine

def decodeState (a b c : String) : Option Ctx :=
  let xs := intsOf a
  if xs.length != cfgStateNames.length then none else
  match decodeOpts xs, b.splitOn ":" with
  | some o, [n, _] =>
    let k := natOf n
    let p := pairByNum k
    some { opts := o, engine := decodeEngine o, kbCompat := k, keyboard := p.1, syl := p.2, selKeys := intsOf c }
  | _, _ => none

def commaInts (xs : List Int) : String := ",".intercalate (xs.map toString)

def encodeState (c : Ctx) : String :=
  unwords [commaInts (cfgStateNames.map fun n => getInt n c),
    toString c.kbCompat ++ ":" ++ hxCps (getKBString c), commaInts c.selKeys]

def pairName (c : Ctx) : String :=
  keyboards.getD c.keyboard "?" ++ "+" ++ sylCtors.getD c.syl "?"

def inClass (c : Ctx) (cls : String) : String :=
  if (cls.splitOn "/").contains (pairName c) then "ok" else "model-pair-" ++ pairName c ++ "-not-in-observed-class"

/-- apply a `<sel>`: returns the new context and the return code -/
def applySel (kind arg : String) (c : Ctx) : Option (Ctx × Int) :=
  match kind with
  | "num" => some (setKBType (intOf arg) c)
  | "name" => some (setStr kbTypeName (cpsOfHx arg) c)
  | _ => none

def cfgExpected (fn : String) (args : List String) : Option String :=
  match fn, args with
  | "hasopt", [n] => some (toString (hasOption (strOfHx n)))
  | "init", [] => some (encodeState init)
  | "setint", [a, b, c, n, v] =>
    (decodeState a b c).map fun s =>
      let (s', r) := setInt (strOfHx n) (intOf v) s
      unwords [toString r, encodeState s']
  | "getint", [a, b, c, n] => (decodeState a b c).map fun s => toString (getInt (strOfHx n) s)
  | "legacyset", [a, b, c, f, v] => (decodeState a b c).map fun s => encodeState (legacySet f (intOf v) s)
  | "legacyget", [a, b, c, f] => (decodeState a b c).map fun s => toString (legacyGet f s)
  | "setstr", [a, b, c, n, v] =>
    (decodeState a b c).map fun s =>
      let (s', r) := setStr (strOfHx n) (cpsOfHx v) s
      unwords [toString r, encodeState s']
  | "getstr", [a, b, c, n] =>
    (decodeState a b c).map fun s =>
      match getStr (strOfHx n) s with
      | .ok (r, some t) => unwords [toString r, hxCps t]
      | .ok (r, none) => unwords [toString r, "-"]
      | _ => "abort"
  | "setkb", [a, b, c, n] =>
    (decodeState a b c).map fun s =>
      let (s', r) := setKBType (intOf n) s
      unwords [toString r, encodeState s']
  | "kbstr2num", [v] => some (toString (kbStr2Num (cpsOfHx v)))
  | "setselkey", [a, b, c, len, ks] =>
    (decodeState a b c).map fun s => encodeState (setSelKey (intsOf ks) (intOf len) s)
  | "configure", [a, b, c, cand, maxchi, ks, bs, _hsu] =>
    (decodeState a b c).map fun s =>
      let b := intsOf bs
      let field : String → Int := fun f =>
        match f with
        | "cand_per_page" => intOf cand
        | "max_chi_symbol_len" => intOf maxchi
        | "b_add_phrase_forward" => b.getD 0 0
        | "b_space_as_selection" => b.getD 1 0
        | "b_esc_clean_all_buf" => b.getD 2 0
        | "b_auto_shift_cur" => b.getD 3 0
        | "b_easy_symbol_input" => b.getD 4 0
        | "b_phrase_choice_rearward" => b.getD 5 0
        | _ => 0
      unwords ["0", encodeState (configure field (intsOf ks) s)]
  | "kbenum", [] =>
    -- `(0..).map_while(try_from)`: numbers from 0 up to the first unknown one
    let ks := ((List.range 256).takeWhile fun i => (assoc i kbTryFrom).isSome).filterMap fun i => assoc i kbTryFrom
    let names := ks.map fun k => kbDisplayText.getD k []
    some (unwords [toString ks.length, hxCps (names.intersperse [44]).flatten])
  | "kbinit", [cls] => some (unwords [toString (getKBType init), hxCps (getKBString init), inClass init cls])
  | "kbeff", [k, a, cls] =>
    (applySel k a init).map fun (s, r) =>
      unwords [toString r, toString (getKBType s), hxCps (getKBString s), inClass s cls]
  | "kbeff2", [k1, a1, k2, a2, cls] =>
    (applySel k1 a1 init).bind fun (s1, r1) =>
      (applySel k2 a2 s1).map fun (s2, r2) =>
        unwords [toString r1, toString r2, toString (getKBType s2), hxCps (getKBString s2), inClass s2 cls]
  | "kbkeep", [kb, cls] => some (inClass (setKBType (intOf kb) init).1 cls)
  | "keyeq", [kb, _key, x, y] =>
    let k := natOf kb
    some (if pairByName k == pairByNum k then "1" else if x == y then "1" else "0")
  | _, _ => none

end Chewing.Driver
