-- @component conv convExpected
-- @component convx convExpected
import Chewing.Model.ConversionSimple
import Chewing.Driver.Util
/-!
`conv <engine> <stream> <lookup table> <symbols> <gaps> <selections> <k-paths> => <result>` records (C03, C04):
the conversion engines recomputed from scratch by the model.  The dictionary is the lookup table of
the record (an abstract `Dict`); the pick oracle of `find_k_paths` replays the implementation's picks
(`<k-paths>`, exported by the `verif_k_paths` hook) — a pick that is not a candidate of minimal length
is answered by an out-of-range index, which the model turns into `panic:pick` (a DIFF).
-/
namespace Chewing.Driver
open Chewing Chewing.Conv

def splitNonEmpty (s : String) (sep : String) : List String :=
  if s == "-" || s == "" then [] else s.splitOn sep

def hexToCps (h : String) : List Nat := cpsOfHx ("x" ++ h)

def parsePhrase (s : String) : Phrase :=
  match s.splitOn "," with
  | [h, f, l] => { text := hexToCps h, freq := natOf f, lastUsed := if l == "-" then none else some (natOf l) }
  | _ => { text := [], freq := 0 }

def parseKey (s : String) : List Nat := if s == "e" then [] else (s.splitOn ".").map natOf

/-- `strat:key:phrases;…` -/
def parseTable (s : String) : List (Strategy × List Nat × List Phrase) :=
  (splitNonEmpty s ";").filterMap fun ent =>
    match ent.splitOn ":" with
    | [st, k, ps] => some (if st == "f" then Strategy.fuzzyPartialPrefix else Strategy.standard, parseKey k,
        (ps.splitOn "/").map parsePhrase)
    | _ => none

def tableDict (t : List (Strategy × List Nat × List Phrase)) : Dict :=
  { lookup := fun key strat =>
      match t.find? (fun e => decide (e.1 = strat) && decide (e.2.1 = key)) with
      | some e => e.2.2
      | none => [] }

def cvParseSym (s : String) : Sym :=
  if s.startsWith "s" then .syl (natOf (s.drop 1).toString) else .chr (natOf (s.drop 1).toString)

def cvParseGap (ch : Char) : Gap :=
  if ch == 'b' then .begin else if ch == 'k' then .brk else if ch == 'g' then .glue else .normal

def parseInterval (s : String) : Interval :=
  match s.splitOn "." with
  | [a, b, p, h] => { start := natOf a, stop := natOf b, isPhrase := p == "1", text := hexToCps h }
  | _ => { start := 0, stop := 0, isPhrase := false, text := [] }

def cvParseComp (syms gaps sels : String) : Composition :=
  { symbols := (splitNonEmpty syms ",").map cvParseSym,
    gaps := if gaps == "-" then [] else gaps.toList.map cvParseGap,
    selections := (splitNonEmpty sels ";").map parseInterval }

/-- `0-2,2-4;0-1,1-4` → lists of `(start, stop)` -/
def parseKPaths (s : String) : List (List (Nat × Nat)) :=
  (splitNonEmpty s ";").map fun p =>
    if p == "e" then [] else (p.splitOn ",").map fun e =>
      match e.splitOn "-" with
      | [a, b] => (natOf a, natOf b)
      | _ => (0, 0)

def pathKey (p : Path) : List (Nat × Nat) := p.map fun e => (e.start, e.stop)

/-- replay oracle: the index of the implementation's `kth` path among the candidates, provided it has
    minimal length (what `sort_unstable_by_key(len)` + `swap_remove(0)` may return); otherwise out of range -/
def replayPick (impl : List (List (Nat × Nat))) (kth : Nat) (cands : List Path) : Nat :=
  match impl[kth]? with
  | none => cands.length
  | some t =>
    match cands.findIdx? (fun p => decide (pathKey p = t)) with
    | none => cands.length
    | some i => if cands.all (fun p => decide (t.length ≤ p.length)) then i else cands.length

def encInterval (iv : Interval) : String :=
  s!"{iv.start}.{iv.stop}.{if iv.isPhrase then 1 else 0}.{(hxCps iv.text).drop 1}"

def encAlt (a : List Interval) : String :=
  if a.isEmpty then "-" else ";".intercalate (a.map encInterval)

def panicClass (m : String) : String :=
  let has (sub : String) : Bool := (m.splitOn sub).length > 1
  if has "on a `None` value" then "nopath"
  else if has "subtract with overflow" then "sub"
  else if has "out of bounds" then "index"
  else if has "assert" then "assert"
  else if has "pick oracle" then "pick"
  else "score"

def alternativesCap : Nat := 20

def encOk (alts : List (List Interval)) : String :=
  unwords (["ok", toString alts.length] ++ (alts.take alternativesCap).map encAlt)

def cvEngineOf (s : String) : Option Engine :=
  if s == "chewing" then some .chewing else if s == "simple" then some .simple
  else if s == "fuzzy" then some .fuzzy else none

def convExpected (fn : String) (args : List String) : Option String :=
  match cvEngineOf fn, args with
  | some eng, [_stream, table, syms, gaps, sels, kpaths] =>
    let d := tableDict (parseTable table)
    let c := cvParseComp syms gaps sels
    let impl := parseKPaths kpaths
    match eng with
    | .simple => some (encOk (convertSimple d c))
    | _ =>
      if c.symbols.length = 0 then
        some (match convert (replayPick impl) eng d c with
          | .ok alts => encOk alts
          | .panic m => "panic:" ++ panicClass m
          | .outOfFuel => "out-of-fuel")
      else
        match rawPaths (replayPick impl) d eng.strategy c with
        | .ok paths =>
          -- the implementation's raw k-paths must be the model's (each pick was checked to be legal)
          if paths.map pathKey != impl then some "kpaths-differ"
          else
            some (match finishPaths c paths with
              | .ok alts => encOk alts
              | .panic m => "panic:" ++ panicClass m
              | .outOfFuel => "out-of-fuel")
        | .panic m => some ("panic:" ++ panicClass m)
        | .outOfFuel => some "out-of-fuel"
  | _, _ => none

end Chewing.Driver
