-- @component dict dictExpected
import Chewing.Model.TrieBuf
import Chewing.Driver.Util
/-!
`dict …` records: mutable dictionaries (C09).  Every record carries the whole operation history of
the dictionary (the model replays it from the initial state) and the queries asked after it:

    dict mem  <nh> <op…> <nq> <query…>                         => <answer…>     in-memory TrieBuf
    dict file <nh> <op…> <nq> <query…>                         => <answer…>     file-backed TrieBuf
    dict trie <ne> <entry…> <nq> <query…>                      => <answer…>     read-only Trie built from entries
    dict lay  <na> <op…> <nb> <entry…> <nh> <op…> <nq> <query…> => <answer…>     Layered[TrieBuf(mem), Trie ; user TrieBuf(mem)]
    dict layf <na> <op…> <nb> <entry…> <nh> <op…> <nq> <query…> => <answer…>     … with a file-backed user TrieBuf

    op     a,<key>,<text>,<freq>,<time|->   u,<key>,<text>,<freq>,<time>   r,<key>,<text>   f   o   c
    entry  <key>,<text>,<freq>,<time|->
    query  R (result of the last operation: ok/err)   L,<key>,<n|max>,<s|f>   E
           P,<key>,<s|f> (`lookup_first_phrase`)   A,<key>,<s|f> (`lookup_all_phrases`) — provided trait methods
    key    syllable codes joined by '.', text x<hex of UTF-8>
    answer to L: phrases `text/freq/time` joined by ';' ('-' if none), to E: `key/text/freq/time`,
           stably sorted by key on both sides (the enumeration order across keys is not specified)
-/
namespace Chewing.Driver
namespace DictDrv  -- own namespace: helper names (parseKey, …) clash with other drivers
open Chewing MapSpec

def parseKey (s : String) : Key := if s == "-" || s.isEmpty then [] else (s.splitOn ".").map natOf

def keyS (k : Key) : String := if k.isEmpty then "-" else ".".intercalate (k.map toString)

def parseOp (tok : String) : Option Op :=
  match tok.splitOn "," with
  | ["a", k, t, f, tm] => some (.add (parseKey k) (cpsOfHx t) (natOf f) (if tm == "-" then none else some (natOf tm)))
  | ["u", k, t, f, tm] => some (.update (parseKey k) (cpsOfHx t) (natOf f) (natOf tm))
  | ["r", k, t] => some (.remove (parseKey k) (cpsOfHx t))
  | ["f"] => some .flush
  | ["o"] => some .reopen
  | ["c"] => some .closeOpen
  | _ => none

def parseEntry (tok : String) : Option Entry :=
  match tok.splitOn "," with
  | [k, t, f, tm] => some (parseKey k, { text := cpsOfHx t, freq := natOf f, lastUsed := if tm == "-" then none else some (natOf tm) })
  | _ => none

def phraseS (p : Phrase) : String := hxCps p.text ++ "/" ++ toString p.freq ++ "/" ++ optS p.lastUsed

def phrasesS (l : List Phrase) : String := if l.isEmpty then "-" else ";".intercalate (l.map phraseS)

def entriesS (l : List Entry) : String :=
  let l := isort (fun a b => Trie.keyLt a.1 b.1) l
  if l.isEmpty then "-" else ";".intercalate (l.map fun e => keyS e.1 ++ "/" ++ phraseS e.2)

/-- split off a counted block `<n> <tok…>` -/
def takeCounted (toks : List String) : Option (List String × List String) :=
  match toks with
  | n :: rest =>
    let n := natOf n
    if rest.length < n then none else some (rest.take n, rest.drop n)
  | [] => none

def allSome {α : Type} : List (Option α) → Option (List α)
  | [] => some []
  | none :: _ => none
  | some a :: r => (allSome r).map (a :: ·)

def parseN (s : String) : Nat := if s == "max" then usizeMax else natOf s

def parseStrat (s : String) : Strategy := if s == "f" then .fuzzyPartialPrefix else .standard

/-- result of the last operation of a history (`runf` replays a prefix): only `add_phrase` can fail -/
def lastResultWith (runf : List Op → TrieBuf.State) (ops : List Op) : String :=
  match ops.reverse with
  | .add k t _ _ :: before => if TrieBuf.addOk (runf before.reverse) k t then "ok" else "err"
  | _ => "ok"

def lastResult (init : TrieBuf.State) (ops : List Op) : String := lastResultWith (TrieBuf.run init) ops

/-- … on a `Layered`: an operation that is not forwarded to the user layer answers `Ok` -/
def lastResultLayered (init : TrieBuf.State) (ops : List Op) : String :=
  match ops.getLast? with
  | some op => if Layered.forwarded op then lastResultWith (Layered.runUser init) ops else "ok"
  | none => "ok"

/-- answer one query given the lookup / enumeration functions of the dictionary under test -/
def answer (res : String) (lookup : Key → Nat → Strategy → List Phrase) (ents : Unit → List Entry) (q : String) : Option String :=
  match q.splitOn "," with
  | ["R"] => some res
  | ["L", k, n, st] => some (phrasesS (lookup (parseKey k) (parseN n) (parseStrat st)))
  | ["P", k, st] => some (phrasesS (firstPhraseOf (fun n => lookup (parseKey k) n (parseStrat st))).toList)
  | ["A", k, st] => some (phrasesS (allPhrasesOf (fun n => lookup (parseKey k) n (parseStrat st))))
  | ["E"] => some (entriesS (ents ()))
  | _ => none

def answers (res : String) (lookup : Key → Nat → Strategy → List Phrase) (ents : Unit → List Entry) (qs : List String) : Option String :=
  (allSome (qs.map (answer res lookup ents))).map unwords

def trieBufRecord (init : TrieBuf.State) (args : List String) : Option String := do
  let (hs, rest) ← takeCounted args
  let (qs, rest) ← takeCounted rest
  if !rest.isEmpty then none
  let ops ← allSome (hs.map parseOp)
  let s := TrieBuf.run init ops
  answers (lastResult init ops) (TrieBuf.lookupFirstN s) (fun _ => TrieBuf.entries s) qs

def trieRecord (args : List String) : Option String := do
  let (es, rest) ← takeCounted args
  let (qs, rest) ← takeCounted rest
  if !rest.isEmpty then none
  let es ← allSome (es.map parseEntry)
  let t := Trie.build es
  answers "ok" (Trie.lookupFirstN t) (fun _ => Trie.entries t) qs

def layeredRecord (init : TrieBuf.State) (args : List String) : Option String := do
  let (as, rest) ← takeCounted args
  let (bs, rest) ← takeCounted rest
  let (hs, rest) ← takeCounted rest
  let (qs, rest) ← takeCounted rest
  if !rest.isEmpty then none
  let aops ← allSome (as.map parseOp)
  let bes ← allSome (bs.map parseEntry)
  let ops ← allSome (hs.map parseOp)
  let a := TrieBuf.run TrieBuf.initMem aops
  let b := Trie.build bes
  let u := Layered.runUser init ops
  let layers : List Dict := [TrieBuf.toDict a, { lookup := fun k st => Trie.lookupFirstN b k usizeMax st }, TrieBuf.toDict u]
  -- `Layered::add_phrase` etc. forward to the user layer (and accept an empty phrase without doing anything)
  answers (lastResultLayered init ops) (Layered.lookupFirstN layers)
    (fun _ => Layered.entries [TrieBuf.entries a, Trie.entries b, TrieBuf.entries u]) qs

end DictDrv
open Chewing MapSpec DictDrv

/-- expected right-hand side of a `dict` record -/
def dictExpected (fn : String) (args : List String) : Option String :=
  match fn with
  | "mem" => trieBufRecord TrieBuf.initMem args
  | "file" => trieBufRecord TrieBuf.initFile args
  | "trie" => trieRecord args
  | "lay" => layeredRecord TrieBuf.initMem args
  | "layf" => layeredRecord TrieBuf.initFile args
  | _ => none

end Chewing.Driver
