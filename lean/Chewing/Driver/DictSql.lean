-- @component dictsql dictSqlExpected
import Chewing.Model.SqliteDict
import Chewing.Driver.Dict
/-!
`dictsql …` records: the SQLite user dictionary (C09 stage C, harness feature `sqlite`).

    dictsql hist <ne> <entry…> <nh> <op…> <nq> <query…> => <answer…>

`entry` (content inserted through `SqliteDictionaryBuilder` before the dictionary is opened) and
`query` as in `Driver/Dict.lean`; `op` = `a,<key>,<text>,<freq>` | `u,<key>,<text>,<orig>,<user_freq>,<time>` |
`r,<key>,<text>` | `f` | `o`.  Enumerations are compared sorted by (key, text): SQL defines no order.
-/
namespace Chewing.Driver
open Chewing MapSpec DictDrv

def parseSqlOp (tok : String) : Option SqliteDict.Op :=
  match tok.splitOn "," with
  | ["a", k, t, f] => some (.add (parseKey k) (cpsOfHx t) (natOf f))
  | ["u", k, t, o, uf, tm] => some (.update (parseKey k) (cpsOfHx t) (natOf o) (natOf uf) (natOf tm))
  | ["r", k, t] => some (.remove (parseKey k) (cpsOfHx t))
  | ["f"] => some .flush
  | ["o"] => some .reopen
  | ["c"] => some .reopen   -- drop the connection and open the file again: the relations persist
  | _ => none

def entriesSqlS (l : List Entry) : String :=
  let lt (a b : Entry) : Bool :=
    match cmpList a.1 b.1 with
    | .lt => true
    | .gt => false
    | .eq => cmpList a.2.text b.2.text == .lt
  let l := isort lt l
  if l.isEmpty then "-" else ";".intercalate (l.map fun e => keyS e.1 ++ "/" ++ phraseS e.2)

def answerSql (s : SqliteDict.State) (q : String) : Option String :=
  match q.splitOn "," with
  | ["R"] => some "ok"
  | ["L", k, n, st] => some (phrasesS (SqliteDict.lookupFirstN s (parseKey k) (parseN n) (parseStrat st)))
  | ["P", k, st] => some (phrasesS (firstPhraseOf (fun n => SqliteDict.lookupFirstN s (parseKey k) n (parseStrat st))).toList)
  | ["A", k, st] => some (phrasesS (allPhrasesOf (fun n => SqliteDict.lookupFirstN s (parseKey k) n (parseStrat st))))
  | ["E"] => some (entriesSqlS (SqliteDict.entries s))
  | _ => none

def dictSqlExpected (fn : String) (args : List String) : Option String :=
  match fn with
  | "hist" => do
    let (es, rest) ← takeCounted args
    let (hs, rest) ← takeCounted rest
    let (qs, rest) ← takeCounted rest
    if !rest.isEmpty then none
    let es ← allSome (es.map parseEntry)
    let ops ← allSome (hs.map parseSqlOp)
    let s := SqliteDict.run (SqliteDict.build es) ops
    (allSome (qs.map (answerSql s))).map unwords
  | _ => none

end Chewing.Driver
