-- @checker ed edCheck
import Chewing.Model.Editor
import Chewing.Model.Candidates
import Chewing.Model.TrieBuf
import Chewing.Driver.Util
/-!
`ed …` records: one step of the editor state machine, recomputed from the implementation's own
pre-state (hook H1).  The environment is instantiated with

* an executable model of `Layered` over in-memory `TrieBuf`s (system layers given as entry lists,
  the user layer as pending B-tree + tombstones, as exported by `TrieBuf::verif_snapshot`),
* the layout's recorded answers for this step (computed by the harness on clones of the real
  layout state: key_press, fuzzy_key_press, remove_last, clear, alt_syllables),
* the conversion engine's recorded answers for the compositions it was actually asked about,
* the short-band frequency estimate (the only band reachable from the editor).
-/
namespace Chewing.Driver
open Chewing

/-! ### token stream -/

abbrev P := StateM (List String)

def tok : P String := do
  match (← get) with
  | [] => return ""
  | t :: rest => set rest; return t

def num : P Nat := do return natOf (← tok)

def times {α : Type} (n : Nat) (p : P α) : P (List α) := do
  let mut acc := []
  for _ in [0:n] do
    acc := (← p) :: acc
  return acc.reverse

def listOf {α : Type} (p : P α) : P (List α) := do times (← num) p

def textTok : P Text := do return cpsOfHx (← tok)

/-! ### dictionary model: Layered over in-memory TrieBufs -/

structure UEntry where
  key : List Nat
  text : Text
  freq : Nat
  time : Nat
deriving Repr, BEq, Inhabited

structure MemDict where
  sys : List (List UEntry)
  btree : List UEntry            -- sorted by (key, text)
  grave : List (List Nat × Text)
deriving Repr, BEq, Inhabited

def listLt : List Nat → List Nat → Bool
  | [], [] => false
  | [], _ :: _ => true
  | _ :: _, [] => false
  | a :: as, b :: bs => a < b || (a == b && listLt as bs)

/-- Rust `str` order = UTF-8 byte order = code point order -/
def ueLt (a b : UEntry) : Bool := listLt a.key b.key || (a.key == b.key && listLt a.text b.text)

def insertSorted (e : UEntry) : List UEntry → List UEntry
  | [] => [e]
  | x :: xs =>
    if x.key == e.key && x.text == e.text then e :: xs
    else if ueLt e x then e :: x :: xs
    else x :: insertSorted e xs

/-- `TrieBuf::entries_iter_for` + `lookup_first_n_phrases` without a persisted snapshot: the pending entries
    whose key matches the query under the strategy (`==`, or per syllable `starts_with` with the same
    number of syllables — since fix c3d9fb2, F36, an in-memory `TrieBuf` matches pending entries by prefix;
    before it the prefix lookup of an in-memory dictionary was its exact lookup), `BTreeMap` order, minus
    the tombstones of the entry's own key -/
def layerLookup (es : List UEntry) (grave : List (List Nat × Text)) (key : List Nat) (st : Strategy := .standard) :
    List Phrase :=
  ((es.filter fun e => Trie.keyMatch st e.key key).filter fun e => !grave.contains (e.key, e.text)).map
    fun e => { text := e.text, freq := e.freq, lastUsed := some e.time }

/-- `Phrase: Ord` — frequency, then text -/
def phraseLe (a b : Phrase) : Bool := a.freq < b.freq || (a.freq == b.freq && !listLt b.text a.text)

/-- de-duplicate by text keeping the maximum at the first position (`Layered::lookup_first_n_phrases`) -/
def dedup (ps : List Phrase) : List Phrase :=
  ps.foldl (fun acc p =>
    if acc.any (fun q => q.text == p.text) then
      acc.map fun q => if q.text == p.text then (if phraseLe p q then q else p) else q
    else acc ++ [p]) []

def MemDict.userLookup (d : MemDict) (key : List Nat) (st : Strategy := .standard) : List Phrase :=
  dedup (layerLookup d.btree d.grave key st)

def MemDict.lookup (d : MemDict) (key : List Nat) (st : Strategy := .standard) : List Phrase :=
  dedup ((d.sys.flatMap fun l => dedup (layerLookup l [] key st)) ++ d.userLookup key st)

def MemDict.add (d : MemDict) (key : List Nat) (p : Phrase) : Option MemDict :=
  if p.text.isEmpty then some d
  else if (layerLookup d.btree d.grave key).any (fun q => q.text == p.text) then none
  else some { d with btree := insertSorted { key, text := p.text, freq := p.freq, time := p.lastUsed.getD 0 } d.btree,
                     grave := d.grave.filter (fun g => !(g.1 == key && g.2 == p.text)) }   -- `self.graveyard.remove(&key)` (fix d795ec0)

def MemDict.update (d : MemDict) (key : List Nat) (p : Phrase) (freq time : Nat) : MemDict :=
  if p.text.isEmpty then d
  else { d with btree := insertSorted { key, text := p.text, freq, time } d.btree,
                grave := d.grave.filter (fun g => !(g.1 == key && g.2 == p.text)) }   -- `self.graveyard.remove(&key)` (fix d795ec0)

def MemDict.remove (d : MemDict) (key : List Nat) (text : Text) : MemDict :=
  { d with btree := d.btree.filter (fun e => !(e.key == key && e.text == text)),
           grave := if d.grave.contains (key, text) then d.grave else d.grave ++ [(key, text)] }

def entryP : P UEntry := do
  let key ← listOf num
  let text ← textTok
  let freq ← num
  let time ← num
  return { key, text, freq, time }

def dictP : P MemDict := do
  let sys ← listOf (listOf entryP)
  let _ ← tok   -- "U"
  let btree ← listOf entryP
  let grave ← listOf (do let k ← listOf num; let t ← textTok; return (k, t))
  return { sys, btree, grave }

def entryS (e : UEntry) : String :=
  unwords ([toString e.key.length] ++ e.key.map toString ++ [hxCps e.text, toString e.freq, toString e.time])

def graveLt (a b : List Nat × Text) : Bool := listLt a.1 b.1 || (a.1 == b.1 && listLt a.2 b.2)

def insertGrave (g : List Nat × Text) : List (List Nat × Text) → List (List Nat × Text)
  | [] => [g]
  | x :: xs => if graveLt g x then g :: x :: xs else x :: insertGrave g xs

def dictS (d : MemDict) : String :=
  let grave := d.grave.foldl (fun acc g => insertGrave g acc) []
  unwords ([toString d.sys.length] ++ d.sys.map (fun l => unwords ([toString l.length] ++ l.map entryS))
    ++ ["U", toString d.btree.length] ++ d.btree.map entryS
    ++ [toString grave.length] ++ grave.map fun g => unwords ([toString g.1.length] ++ g.1.map toString ++ [hxCps g.2]))

/-! ### layout: recorded answers -/

structure LayState where
  code : Nat
  empty : Bool
  keySeq : Option String      -- the hex token as recorded
deriving Repr, BEq, Inhabited

structure Lay where
  st : LayState
  /-- 0 = the state the answers were recorded for -/
  gen : Nat := 0
  desync : Bool := false
  kp : Option (LayoutBeh × LayState) := none
  fkp : Option (LayoutBeh × LayState) := none
  rl : LayState
  clr : LayState
  alts : List (Nat × List Nat) := []
deriving Repr, Inhabited

def layStateP : P LayState := do
  let code ← num
  let empty ← num
  let ks ← tok
  return { code, empty := empty == 1, keySeq := if ks == "-" then none else some ks }

def layStateS (s : LayState) : String :=
  unwords [toString s.code, if s.empty then "1" else "0", s.keySeq.getD "-"]

def behOf (s : String) : LayoutBeh :=
  match s with
  | "i" => .ignore
  | "a" => .absorb
  | "c" => .commit
  | "k" => .keyError
  | "e" => .error
  | "n" => .noWord
  | "o" => .openSymbolTable
  | _ => .fuzzy (natOf (s.drop 1).toString)

def answerP : P (Option (LayoutBeh × LayState)) := do
  let b ← tok
  if b == "-" then return none
  let st ← layStateP
  return some (behOf b, st)

def Lay.press (l : Lay) (ans : Option (LayoutBeh × LayState)) : LayoutBeh × Lay :=
  match l.gen, ans with
  | 0, some (b, st) => (b, { l with st := st, gen := 1 })
  | _, _ => (.error, { l with desync := true })

def Lay.clear (l : Lay) : Lay := { l with st := l.clr, gen := l.gen + 1 }

def Lay.removeLast (l : Lay) : Lay :=
  if l.gen == 0 then { l with st := l.rl, gen := 1 } else { l with desync := true }

/-! ### conversion: recorded answers -/

structure ConvAnswer where
  engine : Nat
  /-- fingerprint of the user dictionary at the time of the call (one step can convert the same composition
      twice with a learning in between) -/
  fp : Nat
  comp : String              -- canonical composition text
  paths : List (List Interval)

def ivP : P Interval := do
  let start ← num
  let stop ← num
  let ph ← num
  let text ← textTok
  return { start, stop, isPhrase := ph == 1, text }

def gapOf (s : String) : Gap :=
  match s with
  | "B" => .begin
  | "K" => .brk
  | "G" => .glue
  | _ => .normal

def gapS : Gap → String
  | .begin => "B"
  | .brk => "K"
  | .glue => "G"
  | .normal => "N"

def symOf (s : String) : Sym :=
  if s.startsWith "s" then .syl (natOf (s.drop 1).toString) else .chr (natOf (s.drop 1).toString)

def symS : Sym → String
  | .syl c => "s" ++ toString c
  | .chr c => "c" ++ toString c

def compP : P Composition := do
  let symbols ← listOf (do return symOf (← tok))
  let gaps ← listOf (do return gapOf (← tok))
  let selections ← listOf ivP
  return { symbols, gaps, selections }

def ivLt (a b : Interval) : Bool :=
  a.start < b.start || (a.start == b.start && (a.stop < b.stop || (a.stop == b.stop && listLt a.text b.text)))

def sortIvs (l : List Interval) : List Interval :=
  l.foldl (fun acc x =>
    let rec ins : List Interval → List Interval
      | [] => [x]
      | y :: ys => if ivLt x y then x :: y :: ys else y :: ins ys
    ins acc) []

def ivS (iv : Interval) : String :=
  unwords [toString iv.start, toString iv.stop, if iv.isPhrase then "1" else "0", hxCps iv.text]

/-- canonical text of a composition: selections sorted (their order is unobservable) -/
def compS (c : Composition) : String :=
  unwords ([toString c.symbols.length] ++ c.symbols.map symS ++ [toString c.gaps.length] ++ c.gaps.map gapS
    ++ [toString c.selections.length] ++ (sortIvs c.selections).map ivS)

def convAnswerP : P ConvAnswer := do
  let engine ← num
  let fp ← num
  let comp ← compP
  let paths ← listOf (listOf ivP)
  return { engine, fp, comp := compS comp, paths }

def engineNo : EngineKind → Nat
  | .simple => 0
  | .chewing => 1
  | .fuzzy => 2

def engineOf (n : Nat) : EngineKind :=
  match n with
  | 0 => .simple
  | 2 => .fuzzy
  | _ => .chewing

/-! ### the environment -/

/-- short-band estimate (`delta_time = 0` on the editor path), with the `u32` guards of the debug build -/
def edEstimate (_time freq maxFreq : Nat) : Outcome Nat :=
  if maxFreq < freq then .panic "estimate-sub-overflow"
  else
    let d := (maxFreq - freq) / 5 + 1
    let delta := if freq ≥ maxFreq then min d 10 else max d 10
    if freq + delta ≥ 2 ^ 32 then .panic "estimate-add-overflow"
    else .ok (min (freq + delta) 99999999)

/-- entries, tombstones, sum of frequencies and times of the user dictionary: what the harness records with every
    conversion call (`user_fingerprint` in harness/src/bin/editor/main.rs) -/
def dictFp (d : MemDict) : Nat :=
  d.btree.length * 1000003 + d.grave.length * 10007 + d.btree.foldl (fun a e => a + e.freq + e.time) 0

def mkEnv (answers : List ConvAnswer) : Env MemDict Lay where
  lookupAll d key st := d.lookup key st
  userLookupAll d key st := d.userLookup key st
  addPhrase d key p := d.add key p
  updatePhrase d key p f t := d.update key p f t
  removePhrase d key t := d.remove key t
  reopenFlush d := d
  convert eng d comp :=
    match answers.find? (fun a => a.engine == engineNo eng && a.comp == compS comp && a.fp == dictFp d) with
    | some a => .ok a.paths
    | none => .panic "conversion-not-recorded"
  estimate := edEstimate
  keyPress l _ := l.press l.kp
  fuzzyKeyPress l _ := l.press l.fkp
  removeLast l := l.removeLast
  clearSyl l := l.clear
  sylIsEmpty l := l.st.empty
  read l := l.st.code
  altSyllables l s := ((l.alts.find? (fun a => a.1 == s)).map (·.2)).getD []

/-! ### snapshot -/

def kbOf (s : String) : KB :=
  match s with
  | "I" => .ignore
  | "C" => .commit
  | "B" => .bell
  | _ => .absorb

def kbS : KB → String
  | .ignore => "I"
  | .commit => "C"
  | .bell => "B"
  | .absorb => "A"

def optNumP : P (Option Nat) := do
  let t ← tok
  return if t == "-" then none else some (natOf t)

def stateP : P St := do
  let k ← tok
  match k with
  | "Y" => return .enteringSyllable
  | "H" => return .highlighting (← num)
  | "S" =>
    let pageNo ← num
    let action := if (← tok) == "I" then SelAction.insert else SelAction.replace
    let kind ← tok
    match kind with
    | "P" =>
      let begin_ ← num
      let end_ ← num
      let fwd ← num
      let orig ← num
      let strat ← num
      let com ← compP
      let strategy : Strategy := if strat == 1 then .fuzzyPartialPrefix else .standard
      let p : PhraseSel := { begin_, end_, forward := fwd == 1, orig, strategy, com }
      return .selecting { pageNo, action, sel := .phrase p }
    | "M" =>
      let c ← optNumP
      -- tables are filled in from the shared template after parsing
      return .selecting { pageNo, action, sel := .symbol { cursor := c } }
    | _ =>
      let s ← tok
      return .selecting { pageNo, action, sel := .special (symOf s) }
  | _ => return .entering

def optionsP : P Options := do
  let b : P Bool := do return (← num) == 1
  let easySymbolInput ← b
  let escClearAllBuffer ← b
  let spaceIsSelectKey ← b
  let autoShiftCursor ← b
  let phraseChoiceRearward ← b
  let disableAutoLearnPhrase ← b
  let autoCommitThreshold ← num
  let candidatesPerPage ← num
  let lm ← num
  let cf ← num
  let ad ← num
  let ls ← num
  let ce ← num
  let enableFullwidthToggleKey ← b
  return { easySymbolInput, escClearAllBuffer, spaceIsSelectKey, autoShiftCursor, phraseChoiceRearward,
           disableAutoLearnPhrase, autoCommitThreshold, candidatesPerPage,
           languageMode := if lm == 1 then .english else .chinese,
           characterForm := if cf == 1 then .full else .half,
           userPhraseAddDir := if ad == 1 then .backward else .forward,
           lookupStrategy := if ls == 1 then .fuzzyPartialPrefix else .standard,
           conversionEngine := engineOf ce, enableFullwidthToggleKey }

def optionsS (o : Options) : String :=
  let b (x : Bool) := if x then "1" else "0"
  unwords [b o.easySymbolInput, b o.escClearAllBuffer, b o.spaceIsSelectKey, b o.autoShiftCursor,
    b o.phraseChoiceRearward, b o.disableAutoLearnPhrase, toString o.autoCommitThreshold,
    toString o.candidatesPerPage, b (o.languageMode == .english), b (o.characterForm == .full),
    b (o.userPhraseAddDir == .backward), b (o.lookupStrategy == .fuzzyPartialPrefix),
    toString (engineNo o.conversionEngine), b o.enableFullwidthToggleKey]

/-- the parsed snapshot, with the parts that are not in `Editor` -/
structure Snap where
  state : St
  com : CompEditor
  lay : LayState
  engine : EngineKind
  symSel : SymSel
  options : Options
  last : KB
  dirty : Nat
  nth : Nat
  commitBuf : Text
  noticeBuf : Text
  time : Nat

def snapP : P Snap := do
  let state ← stateP
  let _ ← tok   -- ";"
  let cursor ← num
  let stack ← listOf num
  let inner ← compP
  let _ ← tok
  let lay ← layStateP
  let _ ← tok
  let engine ← num
  let category ← listOf (do let name ← textTok; let idx ← optNumP; return (name, idx))
  let table ← listOf textTok
  let symCursor ← optNumP
  let _ ← tok
  let options ← optionsP
  let _ ← tok
  let last ← tok
  let dirty ← num
  let nth ← num
  let commitBuf ← textTok
  let noticeBuf ← textTok
  let time ← num
  let symSel : SymSel := { category, table, cursor := symCursor }
  -- a symbol selector inside `Selecting` is a clone of the template with its own cursor
  let state := match state with
    | .selecting { pageNo, action, sel := .symbol y } =>
      .selecting { pageNo, action, sel := .symbol { symSel with cursor := y.cursor } }
    | s => s
  return { state, com := { cursor, stack, inner }, lay, engine := engineOf engine, symSel, options,
           last := kbOf last, dirty, nth, commitBuf, noticeBuf, time }

def optNumS : Option Nat → String
  | some n => toString n
  | none => "-"

def stateS : St → String
  | .entering => "E"
  | .enteringSyllable => "Y"
  | .highlighting m => "H " ++ toString m
  | .selecting s =>
    unwords (["S", toString s.pageNo, (match s.action with | .insert => "I" | .replace => "R")] ++
      match s.sel with
      | .phrase p => ["P", toString p.begin_, toString p.end_, if p.forward then "1" else "0", toString p.orig,
          if p.strategy == .fuzzyPartialPrefix then "1" else "0", compS p.com]
      | .symbol y => ["M", optNumS y.cursor]
      | .special sym => ["X", symS sym])

def snapS (e : Editor MemDict Lay) : String :=
  let sh := e.shared
  unwords ([stateS e.state, ";", toString sh.com.cursor, toString sh.com.stack.length] ++ sh.com.stack.map toString
    ++ [compS sh.com.inner, ";", layStateS sh.syl.st, ";", toString (engineNo sh.engine),
        toString sh.symSel.category.length]
    ++ sh.symSel.category.map (fun c => hxCps c.1 ++ " " ++ optNumS c.2)
    ++ [toString sh.symSel.table.length] ++ sh.symSel.table.map hxCps
    ++ [optNumS sh.symSel.cursor, ";", optionsS sh.options, ";", kbS sh.last, toString sh.dirty, toString sh.nth,
        hxCps sh.commitBuf, hxCps sh.noticeBuf, toString sh.time])

/-- canonical re-serialisation of a recorded snapshot (sorts selections), to compare like with like -/
def canonSnap (toks : List String) : String :=
  let (s, _) := snapP.run toks
  let lay : Lay := { st := s.lay, rl := s.lay, clr := s.lay }
  let sh : Shared MemDict Lay := {
    com := s.com, syl := lay, engine := s.engine, dict := { sys := [], btree := [], grave := [] },
    symSel := s.symSel, time := s.time, options := s.options, last := s.last, dirty := s.dirty,
    nth := s.nth, commitBuf := s.commitBuf, noticeBuf := s.noticeBuf }
  snapS { shared := sh, state := s.state }

/-! ### one record -/

def splitBar (toks : List String) : List (List String) :=
  let rec go (cur : List String) (acc : List (List String)) : List String → List (List String)
    | [] => (cur.reverse :: acc).reverse
    | "|" :: rest => go [] (cur.reverse :: acc) rest
    | t :: rest => go (t :: cur) acc rest
  go [] [] toks

def altP : P (Nat × List Nat) := do
  let s ← num
  let alts ← listOf num
  return (s, alts)

/-- `L <kp> <fkp> <rl> <clr> <alts…> C <answers…>` -/
def answersP (st : LayState) : P (Lay × List ConvAnswer) := do
  let _ ← tok   -- "L"
  let kp ← answerP
  let fkp ← answerP
  let rl ← layStateP
  let clr ← layStateP
  let alts ← listOf altP
  let _ ← tok   -- "C"
  let answers ← listOf convAnswerP
  return ({ st, kp, fkp, rl, clr, alts }, answers)

def okS (b : Bool) : String := if b then "ok" else "err"

/-- run one operation: (post editor, return token) -/
def runOp (env : Env MemDict Lay) (e : Editor MemDict Lay) (fn : String) (a : List String) :
    Outcome (Editor MemDict Lay × String) :=
  match fn, a with
  | "key", [index, code, unicode, shift, ctrl, caps, numl] =>
    let mods : Mods := { shift := shift == "1", ctrl := ctrl == "1", capslock := caps == "1", numlock := numl == "1" }
    let ev : KeyEvent := { index := natOf index, code := natOf code, unicode := natOf unicode, mods }
    (e.processKey env ev).map fun (e', kb) => (e', kbS kb)
  | "select", [n] => (e.select env (natOf n)).map fun (e', okk) => (e', okS okk)
  | "startsel", [] => (e.startSelecting env).map fun (e', okk) => (e', okS okk)
  | "cancelsel", [] => let (e', okk) := e.cancelSelecting; .ok (e', okS okk)
  | "commit", [] => (e.commit env).map fun (e', okk) => (e', okS okk)
  | "clear", [] => .ok (e.clear env, "ok")
  | "ack", [] => .ok (e.ack, "ok")
  | "clearsyl", [] => .ok (e.clearSyllableEditor env, "ok")
  | "setopts", toks => let (o, _) := optionsP.run toks; (Editor.revalidate env (e.setOptions env o)).map fun e' => (e', "ok")
  | "setlayout", [_, code, empty, ks] =>
    let st : LayState := { code := natOf code, empty := empty == "1", keySeq := if ks == "-" then none else some ks }
    (Editor.revalidate env (e.setLayout env { e.shared.syl with st := st, gen := e.shared.syl.gen + 1 })).map fun e' => (e', "ok")
  | "setengine", [k] =>
    let k := engineOf (natOf k)
    let e := { e with shared := { e.shared with engine := k } }
    let ls : Strategy := if k == .fuzzy then .fuzzyPartialPrefix else .standard
    let o := { e.shared.options with conversionEngine := k, lookupStrategy := ls }
    (Editor.revalidate env (e.setOptions env o)).map fun e' => (e', "ok")
  | "learn", toks =>
    let ((key, phrase), _) := (do let k ← listOf num; let p ← textTok; return (k, p) : P _).run toks
    match Shared.learnPhrase env e.shared key phrase with
    | .ok (sh, okk) => (Editor.revalidate env { e with shared := sh }).map fun e' => (e', okS okk)
    | .panic q => .panic q
    | .outOfFuel => .outOfFuel
  | "unlearn", toks =>
    let ((key, phrase), _) := (do let k ← listOf num; let p ← textTok; return (k, p) : P _).run toks
    (Editor.revalidate env { e with shared := Shared.unlearnPhrase env e.shared key phrase }).map fun e' => (e', "ok")
  | "jump", [j] => (e.jump env (natOf j)).map fun (e', okk) => (e', okS okk)
  | "cands", [] =>
    -- C07: the candidate getters (pure): `tp=<total_page>,pn=<page>,all=<hex>/…,pag=<hex>/…`
    match e.allCandidates env, e.paginatedCandidates env, e.totalPage env, e.currentPageNo with
    | .ok (some all), .ok (some pag), .ok (some tp), some pn =>
      let join (l : List Text) := "/".intercalate (l.map hxCps)
      .ok (e, s!"tp={tp},pn={pn},all={join all},pag={join pag}")
    | .ok none, _, _, _ => .ok (e, "closed")
    | _, _, _, _ => .ok (e, "panic")
  | _, _ => .panic "driver: unknown op"

/-- `ed <op…> | <pre> | <dict> | <answers> => ok | <post> | <ret> | <dict'>`  or  `=> panic` -/
def edCheck (fn : String) (args rhs : List String) : Option (Option String) :=
  match splitBar args, splitBar rhs with
  | [opArgs, pre, dictPre, answers], obs =>
    let (snap, _) := snapP.run pre
    let (dict, _) := dictP.run dictPre
    let ((lay, convs), _) := (answersP snap.lay).run answers
    let env := mkEnv convs
    let sh : Shared MemDict Lay := {
      com := snap.com, syl := lay, engine := snap.engine, dict, symSel := snap.symSel,
      abbr := [(97, [28204, 35430]), (90, [131072, 20497])],
      time := snap.time, options := snap.options, last := snap.last, dirty := snap.dirty,
      nth := snap.nth, commitBuf := snap.commitBuf, noticeBuf := snap.noticeBuf }
    let e : Editor MemDict Lay := { shared := sh, state := snap.state }
    -- the decoder must be lossless on what it reads
    if snapS e != canonSnap pre then some (some ("decode-mismatch " ++ snapS e)) else
    match runOp env e fn opArgs, obs with
    | .panic site, [["panic"]] => if site.startsWith "driver" then some (some site) else some none
    | .panic site, _ => some (some ("panic " ++ site))
    | .outOfFuel, _ => some (some "outOfFuel")
    | .ok (e', ret), [["ok"], post, [ret'], dictPost] =>
      if e'.shared.syl.desync then some (some "layout-desync (model called the layout differently)")
      else
        let want := snapS e'
        let got := canonSnap post
        let (dp, _) := dictP.run dictPost
        if want != got then some (some ("post " ++ want))
        else if ret != ret' then some (some ("ret " ++ ret))
        else if dictS e'.shared.dict != dictS dp then some (some ("dict " ++ dictS e'.shared.dict))
        else some none
    | .ok (e', ret), _ => some (some ("ok " ++ ret ++ " | " ++ snapS e'))
  | _, _ => none

end Chewing.Driver
