-- @checker edq edqCheck
import Chewing.Driver.Ed
import Chewing.Proofs.EditorPure
/-!
`edq all | <snapshot> | <dict> | <layout + conversion answers> => <answers of 20 getters>` records (C17):
the getters of the real editor, called on the state the snapshot describes, compared with the model's
`Editor.query` — the functions of the editor value the C17 theorems are about.
-/
namespace Chewing.Driver
open Chewing

def queryTag : Query → String
  | .display => "D" | .displayCommit => "C" | .notification => "N" | .intervals => "I" | .cursor => "U"
  | .symbols => "Y" | .len => "L" | .isEmpty => "E" | .isEntering => "Fe" | .isSelecting => "Fs"
  | .enteringSyllable => "Fy" | .syllableBuffer => "Fb" | .allCandidates => "A" | .paginatedCandidates => "G"
  | .totalPage => "T" | .currentPageNo => "Tc" | .hasNextSelectionPoint => "Jn" | .hasPrevSelectionPoint => "Jp"
  | .editorOptions => "O" | .lastKeyBehavior => "K"

/-- the 20 modelled getters in the order the harness prints them -/
def allQueries : List Query :=
  [.display, .displayCommit, .notification, .intervals, .cursor, .symbols, .len, .isEmpty, .isEntering,
   .isSelecting, .enteringSyllable, .syllableBuffer, .allCandidates, .paginatedCandidates, .totalPage,
   .currentPageNo, .hasNextSelectionPoint, .hasPrevSelectionPoint, .editorOptions, .lastKeyBehavior]

def valueS : Value → String
  | .unit => "-"
  | .bool b => if b then "1" else "0"
  | .nat n => toString n
  | .text t => hxCps t
  | .texts l => unwords (toString l.length :: l.map hxCps)
  | .syms l => unwords (toString l.length :: l.map symS)
  | .ivs l => unwords (toString l.length :: l.map ivS)
  | .kb k => kbS k
  | .opts o => optionsS o
  | .invalidState => "E"

def answerS (q : Query) (v : Outcome Value) : String :=
  queryTag q ++ " " ++
    match v with
    | .ok v => valueS v
    | .panic _ => "P"
    | .outOfFuel => "F"

def edqCheck (fn : String) (args rhs : List String) : Option (Option String) :=
  match fn, splitBar args with
  | "all", [_, pre, dictPre, answers] =>
    let (snap, _) := snapP.run pre
    let (dict, _) := dictP.run dictPre
    let ((lay, convs), _) := (answersP snap.lay).run answers
    let env := mkEnv convs
    let sh : Shared MemDict Lay := {
      com := snap.com, syl := lay, engine := snap.engine, dict, symSel := snap.symSel,
      abbr := [(97, [28204, 35430]), (90, [131072, 20497])],
      time := snap.time, options := snap.options, last := snap.last, dirty := snap.dirty,
      nth := snap.nth, commitBuf := snap.commitBuf, noticeBuf := snap.noticeBuf }
    let e : Editor MemDict Lay := { shared := sh, state := snap.state }
    if snapS e != canonSnap pre then some (some ("decode-mismatch " ++ snapS e)) else
    let want := unwords (allQueries.map fun q => answerS q (e.query env q))
    if want == unwords rhs then some none else some (some want)
  | _, _ => none

end Chewing.Driver
