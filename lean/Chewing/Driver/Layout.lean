-- @component kb kbExpected
-- @component lay layExpected
-- @component pin pinExpected
import Chewing.Model.Layout
import Chewing.Model.LayoutPinyin
import Chewing.Driver.Util
/-! `kb …`, `lay …`, `pin …` records: keyboards and phonetic layouts (C14). -/
namespace Chewing.Driver
open Chewing

def evS (e : Option KeyEv) (withMods : Bool) : String :=
  match e with
  | none => "panic"
  | some e => unwords ([toString e.index, toString e.code, toString e.unicode] ++ (if withMods then [toString e.mods] else []))

def kbExpected (fn : String) (args : List String) : Option String :=
  match fn, args with
  | "map", [kb, code, mods] => some (evS (mapWithMod kb (natOf code) (natOf mods)) false)
  | "ascii", [kb, a] => some (evS (mapAscii kb (natOf a)) true)
  | "asciinl", [kb, a] => some (evS (mapAsciiNumlock kb (natOf a)) true)
  | _, _ => none

def behS : Behavior → String
  | .ignore => "ignore"
  | .absorb => "absorb"
  | .commit => "commit"
  | .keyError => "keyerror"
  | .error => "error"
  | .noWord => "noword"
  | .openSymbolTable => "opensym"
  | .fuzzy s => "fuzzy:" ++ toString s

def pressS (r : PressResult) : String :=
  match r with
  | none => "panic 0"
  | some (b, c) => behS b ++ " " ++ toString c

def codesS (l : List Nat) : String :=
  if l.isEmpty then "-" else ",".intercalate (l.map toString)

def pinVariant (v : String) : Option Nat :=
  match v with
  | "hanyu" => some 0
  | "thl" => some 1
  | "mps2" => some 2
  | _ => none

def layExpected (fn : String) (args : List String) : Option String :=
  match fn, args with
  | "key", [l, pre, idx, code, uni] =>
    (layoutByName l).map fun L =>
      let k : KeyEv := { index := natOf idx, code := natOf code, unicode := natOf uni, mods := 0 }
      pressS (L.press (natOf pre) k) ++ " " ++ pressS (L.fuzzyPress (natOf pre) k)
  | "pop", [l, pre] => (layoutByName l).map fun _ => toString (removeLast (natOf pre))
  | "clear", [l, _] => (layoutByName l).map fun _ => toString clearSyl
  | "info", [l, pre] =>
    (layoutByName l).map fun _ => unwords [if isEmptySyl (natOf pre) then "1" else "0", pre, "-"]
  | "alt", [l, s] =>
    match layoutByName l with
    | some L => some (codesS (L.alt (natOf s)))
    | none => (pinVariant l).map fun _ => "-"
  | _, _ => none

def pinStateS (st : PinyinState) : String :=
  unwords [hxCps st.keySeq, toString st.syl, toString st.alt]

def pinExpected (fn : String) (args : List String) : Option String :=
  match fn, args with
  | "key", [v, ks, s, a, idx, code, uni] =>
    (pinVariant v).map fun v =>
      let st : PinyinState := { keySeq := cpsOfHx ks, syl := natOf s, alt := natOf a }
      let k : KeyEv := { index := natOf idx, code := natOf code, unicode := natOf uni, mods := 0 }
      match pinyinPress v st k with
      | none => "panic"
      | some (b, st') => behS b ++ " " ++ pinStateS st'
  | "pop", [v, ks, s, a] =>
    (pinVariant v).map fun _ => pinStateS (pinyinRemoveLast { keySeq := cpsOfHx ks, syl := natOf s, alt := natOf a })
  | "clear", [v, _, _, _] => (pinVariant v).map fun _ => pinStateS pinyinClear
  | "info", [v, ks, s, a] =>
    (pinVariant v).map fun _ =>
      let st : PinyinState := { keySeq := cpsOfHx ks, syl := natOf s, alt := natOf a }
      unwords [if pinyinIsEmpty st then "1" else "0", toString (pinyinRead st), hxCps st.keySeq]
  | _, _ => none

end Chewing.Driver
