-- @component learn learnExpected
import Chewing.Model.Learn
import Chewing.Driver.Util
/-! `learn …` records: frequency estimate, auto-learning on commit, default conversion of a learned range (C08). -/
namespace Chewing.Driver
open Chewing Chewing.Learn

namespace LearnP

def keyOfTok (s : String) : List Nat :=
  if s == "-" then [] else (s.splitOn ",").map natOf

def keyTok (k : List Nat) : String :=
  if k.isEmpty then "-" else ",".intercalate (k.map toString)

/-- `<n> (<key> <text> <freq>)*` -/
def sysEntries : Nat → List String → Option (List Entry × List String)
  | 0, rest => some ([], rest)
  | n + 1, k :: t :: f :: rest =>
    (sysEntries n rest).map fun (es, r) => ((keyOfTok k, { text := cpsOfHx t, freq := natOf f }) :: es, r)
  | _, _ => none

/-- `<n> (<key> <text> <freq> <time>)*` -/
def userEntries : Nat → List String → Option (UserMap × List String)
  | 0, rest => some ([], rest)
  | n + 1, k :: t :: f :: tm :: rest =>
    (userEntries n rest).map fun (es, r) => (((keyOfTok k, cpsOfHx t), (natOf f, natOf tm)) :: es, r)
  | _, _ => none

def symOfTok (s : String) : Sym :=
  let n := natOf (String.ofList (s.toList.drop 1))
  if s.startsWith "s" then .syl n else .chr n

def syms : Nat → List String → Option (List Sym × List String)
  | 0, rest => some ([], rest)
  | n + 1, s :: rest => (syms n rest).map fun (es, r) => (symOfTok s :: es, r)
  | _, _ => none

def ivs : Nat → List String → Option (List Interval × List String)
  | 0, rest => some ([], rest)
  | n + 1, a :: b :: p :: t :: rest =>
    (ivs n rest).map fun (es, r) =>
      ({ start := natOf a, stop := natOf b, isPhrase := p == "1", text := cpsOfHx t } :: es, r)
  | _, _ => none

def counted {α : Type} (p : Nat → List String → Option (α × List String)) : List String → Option (α × List String)
  | n :: rest => p (natOf n) rest
  | [] => none

def lexLt : List Nat → List Nat → Bool
  | [], [] => false
  | [], _ :: _ => true
  | _ :: _, [] => false
  | a :: as, b :: bs => a < b || (a == b && lexLt as bs)

/-- order of `BTreeMap<(Vec<Syllable>, String), _>`: syllable codes, then UTF-8 bytes (= code points) -/
def entryLe (x y : UKey × (Nat × Nat)) : Bool :=
  lexLt x.1.1 y.1.1 || (x.1.1 == y.1.1 && !lexLt y.1.2 x.1.2)

def userTok (u : UserMap) : String :=
  let s := u.mergeSort entryLe
  unwords (toString s.length :: s.flatMap fun e => [keyTok e.1.1, hxCps e.1.2, toString e.2.1, toString e.2.2])

end LearnP

open LearnP in
/-- expected right-hand side of a `learn` record -/
def learnExpected (fn : String) (args : List String) : Option String :=
  match fn, args with
  | "est", [lt, f, lu, o, m] =>
    let last := if lu == "-" then none else some (natOf lu)
    some (match estimate (natOf lt) (natOf f) last (natOf o) (natOf m) with
      | .ok v => "ok " ++ toString v
      | .panic _ => "panic"
      | .outOfFuel => "fuel")
  | "maxfrom", n :: ts =>
    if ts.length == natOf n then some (toString (maxFrom (ts.map natOf))) else none
  | "commit", dis :: lt :: rest => do
    let (sys, r) ← counted sysEntries rest
    let (u, r) ← counted userEntries r
    let (sy, r) ← counted syms r
    let (iv, r) ← counted ivs r
    if !r.isEmpty then none
    some (match commitLearn (dis == "1") { sys := sys, lifetime := natOf lt } sy iv u with
      | .ok u' => "ok " ++ userTok u'
      | .panic _ => "panic"
      | .outOfFuel => "fuel")
  | "default", rest => do
    let (sys, r) ← counted sysEntries rest
    let (u, r) ← counted userEntries r
    match r with
    | [k] =>
      let key := keyOfTok k
      -- the whole range has a phrase of its own: the default conversion is the single interval carrying the
      -- first most frequent phrase (Props/C08 `top_is_default`)
      (bestPhrase (lookupAll { sys := sys, lifetime := 0 } u key)).map fun p => hxCps p.1
    | _ => none
  | _, _ => none

end Chewing.Driver
