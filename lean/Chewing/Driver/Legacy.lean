-- @component loader loaderExpected
-- @component walk walkExpected
import Chewing.Model.Loader
import Chewing.Model.SqliteV1
import Chewing.Model.UhashEnc
import Chewing.Model.UhashTextEnc
import Chewing.Model.TrieWalk
import Chewing.Model.TrieCodec
import Chewing.Model.Syllable
import Chewing.Driver.Util
/-!
`loader …` records (C12 legacy importer, C19 migration) and `walk …` records (C12 trie traversal).

    loader start  <dat> <uhash> => ok <dict entries> <dat after close> | err <dat after> | panic
    loader cstart <dat> <uhash> => ok <dat after close> | null <dat after> | abort
    loader learn  <dat> <entry> => <dat after close>
    loader sqlstart <rows of the legacy chewing.sqlite3> => ok <dict entries> <dat after close> | err
    loader sqlv1  V:<raw userphrase_v1 rows> => ok <rows entries() yields after the in-file migration, key-sorted> | err
    loader encbin <lifetime bytes> G:<stored records> => <file bytes> valid|invalid <live records>
    loader enctext <lifetime, signed decimal> G:<stored records> => <file bytes> valid|invalid <live records>
        (the TEXT writer `Uhash.encodeText`; valid = the hypotheses of C19 `text_reader_complete`: the lifetime is an
         i64 and every record is `GRec.TextValid`)
    walk entries <index bytes> <dataLen> <leaf table>                    => ok <n> <syls>/<phrase>… | panic | hang
    walk lookup  <index bytes> <dataLen> <leaf table> <s|f> <first> <q>  => ok <n> <phrase>…        | panic | hang
    walk open <file bytes>                                               => ok <index bytes> <dataLen> | err
    walk validate <index bytes> <dataLen>                                => ok | err

`<dat>` = `-` (file absent) or `D:` + `;`-joined entries; an entry is `<syls>/<x-hex phrase>/<freq>/<time>`
with `<syls>` comma-separated codes or `-`.  The leaf table is `T:` + `;`-joined `db,de=<p>|<p>…`
where `<p>` is an opaque phrase token (what `PhrasesIter` decodes from `data[db..de]`, exported by
the harness — the model treats phrase decoding as a parameter).
A raw v1 row is `<time>,<user_freq>,<max_freq>,<orig_freq>,<length>,<phone_0>,…,<phone_10>/<x-hex phrase>`
(signed decimal, table order); the rows are `;`-joined in rowid order.
-/
namespace Chewing.Driver
open Chewing

namespace Legacy

def splitNonEmpty (s : String) (sep : String) : List String := (s.splitOn sep).filter (· ≠ "")

def sylsOf (s : String) : List Nat := if s == "-" then [] else (s.splitOn ",").map natOf
def sylsS (l : List Nat) : String := if l.isEmpty then "-" else ",".intercalate (l.map toString)

def entryOf (s : String) : Option (Loader.Key × Loader.Val) :=
  match s.splitOn "/" with
  | [sy, ph, f, t] => some ((sylsOf sy, unhex ph), (natOf f, natOf t))
  | _ => none

def entryS (e : Loader.Key × Loader.Val) : String :=
  sylsS e.1.1 ++ "/" ++ hexBytes 'x' e.1.2 ++ "/" ++ toString e.2.1 ++ "/" ++ toString e.2.2

def datS : Option Loader.DatFile → String
  | none => "-"
  | some .corrupt => "corrupt"
  | some (.valid m) => "D:" ++ ";".intercalate (m.map entryS)

def mapS (m : Loader.UMap) : String := "D:" ++ ";".intercalate (m.map entryS)

def datOf (s : String) : Option (Option Loader.DatFile) :=
  if s == "-" then some none
  else if s.startsWith "D:" then
    let es := (splitNonEmpty (s.drop 2).toString ";").map entryOf
    if es.all Option.isSome then some (some (.valid (es.filterMap id))) else none
  else none

def uhashOf (s : String) : Option (List Nat) := if s == "-" then none else some (unhex s)

/-- `<syls>/<x-hex phrase>/<f>,<t>,<m>,<o>/<deleted 0|1>` -/
def grecOf (s : String) : Option Uhash.GRec :=
  match s.splitOn "/" with
  | [sy, ph, fs, d] => some { syls := sylsOf sy, phrase := unhex ph, fields := (fs.splitOn ",").map natOf, deleted := d == "1" }
  | _ => none

def intOf (s : String) : Int :=
  if s.startsWith "-" then - ((s.drop 1).toString.toNat?.getD 0 : Nat) else (s.toNat?.getD 0 : Nat)

def v1RowOf (s : String) : Option SqliteV1.V1Row :=
  match s.splitOn "/" with
  | [nums, ph] =>
    let ints := (nums.splitOn ",").map intOf
    if ints.length == 16 then some { ints := ints, phrase := unhex ph } else none
  | _ => none

end Legacy
open Legacy

def loaderExpected (fn : String) (args : List String) : Option String :=
  match fn, args with
  | "start", [dat, uh] =>
    match datOf dat with
    | none => none
    | some d =>
      some (match Loader.load false { chewingDat := d, uhashDat := uhashOf uh, sqlite := none } with
        | .ok l =>
          (match l.dict with
           | .ok m => "ok " ++ mapS m ++ " " ++ datS l.dir.chewingDat
           | .error _ => "err " ++ datS l.dir.chewingDat)
        | .panic _ => "panic"
        | .outOfFuel => "hang")
  | "cstart", [dat, uh] =>
    match datOf dat with
    | none => none
    | some d =>
      some (match Loader.load false { chewingDat := d, uhashDat := uhashOf uh, sqlite := none } with
        | .ok l =>
          (match l.dict with
           | .ok _ => "ok " ++ datS l.dir.chewingDat
           | .error _ => "null " ++ datS l.dir.chewingDat)
        | .panic _ => "abort"
        | .outOfFuel => "hang")
  | "sqlstart", [rows] =>
    match datOf rows with
    | some (some (.valid es)) =>
      let rs : List Uhash.Rec := es.map fun e => { syls := e.1.1, phrase := e.1.2, freq := e.2.1, time := e.2.2 }
      some (match Loader.load true { chewingDat := none, uhashDat := none, sqlite := some (some rs) } with
        | .ok l =>
          (match l.dict with
           | .ok m => "ok " ++ mapS m ++ " " ++ datS l.dir.chewingDat
           | .error _ => "err")
        | .panic _ => "panic"
        | .outOfFuel => "hang")
    | _ => none
  | "sqlv1", [rows] =>
    if rows.startsWith "V:" then
      let rs := (splitNonEmpty (rows.drop 2).toString ";").map v1RowOf
      if rs.all Option.isSome then
        some (match SqliteV1.migrate (rs.filterMap id) with
          | .ok m => "ok " ++ mapS m
          | .error _ => "err")
      else none
    else none
  | "encbin", [lt, gs] =>
    let rs := (splitNonEmpty (gs.drop 2).toString ";").map grecOf
    if rs.all Option.isSome then
      let rs := rs.filterMap id
      some (hexBytes 'b' (Uhash.encodeBin (unhex lt) rs) ++ (if rs.all (fun g => decide g.Valid) then " valid " else " invalid ")
        ++ "D:" ++ ";".intercalate ((Uhash.liveRecs rs).map fun r => entryS ((r.syls, r.phrase), (r.freq, r.time))))
    else none
  | "enctext", [lt, gs] =>
    let rs := (splitNonEmpty (gs.drop 2).toString ";").map grecOf
    if rs.all Option.isSome then
      let rs := rs.filterMap id
      let z := intOf lt
      let ok := decide (-9223372036854775808 ≤ z ∧ z < 9223372036854775808) && rs.all (fun g => decide g.TextValid)
      some (hexBytes 'b' (Uhash.encodeText z rs) ++ (if ok then " valid " else " invalid ")
        ++ "D:" ++ ";".intercalate ((Uhash.liveRecs rs).map fun r => entryS ((r.syls, r.phrase), (r.freq, r.time))))
    else none
  | "learn", [dat, e] =>
    match datOf dat, entryOf e with
    | some (some (.valid m)), some (k, v) => some (mapS (Loader.insert m k v))
    | _, _ => none
  | _, _ => none

/-! ### walk -/
namespace Legacy

def leafTabOf (s : String) : List ((Nat × Nat) × List String) :=
  (splitNonEmpty (s.drop 2).toString ";").filterMap fun item =>
    match item.splitOn "=" with
    | [rng, ps] =>
      match rng.splitOn "," with
      | [a, b] => some ((natOf a, natOf b), splitNonEmpty ps "|")
      | _ => none
    | _ => none

def tblOf (idx dl tab : String) : TrieWalk.Tbl String :=
  let lt := leafTabOf tab
  { recs := TrieWalk.parseIndex (unhex idx), dataLen := natOf dl,
    leaf := fun db de => ((lt.find? (fun e => e.1 == (db, de))).map (·.2)).getD [] }

/-- the proved bound of `entries_terminates` (validated tables only reach the traversals) -/
def walkFuel (t : TrieWalk.Tbl String) : Nat := 16 * t.n + 2

def stdPred (n syl : Nat) : Bool := n == syl
/-- `FuzzyPartialPrefix`: `if n == 0 { false } else if let Ok(s) = Syllable::try_from(n) { s.starts_with(syl) } else { false }`
    (`try_from` = `validCode` since the repair of C13's F47: a node syllable that is not a syllable matches nothing) -/
def fuzzyPred (n syl : Nat) : Bool := n != 0 && validCode n && startsWith n syl

end Legacy

def walkExpected (fn : String) (args : List String) : Option String :=
  match fn, args with
  | "entries", [idx, dl, tab] =>
    let t := tblOf idx dl tab
    some (match TrieWalk.entriesFuel t (walkFuel t) with
      | .ok gs =>
        let es := TrieWalk.flatten gs
        unwords ("ok" :: toString es.length :: es.map fun e => sylsS e.1 ++ "/" ++ e.2)
      | .panic _ => "panic"
      | .outOfFuel => "hang")
  | "lookup", [idx, dl, tab, st, first, q] =>
    let t := tblOf idx dl tab
    let pred := if st == "f" then fuzzyPred else stdPred
    let first := if first == "max" then 18446744073709551615 else natOf first
    some (match TrieWalk.lookup t pred first (sylsOf q) with
      | .ok ps => unwords ("ok" :: toString ps.length :: ps)
      | .panic _ => "panic"
      | .outOfFuel => "hang")
  | "open", [file] =>
    some (match TrieCodec.openTrie (unhex file) with
      | some t => unwords ["ok", hexBytes 'b' t.index, toString t.data.length]
      | none => "err")
  | "validate", [idx, dl] =>
    some (if TrieWalk.validate (tblOf idx dl "T:") then "ok" else "err")
  | _, _ => none

end Chewing.Driver
