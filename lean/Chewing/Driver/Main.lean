import Chewing.Driver.Registry
/-!
Model driver.  Reads transcript records `<component> <fn> <args…> => <observed>` from stdin,
recomputes `<observed>` with the model's executable definitions and prints

  `DIFF <record> || expected <model result>`   for every disagreement,
  `SKIP <record>`                               for records the model does not cover,
  `#summary total <n> ok <n> diff <n> skip <n>` at the end.

Lines starting with `#` or `!` (statistics, oracle verdicts of the harness) are ignored.
-/
namespace Chewing.Driver

structure Counts where
  total : Nat := 0
  ok : Nat := 0
  diff : Nat := 0
  skip : Nat := 0

def splitArrow (toks : List String) : List String × List String :=
  (toks.takeWhile (· != "=>"), (toks.dropWhile (· != "=>")).drop 1)

partial def loop (h : IO.FS.Stream) (c : Counts) : IO Counts := do
  let line ← h.getLine
  if line.isEmpty then return c
  let line := line.trimAscii.toString
  if line.isEmpty || line.startsWith "#" || line.startsWith "!" then loop h c
  else
    let toks := line.splitOn " "
    let (lhs, rhs) := splitArrow toks
    match lhs with
    | comp :: fn :: args =>
      match check comp fn args rhs with
      | some none => loop h { c with total := c.total + 1, ok := c.ok + 1 }
      | some (some e) => do
        IO.println s!"DIFF {line} || expected {e}"
        loop h { c with total := c.total + 1, diff := c.diff + 1 }
      | none => do
        IO.println s!"SKIP {line}"
        loop h { c with total := c.total + 1, skip := c.skip + 1 }
    | _ => do
      IO.println s!"SKIP {line}"
      loop h { c with total := c.total + 1, skip := c.skip + 1 }

end Chewing.Driver

def main : IO Unit := do
  let c ← Chewing.Driver.loop (← IO.getStdin) {}
  IO.println s!"#summary total {c.total} ok {c.ok} diff {c.diff} skip {c.skip}"
