-- @component persist persistExpected
import Chewing.Model.Persist
import Chewing.Driver.Util
/-! `persist …` records: the persistence protocol of the user dictionary (C10).

`persist run g<G>j<J> <init> <tok,tok,…> => <obs> <obs> …` — the model is run from `init` over the
realised schedule and prints, after every token, what the harness observed on the implementation:
return status, `dirty`, writer position, the three layers, the file at the path, the temp file. -/
namespace Chewing.Driver
open Chewing.Persist

/-- keys printed individually -/
def smallKeys : List Nat := List.range 8
def bigBase : Nat := 100
def bigMax : Nat := 4000

/-- `e` | `k.v+…` (keys < 8) then `#count.checksum` over the bulk keys (only scanned when `big`) -/
def showContent (big : Bool) (c : Content) : String :=
  let small := smallKeys.filterMap fun k => (c k).map fun v => toString k ++ "." ++ toString v
  let bulk :=
    if big then
      let (n, s) := (List.range bigMax).foldl (fun (acc : Nat × Nat) i =>
        match c (bigBase + i) with
        | some v => (acc.1 + 1, (acc.2 + (bigBase + i) * v) % 1000003)
        | none => acc) (0, 0)
      if n == 0 then [] else ["#" ++ toString n ++ "." ++ toString s]
    else []
  let parts := small ++ bulk
  if parts.isEmpty then "e" else "+".intercalate parts

def showKeys (big : Bool) (g : Key → Bool) : String :=
  let ks := (smallKeys.filter g).map toString
  let n := if big then ((List.range bigMax).filter fun i => g (bigBase + i)).length else 0
  let parts := if n == 0 then ks else ks ++ ["#" ++ toString n]
  if parts.isEmpty then "e" else "+".intercalate parts

def pcName : PC → String
  | .start => "start" | .collected => "collected" | .created => "created" | .written => "written"
  | .flushed => "flushed" | .synced => "synced" | .renamed => "renamed" | .built => "built"
  | .reopened => "reopened" | .finished => "fin"

def showFile (big : Bool) (fs : FS) : String :=
  match fs .path with
  | none => "?"
  | some .partial_ => "!"
  | some (.complete c) => showContent big c

def showTmp (big : Bool) (fs : FS) : String :=
  match fs .tmp with
  | none => "-"
  | some .partial_ => "p"
  | some (.complete c) => "c=" ++ showContent big c

def showObs (big : Bool) (ret : String) (w : World) : String :=
  if w.crashed then ":".intercalate ["X", showFile big w.fs, showTmp big w.fs]
  else if w.phase == .run then
    let h := match w.writer with
      | none => "-"
      | some wr => pcName wr.pc
    ":".intercalate [ret, (if w.buf.dirty then "1" else "0") ++ h, showContent big w.buf.trie,
      showContent big w.buf.btree, showKeys big w.buf.grave, showFile big w.fs, showTmp big w.fs]
  else
    let h := match w.writer with
      | none => "-"
      | some wr => if wr.pc == .finished then "-" else pcName wr.pc
    ":".intercalate [ret, "~" ++ h, showFile big w.fs, showTmp big w.fs]

/-- `k.v` -/
def parseKV (s : String) : Option (Nat × Nat) :=
  match s.splitOn "." with
  | [k, v] => do
    let k ← k.toNat?
    let v ← v.toNat?
    pure (k, v)
  | _ => none

def parseTok (t : String) : Option Act :=
  let r := String.ofList (t.toList.drop 1)
  match t.toList.head? with
  | some 'a' => (parseKV r).map fun (k, v) => .add k v
  | some 'u' => (parseKV r).map fun (k, v) => .update k v
  | some 'r' => r.toNat?.map .remove
  | some 'f' => some .flush
  | some 's' => some .reopen
  | some 'c' => some .close
  | some 'd' => some .d
  | some 'o' => some .open_
  | some 'w' => some .w
  | some 'x' => some .crash
  | _ => none

/-- `e` | parts joined by `+`: `k.v` or `bigN` (keys 100 … 100+N-1 ↦ k % 7 + 1) -/
def parseInit (s : String) : Option (Content × Bool) :=
  if s == "e" then some (fun _ => none, false) else
  (s.splitOn "+").foldl (fun acc part =>
    match acc with
    | none => none
    | some (c, big) =>
      if part.startsWith "big" then
        match (String.ofList (part.toList.drop 3)).toNat? with
        | some n => some (fun k => if bigBase ≤ k ∧ k < bigBase + n then some (k % 7 + 1) else c k, true)
        | none => none
      else
        match parseKV part with
        | some (k, v) => some (setC c k (some v), big)
        | none => none) (some (fun _ => none, false))

/-- return status the implementation reports for the call -/
def retOf (cfg : Cfg) (w : World) (a : Act) : String :=
  match a with
  | .add k v => if (w.buf.add cfg k v).2 then "k" else "e"
  | .update _ _ | .remove _ | .flush => "k"
  | .reopen => if syncOk w then "k" else "e"
  | .open_ => "k"
  | _ => "-"

def runObs (cfg : Cfg) (big : Bool) : World → List Act → List String
  | _, [] => []
  | w, a :: as =>
    match step cfg w a with
    | some w' => showObs big (retOf cfg w a) w' :: runObs cfg big w' as
    | none => ["DISABLED"]

def parseCfg (s : String) : Option Cfg :=
  match s.toList with
  | ['g', g, 'j', j] => some { revive := g == '1', joinFirst := j == '1' }
  | _ => none

/-! editor tier: `persist editor g<G>j<J> <init> <tok,…>` with tokens `LK` learn (syllables known to the
system dictionary), `lK` learn (known only if the user dictionary has the phrase), `UK` unlearn,
`k` a key event, and `c d w x` as above; observations `<ret>:<writer>:<keys in the file>:<temp>`
(values are chosen by the frequency estimator and not compared). -/

def showKeysOf (c : Content) : String :=
  let ks := (smallKeys.filter fun k => (c k).isSome).map toString
  if ks.isEmpty then "e" else "+".intercalate ks

inductive EdTok where
  | learn (k : Nat) (sys : Bool) | unlearn (k : Nat) | key | env (a : Act)

def parseEdTok (t : String) : Option EdTok :=
  let r := String.ofList (t.toList.drop 1)
  match t.toList.head? with
  | some 'L' => r.toNat?.map fun k => .learn k true
  | some 'l' => r.toNat?.map fun k => .learn k false
  | some 'U' => r.toNat?.map .unlearn
  | some 'k' => some .key
  | some 'c' => some (.env .close)
  | some 'd' => some (.env .d)
  | some 'w' => some (.env .w)
  | some 'x' => some (.env .crash)
  | _ => none

def showEdObs (ret : String) (w : World) : String :=
  let f := match w.fs .path with
    | none => "?"
    | some .partial_ => "!"
    | some (.complete c) => showKeysOf c
  let t := match w.fs .tmp with
    | none => "-"
    | some .partial_ => "p"
    | some (.complete c) => "c=" ++ showKeysOf c
  if w.crashed then ":".intercalate ["X", f, t] else
  let h := match w.writer with
    | none => "-"
    | some wr => if wr.pc == .finished then "-" else pcName wr.pc
  ":".intercalate [ret, h, f, t]

def runEdObs (cfg : Cfg) : EdWorld → List EdTok → List String
  | _, [] => []
  | e, t :: ts =>
    let (a, ret) : EdAct × String := match t with
      | .learn k sys =>
        let known := sys || (e.w.buf.live k).isSome
        (.learn k 1 known, if known then "k" else if (e.w.buf.add cfg k 1).2 then "k" else "e")
      | .unlearn k => (.unlearn k, "k")
      | .key => (.key, "-")
      | .env a => (.env a, "-")
    match edStep cfg e a with
    | some e' => showEdObs ret e'.w :: runEdObs cfg e' ts
    | none => ["DISABLED"]

def persistExpected (fn : String) (args : List String) : Option String :=
  match fn, args with
  | "run", [cfg, ini, toks] => do
    let cfg ← parseCfg cfg
    let (c0, big) ← parseInit ini
    let acts ← (toks.splitOn ",").mapM parseTok
    pure (unwords (runObs cfg big (init c0 none) acts))
  | "editor", [cfg, ini, toks] => do
    let cfg ← parseCfg cfg
    let (c0, _) ← parseInit ini
    let acts ← (toks.splitOn ",").mapM parseEdTok
    pure (unwords (runEdObs cfg { w := init c0 none, dirtyLevel := 0 } acts))
  | _, _ => none

end Chewing.Driver
