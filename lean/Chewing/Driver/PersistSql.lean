-- @component persistsql persistSqlExpected
import Chewing.Model.PersistSql
import Chewing.Driver.Util
/-! `persistsql …` records: the SQLite back end of the user dictionary (C10, feature `sqlite`).

`persistsql run <tok,…> => <view> <view> …` — after every call, what an independent connection reads
while the first one stays open (no `flush`, no close).
`persistsql kill <tok,…> <n> => <view>` — the process was killed while call number `n` (0-based) was
in progress or before it was entered; `n` calls had returned; what a new connection reads afterwards.
The model is run at statement granularity: `n` complete transactions, then the next call is entered,
its first statement is executed, and the process dies. -/
namespace Chewing.Driver
open Chewing.PersistSql

def sqlKeys : List Nat := List.range 8

def sqlShowView (r : Rel) : String :=
  let parts := sqlKeys.filterMap fun k =>
    (view r k).map fun (f, t) => toString k ++ "." ++ toString f ++ "." ++ toString t
  if parts.isEmpty then "e" else "+".intercalate parts

def sqlParseCall (t : String) : Option Call :=
  let r := String.ofList (t.toList.drop 1)
  let nums := (r.splitOn ".").mapM String.toNat?
  match t.toList.head?, nums with
  | some 'a', some [k, f] => some (.add k f)
  | some 'u', some [k, f, uf, tm] => some (.update k f uf tm)
  | some 'r', some [k] => some (.remove k)
  | some 'f', _ => some .flush
  | some 's', _ => some .reopen
  | _, _ => none

/-- the micro-steps of one complete call from world `w` -/
def sqlCallActs (w : World) (c : Call) : List Act :=
  .call c :: (List.replicate (plan w.db c).length .stmt ++ [.commit])

def sqlEmptyRel : Rel := { dict := fun _ => none, user := fun _ => none, maxId := 0 }

def sqlRunCalls : World → List Call → Option (World × List String)
  | w, [] => some (w, [])
  | w, c :: cs => do
    let w1 ← run w (sqlCallActs w c)
    let (w2, vs) ← sqlRunCalls w1 cs
    pure (w2, sqlShowView w1.db :: vs)

def persistSqlExpected (fn : String) (args : List String) : Option String :=
  match fn, args with
  | "run", [toks] => do
    let cs ← (toks.splitOn ",").mapM sqlParseCall
    let (_, vs) ← sqlRunCalls (init sqlEmptyRel) cs
    pure (unwords vs)
  | "kill", [toks, n] => do
    let cs ← (toks.splitOn ",").mapM sqlParseCall
    let n ← n.toNat?
    let (w, _) ← sqlRunCalls (init sqlEmptyRel) (cs.take n)
    let w1 ← match cs[n]? with
      | some c => do
        let w' ← step w (.call c)
        match step w' .stmt with
        | some w'' => pure w''
        | none => pure w'
      | none => pure w
    let w2 ← step w1 .crash
    pure (sqlShowView w2.db)
  | _, _ => none

end Chewing.Driver
