-- @component syl sylExpected
import Chewing.Model.Syllable
import Chewing.Driver.Util
/-! `syl …` records: the syllable codec (C13). -/
namespace Chewing.Driver
open Chewing

def p2bS (c len : Nat) : String :=
  let (ret, w) := phoneToBopomofo c len
  toString ret ++ " " ++ (match w with | some s => hxCps s | none => "-")

def errS : BuildErr → String
  | .multiple => "multiple"
  | .order => "order"
  | .invalid => "invalid"

/-- expected right-hand side of a `syl` record, `none` if the record is not understood -/
def sylExpected (fn : String) (args : List String) : Option String :=
  match fn, args with
  | "sym", [b] =>
    let b := natOf b
    some (unwords [toString (kindOf b), toString (charOf b), optS (bopoOfChar (charOf b))])
  | "chr", [c] => some (optS (bopoOfChar (natOf c)))
  | "code", [c] =>
    let c := natOf c
    if (tryFromU16 c).isNone then some (unwords ["err", p2bS c 16, p2bS c 0]) else
    let s := spell c
    let blen := (s.map utf8Len).foldl (· + ·) 0
    let (p, c') := pop c
    some (unwords [optS (initial c), optS (medial c), optS (rime c), optS (tone c), hxCps s,
      if isEmptySyl c then "1" else "0",
      toString (removeInitial c), toString (removeMedial c), toString (removeRime c), toString (removeTone c),
      optS p, toString c', p2bS c (blen + 1), p2bS c blen, p2bS c 0])
  | "update", [c] =>
    let c := natOf c
    some (unwords ((List.range nBopo).map fun b =>
      match update c b with
      | some v => toString v
      | none => "!"))
  | "parse", [s] =>
    some (match parse (cpsOfHx s) with
      | .ok v => "ok " ++ toString v
      | .error e => "err " ++ errS e)
  | "compose", [i, m, r, t] =>
    some (match compose (natOf i) (natOf m) (natOf r) (natOf t) with
      | .ok v => toString v
      | .error e => "err " ++ errS e)
  | "swmask", [p] =>
    let p := natOf p
    let mask := (List.range 16).foldl (fun acc j =>
      let q := p ^^^ (1 <<< j)
      if validCode q && startsWith q p then acc ||| (1 <<< j) else acc) 0
    some (toString mask)
  | "sw", [a, b] => some (if startsWith (natOf a) (natOf b) then "1" else "0")
  | _, _ => none

end Chewing.Driver
