-- @component sysl syslExpected
import Chewing.Model.SysLoader
import Chewing.Driver.Util
/-!
`sysl …` records (C12 creation clause, C17 locality of creation): the model of `Model/SysLoader.lean` recomputes what the
real `SystemDictionaryLoader`, the two text parsers and `chewing_new2` / `chewing_new` did over a generated tree.

    sysl load    <S> <search path>            => ok <id>,<id> | notfound | io
    sysl dropin  <S> <search path>            => <id>,<id>,… | -
    sysl abbrev  <S> <search path> <probes>   => ok <cp>=<x-hex|->,… | notfound | io
    sysl symbols <S> <search path>            => ok <ncat> (<x-name> <table|->)* <ntable> <x-symbols>* | notfound | io
    sysl parseabbrev <b-bytes> <probes>       => ok … | io
    sysl parsesym    <b-bytes>                => ok … | io
    sysl new2 <S> <E> <syspath> <userpath>    => null | ok <B,id,…|-> <x-category,…|->      (abort / hang never expected)

`<S>` = `S:` + `;`-joined `<x-path>=<node>`, node = `D<x-name>,…` (directory listing) or `F<ro><b-bytes>` (file; a trie
file is `[accept, id]` with accept = what the real `Trie::open` said, a user dictionary `[accept]`).  `<E>` = `E:` +
`CHEWING_PATH,CHEWING_USER_PATH,XDG_DATA_HOME,HOME` (`-` = unset).  A path argument is `-` (NULL), `N` (not UTF-8) or
`x<hex>`.  The temp dir is written `/R`.
-/
namespace Chewing.Driver
open Chewing Chewing.SysLoader

namespace SysL

def pathOfHx (s : String) : Path := (cpsOfHx s).map Char.ofNat

def nodeOf (s : String) : Node :=
  match s.toList with
  | 'D' :: rest => .dir (((String.ofList rest).splitOn ",").filter (· ≠ "") |>.map pathOfHx)
  | 'F' :: ro :: rest => .file (unhex (String.ofList rest)) (ro == '1')
  | _ => .absent

def fsOf (tok : String) : FS :=
  let ents := ((String.ofList (tok.toList.drop 2)).splitOn ";").filterMap fun e =>
    match e.splitOn "=" with
    | [p, n] => some (pathOfHx p, nodeOf n)
    | _ => none
  fun p => (ents.lookup p).getD .absent

def optPath (s : String) : Option Path := if s == "-" then none else some (pathOfHx s)

def envOf (tok : String) : SysLoader.Env :=
  match (String.ofList (tok.toList.drop 2)).splitOn "," with
  | [a, b, c, d] => { chewingPath := optPath a, chewingUserPath := optPath b, xdgDataHome := optPath c, homeDir := optPath d }
  | _ => {}

def argOf (s : String) : PathArg := if s == "-" then .null else if s == "N" then .notUtf8 else .str (pathOfHx s)

/-- `Trie::open` of the transcript: `[1, id]` opens as dictionary `id` -/
def openTrie (b : List Nat) : Option Nat :=
  match b with
  | 1 :: k :: _ => some k
  | _ => none

def builtinId : Nat := 1000000

def openDat (b : List Nat) : Option Loader.UMap := if b == [1] then some [] else none

/-- the harness is built without the `sqlite` feature -/
def params : Params Nat Loader.UMap :=
  { openTrie := openTrie, builtin := some builtinId,
    user := { memory := [], file := userFileStd false openDat (fun _ => none) (fun _ _ => none) } }

def idsS (l : List Nat) : String := if l.isEmpty then "-" else ",".intercalate (l.map toString)

def errS : LoadErr → String
  | .notFound => "notfound"
  | .io => "io"

def abbrevS (t : AbbrevTable) (probes : String) : String :=
  "ok " ++ ",".intercalate ((probes.splitOn ",").map fun p =>
    p ++ "=" ++ (match t.find (natOf p) with
      | some e => hxCps e
      | none => "-"))

def symS (y : SymSel) : String :=
  unwords (["ok", toString y.category.length] ++ y.category.flatMap (fun c => [hxCps c.1, optS c.2]) ++
    [toString y.table.length] ++ y.table.map hxCps)

def insertNat (x : Nat) : List Nat → List Nat
  | [] => [x]
  | y :: ys => if x < y then x :: y :: ys else if x == y then y :: ys else y :: insertNat x ys

def sortDedup (l : List Nat) : List Nat := l.foldr insertNat []

def new2S (c : NewCtx Nat Loader.UMap) : String :=
  let ids := sortDedup c.sysDicts
  let toks := ids.map fun k => if k == builtinId then "B" else toString k
  -- `B` sorts last numerically; the harness prints it first
  let toks := (toks.filter (· == "B")) ++ toks.filter (· != "B")
  let menu := c.symbols.category.map (fun x => hxCps x.1)
  "ok " ++ (if toks.isEmpty then "-" else ",".intercalate toks) ++ " " ++ (if menu.isEmpty then "-" else ",".intercalate menu)

end SysL

open SysL in
def syslExpected (fn : String) (args : List String) : Option String :=
  match fn, args with
  | "load", [s, sp] =>
    some (match loadSys openTrie (fsOf s) (pathOfHx sp) with
      | .ok ds => "ok " ++ idsS ds
      | .error e => errS e)
  | "dropin", [s, sp] => some (idsS (loadDropIn openTrie (fsOf s) (pathOfHx sp)))
  | "abbrev", [s, sp, probes] =>
    some (match loadAbbrev (fsOf s) (pathOfHx sp) with
      | .ok t => abbrevS t probes
      | .error e => errS e)
  | "symbols", [s, sp] =>
    some (match loadSymbols (fsOf s) (pathOfHx sp) with
      | .ok y => symS y
      | .error e => errS e)
  | "parseabbrev", [b, probes] =>
    some (match parseAbbrev (unhex b) with
      | some t => abbrevS t probes
      | none => "io")
  | "parsesym", [b] =>
    some (match parseSymbols (unhex b) with
      | some y => symS y
      | none => "io")
  | "new2", [s, e, sys, user] =>
    some (match newContext params (fsOf s) (envOf e) (argOf sys) (argOf user) with
      | .ok (some c) => new2S c
      | .ok none => "null"
      | .panic _ => "abort"
      | .outOfFuel => "hang")
  | _, _ => none

end Chewing.Driver
