/-! Line-protocol helpers shared by the driver modules (core only, so the driver links). -/
namespace Chewing.Driver

def hexDigit (n : Nat) : Char :=
  if n < 10 then Char.ofNat (48 + n) else Char.ofNat (87 + n)

def hexVal (c : Char) : Nat :=
  let n := c.toNat
  if 48 ≤ n ∧ n ≤ 57 then n - 48 else if 97 ≤ n ∧ n ≤ 102 then n - 87 else if 65 ≤ n ∧ n ≤ 70 then n - 55 else 0

/-- bytes of `x<hex>` / `b<hex>` -/
def unhex (s : String) : List Nat :=
  go (s.toList.drop 1)
where
  go : List Char → List Nat
    | a :: b :: rest => (hexVal a * 16 + hexVal b) :: go rest
    | _ => []

def hexBytes (tag : Char) (bs : List Nat) : String :=
  String.ofList (tag :: bs.flatMap (fun b => [hexDigit (b / 16), hexDigit (b % 16)]))

/-- UTF-8 encoding of one code point -/
def utf8 (cp : Nat) : List Nat :=
  if cp < 0x80 then [cp]
  else if cp < 0x800 then [0xC0 + cp / 64, 0x80 + cp % 64]
  else if cp < 0x10000 then [0xE0 + cp / 4096, 0x80 + (cp / 64) % 64, 0x80 + cp % 64]
  else [0xF0 + cp / 262144, 0x80 + (cp / 4096) % 64, 0x80 + (cp / 64) % 64, 0x80 + cp % 64]

/-- UTF-8 decoding (valid input assumed; malformed bytes become U+FFFD one by one) -/
partial def utf8Decode : List Nat → List Nat
  | [] => []
  | b :: rest =>
    if b < 0x80 then b :: utf8Decode rest
    else if b < 0xC0 then 0xFFFD :: utf8Decode rest
    else if b < 0xE0 then
      match rest with
      | c :: r => ((b - 0xC0) * 64 + (c - 0x80)) :: utf8Decode r
      | _ => [0xFFFD]
    else if b < 0xF0 then
      match rest with
      | c :: d :: r => ((b - 0xE0) * 4096 + (c - 0x80) * 64 + (d - 0x80)) :: utf8Decode r
      | _ => [0xFFFD]
    else
      match rest with
      | c :: d :: e :: r => ((b - 0xF0) * 262144 + (c - 0x80) * 4096 + (d - 0x80) * 64 + (e - 0x80)) :: utf8Decode r
      | _ => [0xFFFD]

/-- `x<hex>` of a list of code points -/
def hxCps (cps : List Nat) : String := hexBytes 'x' (cps.flatMap utf8)

/-- code points of an `x<hex>` token -/
def cpsOfHx (s : String) : List Nat := utf8Decode (unhex s)

def optS (o : Option Nat) : String :=
  match o with
  | some v => toString v
  | none => "-"

def natOf (s : String) : Nat := s.toNat?.getD 0

def intOf (s : String) : Int := s.toInt?.getD 0

def unwords (xs : List String) : String := " ".intercalate xs

end Chewing.Driver
