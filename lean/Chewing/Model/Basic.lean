/-!
Shared basic types of the model (core Lean only).

* a syllable is its 16-bit code (`Nat`), see `Model/Syllable.lean`;
* a character is its Unicode code point (`Nat`); text is `List Nat` of code points;
* `Outcome α` makes Rust panics / aborts and exhausted fuel *values* of the model.
-/
namespace Chewing

/-- result of a modelled Rust call: a value, a panic at a named site, or a fuel-bounded loop that
    did not finish -/
inductive Outcome (α : Type) where
  | ok (a : α)
  | panic (site : String)
  | outOfFuel
deriving Repr, DecidableEq, BEq

namespace Outcome

def bind {α β : Type} (x : Outcome α) (f : α → Outcome β) : Outcome β :=
  match x with
  | .ok a => f a
  | .panic s => .panic s
  | .outOfFuel => .outOfFuel

def map {α β : Type} (f : α → β) (x : Outcome α) : Outcome β :=
  match x with
  | .ok a => .ok (f a)
  | .panic s => .panic s
  | .outOfFuel => .outOfFuel

def isOk {α : Type} : Outcome α → Bool
  | .ok _ => true
  | _ => false

instance : Monad Outcome where
  pure := .ok
  bind := bind

end Outcome

/-- text = list of code points -/
abbrev Text := List Nat

end Chewing
