import Chewing.Model.CApiOps
import Chewing.Model.CStr
import Chewing.Model.Config
import Chewing.Gen.CApi
import Chewing.Gen.CApiGetters
/-!
Model of the C GETTERS of `capi/src/io.rs` (work package capiget; C17 / C06 / C07 / C05 / C02):
`chewing_buffer_Check/Len/String(_static)`, `chewing_cursor_Current`, `chewing_bopomofo_Check/String(_static)`,
`chewing_commit_Check/String(_static)`, `chewing_aux_Check/Length/String(_static)`,
`chewing_cand_TotalPage/TotalChoice/ChoicePerPage/CurrentPage/CheckDone`, the candidate enumeration
(`chewing_cand_Enumerate/hasNext/String(_static)`, `chewing_cand_string_by_index(_static)`),
`chewing_cand_list_has_next/has_prev`, `chewing_interval_Enumerate/hasNext/Get`,
`chewing_keystroke_CheckIgnore/CheckAbsorb`, the deprecated `chewing_zuin_Check/String`, `chewing_get_phoneSeq(Len)`, and the
legacy mode getters `chewing_get_ChiEngMode/ShapeMode/…`
(through `Model/Config.lean`: `Config.legacyGet`).

Three layers, like the call glue of `Model/CApiOps.lean`:

* `GFacts` — what the getters READ: the answers of the Rust `Editor` getters (`display()`, `len()`, `cursor()`,
  `display_commit()`, `notification()`, `syllable_buffer_display()`, `all_candidates()`, …).  `GFacts.ofEditor env bopo e`
  computes them from the editor MODEL exactly as `src/editor/mod.rs` does (`display` and `intervals` go through the
  conversion of `env`, the candidate list through the selector and the dictionary); the phonetic buffer's text
  (`syllable_buffer_display`) is the parameter `bopo : L → Text` (the layout is abstract in the editor model).
* `getValue : GFacts → row → GVal` — the getter proper: it INTERPRETS the table `Gen.CApiGetters.getterTable`, which the
  translator (`tools/extractors/capi_getters.py`, fail closed) regenerates from `capi/src/io.rs` on every run: the
  editor method read, the conversion (`as c_int`, `!… as c_int`, `!….is_empty() as c_int`, `.chars().count() as c_int`,
  `.unwrap_or_default() as c_int`, `Ok(v) => v.len(), Err(_) => 0`, `if … { FALSE } else { TRUE }`,
  `if !is_selecting() { return 0 }`, `EditorKeyBehavior::<V> => TRUE, _ => FALSE`, `CString::new(…)` handed out as an
  owned pointer (NULL on an interior NUL / `.unwrap()`), `copy_cstr(&mut ctx.<buf>, …)`) and the NULL-context answer.
* `GCtx.get env bopo : GCtx → Getter → Outcome (GCtx × GVal)` — one getter CALL on a context.  `GCtx` = the context of
  the call-glue model (`CCtx`) plus what ONLY getters write: the five fixed text buffers of `struct ChewingContext`
  that the `_static` variants fill, and the two iterator slots `cand_iter` / `interval_iter` of the enumeration
  protocol.  No getter writes `CCtx` (`Chewing.C17CApi.get_keeps_ctx`); the plain getters do not even read the slots.

A NULL context is `GCtx.getPtr` (`none`): `ERROR` / `FALSE` / an owned empty string / the global empty string, as the
table says; the `void` enumerators do nothing.

`usize as c_int` is a truncation to 32 bits (`asCInt`); strings are UTF-8 byte lists (`Model/CStr.lean`); a heap string
is its bytes plus the NUL (`heapCstr`, `none` = NULL pointer), a `_static` answer is the WHOLE context buffer after
`copy_cstr` (`copyCstr cap`), whose C text is `cText`.
-/
namespace Chewing
open Gen Gen.CApiKeys Gen.CApiGetters

namespace CApi

/-- `usize as c_int`: the low 32 bits as a two's-complement number -/
def asCInt (n : Nat) : Int :=
  if n % 4294967296 < 2147483648 then ((n % 4294967296 : Nat) : Int) else ((n % 4294967296 : Nat) : Int) - 4294967296

/-- `bool as c_int` -/
def boolInt (b : Bool) : Int := if b then 1 else 0

/-- the answers of the Rust `Editor` getters the C getters read -/
structure GFacts where
  /-- `display()` -/
  display : Text
  /-- `len()` -/
  len : Nat
  /-- `is_empty()` -/
  isEmpty : Bool
  /-- `cursor()` -/
  cursor : Nat
  /-- `display_commit()` -/
  commit : Text
  /-- `notification()` -/
  notice : Text
  /-- `syllable_buffer_display()` -/
  bopo : Text
  /-- `entering_syllable()` -/
  enteringSyllable : Bool
  /-- `is_selecting()` -/
  isSelecting : Bool
  /-- `all_candidates()` (`none` = `Err`) -/
  allCandidates : Option (List Text)
  /-- `paginated_candidates()` -/
  paginated : Option (List Text)
  /-- `total_page()` -/
  totalPage : Option Nat
  /-- `current_page_no()` -/
  currentPageNo : Option Nat
  /-- `has_next_selection_point()` / `has_prev_selection_point()` -/
  hasNextSel : Bool
  hasPrevSel : Bool
  /-- `intervals()`: (start, end, is_phrase) -/
  intervals : List (Nat × Nat × Bool)
  /-- `last_key_behavior()` -/
  last : KB
  /-- `editor_options()`, in the encoding of `Model/Config.lean` -/
  options : Config.Options
  /-- `symbols()` filtered to the syllables, each `to_u16()` -/
  phoneSeq : List Nat := []

/-! ### the value a getter hands out -/

inductive GVal where
  | int (i : Int)
  /-- an owned C string (`CString::into_raw`, registered for `chewing_free`): its bytes incl. the NUL; `none` = NULL -/
  | heap (p : Option (List Nat))
  /-- a pointer to the start of a context buffer, with the buffer's contents after the call -/
  | static (buf : List Nat)
  /-- `global_empty_cstr()` -/
  | globalEmpty
  /-- what `chewing_interval_Get` stores through `it` (`none`: `*it` is not written) -/
  | ival (v : Option (Int × Int))
  /-- `chewing_zuin_String`: the owned string and the value stored through `zuin_count` -/
  | strCount (p : Option (List Nat)) (count : Int)
  /-- `chewing_get_phoneSeq`: an owned `u16` slice -/
  | ushorts (v : List Nat)
  /-- a `void` function -/
  | unit
deriving Repr, DecidableEq, Inhabited

/-- the C string a reader sees behind the returned pointer (`none`: NULL pointer, no NUL, or not a string) -/
def GVal.text : GVal → Option (List Nat)
  | .heap (some b) => CStr.cText b
  | .static b => CStr.cText b
  | .globalEmpty => some []
  | _ => none

/-- the `int` returned (`none`: not an `int` getter) -/
def GVal.toInt : GVal → Option Int
  | .int i => some i
  | _ => none

/-! ### the table interpreter -/

def factBool (f : GFacts) (m : String) : Option Bool :=
  if m == "is_empty" then some f.isEmpty
  else if m == "entering_syllable" then some f.enteringSyllable
  else if m == "is_selecting" then some f.isSelecting
  else if m == "has_next_selection_point" then some f.hasNextSel
  else if m == "has_prev_selection_point" then some f.hasPrevSel
  else none

def factNat (f : GFacts) (m : String) : Option Nat :=
  if m == "len" then some f.len
  else if m == "cursor" then some f.cursor
  else if m == "candidates_per_page" then some f.options.candidatesPerPage
  else none

def factOptNat (f : GFacts) (m : String) : Option (Option Nat) :=
  if m == "total_page" then some f.totalPage
  else if m == "current_page_no" then some f.currentPageNo
  else none

def factText (f : GFacts) (m : String) : Option Text :=
  if m == "display" then some f.display
  else if m == "display_commit" then some f.commit
  else if m == "notification" then some f.notice
  else if m == "syllable_buffer_display" then some f.bopo
  else none

/-- capacity of a fixed buffer of `struct ChewingContext` (generated table of the C15 extractor) -/
def bufCap (field : String) : Nat := ((Gen.CApi.ctxBuffers.find? (fun p => p.1 == field)).map (·.2)).getD 0

/-- the `int` a row computes from the facts (`none`: the model cannot read the row) -/
def intValue (f : GFacts) (m conv arg : String) : Option Int :=
  if conv == "as_c_int" then
    match factNat f m with
    | some n => some (asCInt n)
    | none => (factBool f m).map boolInt
  else if conv == "not_as_c_int" then (factBool f m).map fun b => boolInt (!b)
  else if conv == "not_is_empty" then (factText f m).map fun t => boolInt (!t.isEmpty)
  else if conv == "chars_count" then (factText f m).map fun t => asCInt t.length
  else if conv == "unwrap_or_default" then (factOptNat f m).map fun o => asCInt (o.getD 0)
  else if conv == "len_or_0" then
    (if m == "all_candidates" then some (match f.allCandidates with | some cs => asCInt cs.length | none => 0) else none)
  else if conv == "false_if" then (factBool f m).map fun b => if b then falseValue else trueValue
  else if conv == "selecting_as_c_int" then (factBool f m).map fun b => if !f.isSelecting then 0 else boolInt b
  else if conv == "is" then
    (if m == "last_key_behavior" then (kbOfVariant arg).map fun v => if f.last = v then trueValue else falseValue else none)
  else none

/-- the value of a plain getter on a non-NULL context, and the context buffer it writes (field, new contents) -/
def getValue (f : GFacts) (m conv arg : String) : Outcome (GVal × Option (String × List Nat)) :=
  if conv == "heap_or_null" then
    match factText f m with
    | some t => .ok (.heap (CStr.heapCstr (CStr.utf8Encode t)), none)
    | none => .panic "unreadable getter row"
  else if conv == "heap_unwrap" then
    match factText f m with
    | some t =>
      match CStr.heapCstr (CStr.utf8Encode t) with
      | some b => .ok (.heap (some b), none)
      | none => .panic "CString::new unwrap"
    | none => .panic "unreadable getter row"
  else if conv == "static" then
    match factText f m with
    | some t =>
      let buf := CStr.copyCstr (bufCap arg) (CStr.utf8Encode t)
      if bufCap arg == 0 then .panic "unknown context buffer" else .ok (.static buf, some (arg, buf))
    | none => .panic "unreadable getter row"
  else
    match intValue f m conv arg with
    | some i => .ok (.int i, none)
    | none => .panic "unreadable getter row"

/-- the answer for a NULL context -/
def nullValue (n : String) : Outcome GVal :=
  if n == "ERROR" then .ok (.int errorValue)
  else if n == "FALSE" then .ok (.int falseValue)
  else if n == "empty_heap" then .ok (.heap (some [0]))
  else if n == "global_empty" then .ok .globalEmpty
  else .panic "unreadable getter row"

def getterRow (fn : String) : Option (String × String × String × String) :=
  (getterTable.find? (·.1 == fn)).map (·.2)

/-- the modelled getter calls -/
inductive Getter where
  /-- a plain getter: a row of `Gen.CApiGetters.getterTable`, by its C name -/
  | plain (fn : String)
  /-- a legacy mode getter `chewing_get_<X>`: a row of `Gen.Cfg.legacyGetters` -/
  | mode (fn : String)
  | candEnumerate | candHasNext | candString | candStringStatic
  | candStringByIndex (i : Int) | candStringByIndexStatic (i : Int)
  | intervalEnumerate | intervalHasNext | intervalGet
  /-- the deprecated `chewing_zuin_Check` (= `chewing_bopomofo_Check(ctx) ^ 1`) / `chewing_zuin_String(ctx, &count)` -/
  | zuinCheck | zuinString
  | phoneSeq | phoneSeqLen
deriving Repr, DecidableEq, Inhabited

/-- the C function a getter call stands for -/
def Getter.fnName : Getter → String
  | .plain fn => fn
  | .mode fn => fn
  | .candEnumerate => "chewing_cand_Enumerate"
  | .candHasNext => "chewing_cand_hasNext"
  | .candString => "chewing_cand_String"
  | .candStringStatic => "chewing_cand_String_static"
  | .candStringByIndex _ => "chewing_cand_string_by_index"
  | .candStringByIndexStatic _ => "chewing_cand_string_by_index_static"
  | .intervalEnumerate => "chewing_interval_Enumerate"
  | .intervalHasNext => "chewing_interval_hasNext"
  | .intervalGet => "chewing_interval_Get"
  | .zuinCheck => "chewing_zuin_Check"
  | .zuinString => "chewing_zuin_String"
  | .phoneSeq => "chewing_get_phoneSeq"
  | .phoneSeqLen => "chewing_get_phoneSeqLen"

/-- what only getters write: the fixed text buffers and the two iterator slots -/
structure GSlots where
  /-- contents of the context buffers written so far, by field name (a field not listed is still all zero) -/
  bufs : List (String × List Nat) := []
  /-- `cand_iter`: the strings not yet handed out -/
  candIter : Option (List Text) := none
  /-- `interval_iter`: the (from, to) pairs not yet handed out -/
  intervalIter : Option (List (Nat × Nat)) := none
deriving Repr, DecidableEq, Inhabited

def GSlots.setBuf (s : GSlots) (w : Option (String × List Nat)) : GSlots :=
  match w with
  | some (field, buf) => { s with bufs := (field, buf) :: s.bufs.filter (fun p => p.1 != field) }
  | none => s

/-- `x ^ 1` on a C `int` (two's complement): the lowest bit flipped -/
def xor1 (i : Int) : Int := if i % 2 == 0 then i + 1 else i - 1

/-- the empty owned string `CString::default().into_raw()` -/
def emptyHeap : GVal := .heap (some [0])

/-- `CString::new(phrase)` of a candidate: `Err` (interior NUL) gives the empty owned string (`chewing_cand_String`) -/
def candHeap (t : Text) : GVal :=
  match CStr.heapCstr (CStr.utf8Encode t) with
  | some b => .heap (some b)
  | none => emptyHeap

/-- **one getter call on the facts and the slots**: the new slots and the value.  The enumeration protocol, as the
    reviewed bodies (`Gen.CApiGetters.enumShapes`) read:
    `chewing_cand_Enumerate` stores `paginated_candidates()` in `cand_iter` — and leaves the slot AS IT IS when no list
    is open (`if let Ok(..)`); `chewing_cand_hasNext` answers 0 outside Selecting, else whether the slot has a next
    item; `chewing_cand_String(_static)` pops the slot (no state check; "" when exhausted or never enumerated);
    `chewing_cand_string_by_index(_static)` reads `all_candidates()[index as usize]` ("" beyond);
    `chewing_interval_Enumerate` stores the PHRASE intervals; `chewing_interval_hasNext` peeks; `chewing_interval_Get`
    pops and stores `start as i32`, `end as i32` (nothing when exhausted).
    The deprecated `chewing_zuin_Check` is `chewing_bopomofo_Check(ctx) ^ 1` (hence -2 for a NULL context),
    `chewing_zuin_String(ctx, &count)` is `chewing_bopomofo_String` plus the number of CHARACTERS stored through `count`
    (a NULL `count` is dereferenced: C15's subject, not modelled); `chewing_get_phoneSeq(Len)` hand out the syllables of
    the pre-edit buffer as `u16` (an owned slice) / their number. -/
def getOn (f : GFacts) (s : GSlots) : Getter → Outcome (GSlots × GVal)
  | .plain fn =>
    match getterRow fn with
    | none => .panic ("no table row for " ++ fn)
    | some (m, conv, arg, _) => (getValue f m conv arg).map fun r => (s.setBuf r.2, r.1)
  | .mode fn =>
    .ok (s, .int (Config.legacyGet fn { Config.init with opts := f.options }))
  | .candEnumerate =>
    match f.paginated with
    | some cs => .ok ({ s with candIter := some cs }, .unit)
    | none => .ok (s, .unit)
  | .candHasNext =>
    if !f.isSelecting then .ok (s, .int falseValue)
    else match s.candIter with
      | some (_ :: _) => .ok (s, .int 1)
      | _ => .ok (s, .int 0)
  | .candString =>
    match s.candIter with
    | some (t :: rest) => .ok ({ s with candIter := some rest }, candHeap t)
    | _ => .ok (s, emptyHeap)
  | .candStringStatic =>
    match s.candIter with
    | some (t :: rest) =>
      let buf := CStr.copyCstr (bufCap "cand_buf") (CStr.utf8Encode t)
      .ok (({ s with candIter := some rest } : GSlots).setBuf (some ("cand_buf", buf)), .static buf)
    | _ => .ok (s, .globalEmpty)
  | .candStringByIndex i =>
    match (f.allCandidates.getD [])[indexOfInt i]? with
    | some t =>
      match CStr.heapCstr (CStr.utf8Encode t) with
      | some b => .ok (s, .heap (some b))
      | none => .panic "CString::new unwrap"
    | none => .ok (s, emptyHeap)
  | .candStringByIndexStatic i =>
    match (f.allCandidates.getD [])[indexOfInt i]? with
    | some t =>
      let buf := CStr.copyCstr (bufCap "cand_buf") (CStr.utf8Encode t)
      .ok (s.setBuf (some ("cand_buf", buf)), .static buf)
    | none => .ok (s, .globalEmpty)
  | .intervalEnumerate =>
    .ok ({ s with intervalIter := some ((f.intervals.filter (·.2.2)).map fun iv => (iv.1, iv.2.1)) }, .unit)
  | .intervalHasNext =>
    match s.intervalIter with
    | some (_ :: _) => .ok (s, .int trueValue)
    | _ => .ok (s, .int falseValue)
  | .intervalGet =>
    match s.intervalIter with
    | some (iv :: rest) => .ok ({ s with intervalIter := some rest }, .ival (some (asCInt iv.1, asCInt iv.2)))
    | _ => .ok (s, .ival none)
  | .zuinCheck => .ok (s, .int (xor1 (boolInt f.enteringSyllable)))
  | .zuinString => .ok (s, .strCount (CStr.heapCstr (CStr.utf8Encode f.bopo)) (asCInt f.bopo.length))
  | .phoneSeq => .ok (s, .ushorts f.phoneSeq)
  | .phoneSeqLen => .ok (s, .int (asCInt f.phoneSeq.length))

/-- the answer of a getter call for a NULL context -/
def getNull : Getter → Outcome GVal
  | .plain fn =>
    match getterRow fn with
    | none => .panic ("no table row for " ++ fn)
    | some (_, _, _, n) => nullValue n
  | .mode _ => .ok (.int Config.ERROR)
  | .candEnumerate => .ok .unit
  | .candHasNext => .ok (.int errorValue)
  | .candString => .ok emptyHeap
  | .candStringStatic => .ok .globalEmpty
  | .candStringByIndex _ => .ok emptyHeap
  | .candStringByIndexStatic _ => .ok .globalEmpty
  | .intervalEnumerate => .ok .unit
  | .intervalHasNext => .ok (.int errorValue)
  | .intervalGet => .ok (.ival none)
  | .zuinCheck => .ok (.int (xor1 errorValue))
  | .zuinString => .ok emptyHeap
  | .phoneSeq => .ok (.heap none)
  | .phoneSeqLen => .ok (.int errorValue)

/-- the documented loop `Enumerate; while hasNext { String }` run on the slots: the strings handed out (fuel = an
    upper bound of the number of rounds) -/
def candLoop (f : GFacts) : Nat → GSlots → List GVal → Outcome (GSlots × List GVal)
  | 0, s, acc => .ok (s, acc.reverse)
  | n + 1, s, acc =>
    match getOn f s .candHasNext with
    | .ok (s1, .int 1) =>
      match getOn f s1 .candString with
      | .ok (s2, v) => candLoop f n s2 (v :: acc)
      | .panic p => .panic p
      | .outOfFuel => .outOfFuel
    | .ok (s1, _) => .ok (s1, acc.reverse)
    | .panic p => .panic p
    | .outOfFuel => .outOfFuel

/-- the documented loop `interval_Enumerate; while interval_hasNext { interval_Get }` -/
def intervalLoop (f : GFacts) : Nat → GSlots → List GVal → Outcome (GSlots × List GVal)
  | 0, s, acc => .ok (s, acc.reverse)
  | n + 1, s, acc =>
    match getOn f s .intervalHasNext with
    | .ok (s1, .int 1) =>
      match getOn f s1 .intervalGet with
      | .ok (s2, v) => intervalLoop f n s2 (v :: acc)
      | .panic p => .panic p
      | .outOfFuel => .outOfFuel
    | .ok (s1, _) => .ok (s1, acc.reverse)
    | .panic p => .panic p
    | .outOfFuel => .outOfFuel

end CApi

open CApi

/-! ### the facts of an editor of the model -/

section
variable {D L : Type} (env : Env D L) (bopo : L → Text)

/-- `Editor::has_next_selection_point` -/
def Editor.hasNextSelectionPoint (e : Editor D L) : Outcome Bool :=
  match e.state with
  | .selecting s =>
    match s.sel with
    | .phrase p => (PhraseSel.nextSelectionPoint env p e.shared.dict).map (·.isSome)
    | _ => .ok false
  | _ => .ok false

/-- `Editor::has_prev_selection_point` -/
def Editor.hasPrevSelectionPoint (e : Editor D L) : Outcome Bool :=
  match e.state with
  | .selecting s =>
    match s.sel with
    | .phrase p => (PhraseSel.prevSelectionPoint env p e.shared.dict).map (·.isSome)
    | _ => .ok false
  | _ => .ok false

def boolNat (b : Bool) : Nat := if b then 1 else 0

/-- `EditorOptions` of the editor model in the encoding of `Model/Config.lean` (bool 0/1, enum = variant index in
    declaration order) -/
def cfgOfOptions (o : Options) : Config.Options :=
  { easySymbolInput := boolNat o.easySymbolInput, escClearAllBuffer := boolNat o.escClearAllBuffer,
    spaceIsSelectKey := boolNat o.spaceIsSelectKey, autoShiftCursor := boolNat o.autoShiftCursor,
    phraseChoiceRearward := boolNat o.phraseChoiceRearward, disableAutoLearnPhrase := boolNat o.disableAutoLearnPhrase,
    autoCommitThreshold := o.autoCommitThreshold, candidatesPerPage := o.candidatesPerPage,
    languageMode := (match o.languageMode with | .chinese => 0 | .english => 1),
    characterForm := (match o.characterForm with | .half => 0 | .full => 1),
    userPhraseAddDir := (match o.userPhraseAddDir with | .forward => 0 | .backward => 1),
    lookupStrategy := (match o.lookupStrategy with | .standard => 0 | .fuzzyPartialPrefix => 1),
    conversionEngine := (match o.conversionEngine with | .simple => 0 | .chewing => 1 | .fuzzy => 2),
    enableFullwidthToggleKey := boolNat o.enableFullwidthToggleKey }

/-- **the facts the getters read, computed from the editor model** (each field = the Rust getter of
    `src/editor/mod.rs` of that name; `display` / `intervals` = `SharedState::conversion()`) -/
def CApi.GFacts.ofEditor (e : Editor D L) : Outcome GFacts :=
  match Shared.conversion env e.shared, e.allCandidates env, e.paginatedCandidates env, e.totalPage env,
        e.hasNextSelectionPoint env, e.hasPrevSelectionPoint env with
  | .ok ivs, .ok all, .ok pag, .ok tp, .ok hn, .ok hp =>
    .ok { display := ivs.flatMap (·.text), len := e.shared.com.len, isEmpty := e.shared.com.isEmpty,
          cursor := e.shared.com.cursor, commit := e.shared.commitBuf, notice := e.shared.noticeBuf,
          bopo := bopo e.shared.syl, enteringSyllable := !env.sylIsEmpty e.shared.syl,
          isSelecting := e.isSelecting, allCandidates := all, paginated := pag, totalPage := tp,
          currentPageNo := e.currentPageNo, hasNextSel := hn, hasPrevSel := hp,
          intervals := ivs.map fun iv => (iv.start, iv.stop, iv.isPhrase), last := e.shared.last,
          options := cfgOfOptions e.shared.options,
          phoneSeq := e.shared.com.inner.symbols.filterMap fun | .syl k => some k | .chr _ => none }
  | .panic p, _, _, _, _, _ => .panic p
  | _, .panic p, _, _, _, _ => .panic p
  | _, _, .panic p, _, _, _ => .panic p
  | _, _, _, .panic p, _, _ => .panic p
  | _, _, _, _, .panic p, _ => .panic p
  | _, _, _, _, _, .panic p => .panic p
  | _, _, _, _, _, _ => .outOfFuel

/-- a context as the getters see it: the context of the call-glue model and the getter-only slots -/
structure GCtx (D L : Type) where
  ctx : CCtx D L
  slots : GSlots := {}

/-- **one getter call** on a non-NULL context: the new context and the value handed out.  Only `slots` can change. -/
def GCtx.get (g : GCtx D L) (q : Getter) : Outcome (GCtx D L × GVal) :=
  match GFacts.ofEditor env bopo g.ctx.editor with
  | .ok f => (getOn f g.slots q).map fun r => ({ g with slots := r.1 }, r.2)
  | .panic p => .panic p
  | .outOfFuel => .outOfFuel

/-- the context pointer may be NULL -/
def GCtx.getPtr (g : Option (GCtx D L)) (q : Getter) : Outcome (Option (GCtx D L) × GVal) :=
  match g with
  | none => (getNull q).map fun v => (none, v)
  | some g => (g.get env bopo q).map fun r => (some r.1, r.2)

/-- a modelled call (`Model/CApiOps.lean`) or a getter call -/
inductive GCall where
  | op (o : COp)
  | get (q : Getter)
deriving Repr, DecidableEq, Inhabited

/-- the result of a `GCall` -/
inductive GRes where
  | rc (r : Int)
  | val (v : GVal)
deriving Repr, DecidableEq, Inhabited

/-- one call of either kind.  A modelled call works on `ctx` exactly as `CCtx.apply`; the getter slots stay (the stored
    enumerations that `chewing_Reset` also drops are not modelled here: `Model/CApiOps.lean`, C15 / C17). -/
def GCtx.step (g : GCtx D L) : GCall → Outcome (GCtx D L × GRes)
  | .op o => (g.ctx.apply env o).map fun r => ({ g with ctx := r.1 }, .rc r.2)
  | .get q => (g.get env bopo q).map fun r => (r.1, .val r.2)

/-- a history of calls and getter calls: the final context and all results, in order -/
def GCtx.run (g : GCtx D L) : List GCall → Outcome (GCtx D L × List GRes)
  | [] => .ok (g, [])
  | c :: cs =>
    match g.step env bopo c with
    | .ok (g', r) =>
      match GCtx.run g' cs with
      | .ok (g'', rs) => .ok (g'', r :: rs)
      | .panic p => .panic p
      | .outOfFuel => .outOfFuel
    | .panic p => .panic p
    | .outOfFuel => .outOfFuel

/-! ### the named getters (values on a non-NULL context) -/

/-- the value of a plain getter, by its C name -/
def GCtx.value (g : GCtx D L) (fn : String) : Outcome GVal := (g.get env bopo (.plain fn)).map (·.2)

end

end Chewing
