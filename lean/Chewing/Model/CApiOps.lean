import Chewing.Model.Candidates
import Chewing.Model.Keyboard
import Chewing.Gen.CApiKeys
/-!
Model of the C call glue of `capi/src/io.rs`: how `chewing_handle_*`, `chewing_cand_open / _close /
_choose_by_index / _list_{first,last,next,prev}`, `chewing_commit_preedit_buf`, `chewing_clean_preedit_buf`,
`chewing_clean_bopomofo_buf`, `chewing_ack` and `chewing_Reset` turn a C call into ONE operation (or none) of the
Rust `Editor`, and what `int` they return.

Two layers:

* `translate : Facts → COp → Outcome Glue` — the glue proper.  `Facts` is what the glue reads from the context
  (`editor.is_selecting()`, `editor.is_entering()`, `sel_keys`, the keyboard); `Glue` is the editor call it makes
  (`EdCall`: a `KeyEvent` for `process_keyevent`, or an API method, or nothing) and the rule by which the return
  value follows from the `Result` of that call.  It INTERPRETS the tables of `Chewing.Gen.CApiKeys`, which the
  translator (`tools/extractors/capi_keys.py`) regenerates from `capi/src/io.rs` on every run: the per-handler
  table (key code, modifiers, map function), the selection-key remap of `chewing_handle_Default` ("XXX hack for
  selkey": only under `is_selecting()`, position → digit byte, `_ => b'0'`), the narrowing of the C `int`
  (`u8::try_from(key).unwrap_or(0)`), the digit table of `chewing_handle_CtrlNum` and its `_ => return -1`, and for
  the non-key calls guard / `Editor` method / argument conversion / return rule.  The key event is built by the
  keyboard model (`Model/Keyboard.lean`: `mapWithMod`, `mapAscii`, `mapAsciiNumlock` over the generated keyboard
  matrices); its `.expect("invalid keycode")` is `Outcome.panic`.
* `CCtx.apply env : CCtx → COp → Outcome (CCtx × Int)` — the glue composed with the editor model
  (`Editor.processKey`, `select`, `startSelecting`, `cancelSelecting`, `commit`, `clear`, `ack`,
  `clearSyllableEditor`, `jump`).

A NULL context: every modelled function starts with `as_mut_or_return!(ctx, ERROR)`; `CCtx.applyPtr` models the
pointer as an `Option` (`none` ↦ `Gen.CApiKeys.nullReturns`, nothing else happens).

Not modelled here: the stored enumeration iterators that `chewing_Reset` also drops (C15 / C17's subject), the
option setters and `chewing_set_KBType` / `chewing_set_selKey` (modelled by `Model/Config.lean`, C16), the
user-phrase calls.  The C getters that report the result of a key are `keystrokeCheckIgnore`, `keystrokeCheckAbsorb`,
`commitCheck` (there is no getter for *bell*: it is "none of the three").
-/
namespace Chewing
open Gen Gen.CApiKeys

namespace CApi

/-- the named handlers `chewing_handle_<name>(ctx)` -/
inductive Handler where
  | space | esc | enter | del | backspace | tab | shiftLeft | left | shiftRight | right | up | home | end_
  | pageUp | pageDown | down | capslock | shiftSpace | dblTab
deriving Repr, DecidableEq, Inhabited

/-- the name after `chewing_handle_` -/
def Handler.name : Handler → String
  | .space => "Space" | .esc => "Esc" | .enter => "Enter" | .del => "Del" | .backspace => "Backspace"
  | .tab => "Tab" | .shiftLeft => "ShiftLeft" | .left => "Left" | .shiftRight => "ShiftRight" | .right => "Right"
  | .up => "Up" | .home => "Home" | .end_ => "End" | .pageUp => "PageUp" | .pageDown => "PageDown"
  | .down => "Down" | .capslock => "Capslock" | .shiftSpace => "ShiftSpace" | .dblTab => "DblTab"

def Handler.all : List Handler :=
  [.space, .esc, .enter, .del, .backspace, .tab, .shiftLeft, .left, .shiftRight, .right, .up, .home, .end_,
   .pageUp, .pageDown, .down, .capslock, .shiftSpace, .dblTab]

/-- the modelled C calls (`k`, `i` are the C `int` arguments) -/
inductive COp where
  | named (h : Handler)
  | default (k : Int)
  | numlock (k : Int)
  | ctrlNum (k : Int)
  | candOpen | candClose
  | candChoose (i : Int)
  | candListFirst | candListLast | candListNext | candListPrev
  | commitPreedit | cleanPreedit | cleanBopomofo
  | ack | reset
deriving Repr, DecidableEq, Inhabited

/-- the C function an operation stands for -/
def COp.fnName : COp → String
  | .named h => "chewing_handle_" ++ h.name
  | .default _ => "chewing_handle_Default"
  | .numlock _ => "chewing_handle_Numlock"
  | .ctrlNum _ => "chewing_handle_CtrlNum"
  | .candOpen => "chewing_cand_open"
  | .candClose => "chewing_cand_close"
  | .candChoose _ => "chewing_cand_choose_by_index"
  | .candListFirst => "chewing_cand_list_first"
  | .candListLast => "chewing_cand_list_last"
  | .candListNext => "chewing_cand_list_next"
  | .candListPrev => "chewing_cand_list_prev"
  | .commitPreedit => "chewing_commit_preedit_buf"
  | .cleanPreedit => "chewing_clean_preedit_buf"
  | .cleanBopomofo => "chewing_clean_bopomofo_buf"
  | .ack => "chewing_ack"
  | .reset => "chewing_Reset"

/-- what the glue reads from the context before it calls the editor -/
structure Facts where
  /-- `ctx.editor.is_selecting()` -/
  isSelecting : Bool
  /-- `ctx.editor.is_entering()` -/
  isEntering : Bool
  /-- `ctx.sel_keys.0` -/
  selKeys : List Int
  /-- `ctx.keyboard`, by its name in `Model/Keyboard.lean` -/
  kb : String
deriving Repr, DecidableEq

/-- the ONE call the glue makes on `ctx.editor` (or none) -/
inductive EdCall where
  | none
  | key (ev : KeyEvent)
  | select (n : Nat)
  | startSelecting | cancelSelecting | commit | clear | ack | clearSyl
  /-- `jump_to_{first,last,next,prev}_selection_point` = 0, 1, 2, 3 -/
  | jump (which : Nat)
deriving Repr, DecidableEq, Inhabited

/-- how the C return value follows from the `Result` of the editor call -/
inductive RcRule where
  /-- the result is discarded (or there is no call): always this value -/
  | const (r : Int)
  /-- `Ok(_) => OK, Err(_) => ERROR` -/
  | result
  /-- `Ok(_) => OK, Err(_) => OK` -/
  | neverFails
deriving Repr, DecidableEq, Inhabited

def RcRule.rc : RcRule → Bool → Int
  | .const r, _ => r
  | .result, true => okValue
  | .result, false => errorValue
  | .neverFails, _ => okValue

structure Glue where
  call : EdCall
  rule : RcRule
deriving Repr, DecidableEq, Inhabited

/-! ### key events -/

/-- the keyboard model's event (`Modifiers` as a bit set) as the editor model's `KeyEvent` -/
def ofKeyEv (k : KeyEv) : KeyEvent :=
  { index := k.index, code := k.code, unicode := k.unicode,
    mods := { shift := modShift k.mods, ctrl := modCtrl k.mods, capslock := modCaps k.mods, numlock := modNumlock k.mods } }

/-- narrowing of the C `int` to `u8`: mode 0 = `u8::try_from(key).unwrap_or(0)`, mode 1 = `key as u8` -/
def narrow (mode : Nat) (k : Int) : Nat :=
  if mode == 1 then (k % 256).toNat
  else if 0 ≤ k ∧ k ≤ 255 then k.toNat else 0

def lookupNat (a : Nat) : List (Nat × Nat) → Option Nat
  | [] => none
  | (k, b) :: es => if a == k then some b else lookupNat a es

/-- the "XXX hack for selkey" of `chewing_handle_Default`: (only) while a candidate list is open, a key that is the
    `i`-th configured selection key becomes the digit byte of position `i` (`_ => b'0'`) -/
def remapSelKey (f : Facts) (k : Int) : Int :=
  if selKeyRemapGuarded && !f.isSelecting then k
  else match f.selKeys.findIdx? (· == k) with
    | some i => (((lookupNat i selKeyRemap).getD selKeyRemapElse : Nat) : Int)
    | none => k

/-- a mapped key is handed to `process_keyevent`, the handler returns `OK`; `none` = `.expect("invalid keycode")` -/
def keyGlue : Option KeyEv → Outcome Glue
  | some ev => .ok { call := .key (ofKeyEv ev), rule := .const okValue }
  | none => .panic "invalid keycode"

def handlerRow (name : String) : Option (Nat × Nat × Nat) :=
  (handlerTable.find? (·.1 == name)).map (·.2)

/-! ### the non-key calls -/

def apiRow (fn : String) : Option (String × String × String × String) :=
  (apiCalls.find? (·.1 == fn)).map (·.2)

def guardHolds (f : Facts) (g : String) : Option Bool :=
  if g == "" then some true
  else if g == "is_selecting" then some f.isSelecting
  else if g == "is_entering" then some f.isEntering
  else none

/-- the `Editor` method named in the table, with the C argument converted as the table says -/
def methodCall (method conv : String) (arg : Int) : Option EdCall :=
  if method == "select" then (if conv == "as_usize" then some (.select (CApi.indexOfInt arg)) else none)
  else if conv != "" then none
  else if method == "clear" then some .clear
  else if method == "ack" then some .ack
  else if method == "start_selecting" then some .startSelecting
  else if method == "cancel_selecting" then some .cancelSelecting
  else if method == "commit" then some .commit
  else if method == "clear_syllable_editor" then some .clearSyl
  else if method == "jump_to_first_selection_point" then some (.jump 0)
  else if method == "jump_to_last_selection_point" then some (.jump 1)
  else if method == "jump_to_next_selection_point" then some (.jump 2)
  else if method == "jump_to_prev_selection_point" then some (.jump 3)
  else none

def ruleOf (r : String) : Option RcRule :=
  if r == "ok" then some (.const okValue)
  else if r == "result" then some .result
  else if r == "never_fails" then some .neverFails
  else none

/-- a non-key call, read off its row of `Gen.CApiKeys.apiCalls`; a false guard returns -1 before the editor is
    touched.  A row the model cannot read is `panic` (never the case for the generated table:
    `Chewing.C06CApi.api_rows_readable`). -/
def apiGlue (f : Facts) (fn : String) (arg : Int) : Outcome Glue :=
  match apiRow fn with
  | none => .panic ("no table row for " ++ fn)
  | some (guard, method, conv, rule) =>
    match guardHolds f guard, methodCall method conv arg, ruleOf rule with
    | some true, some c, some r => .ok { call := c, rule := r }
    | some false, some _, some _ => .ok { call := .none, rule := .const (-1) }
    | _, _, _ => .panic ("unreadable table row for " ++ fn)

/-! ### the glue -/

/-- the translation of one C call into (at most) one editor call and a return rule -/
def translate (f : Facts) : COp → Outcome Glue
  | .named h =>
    match handlerRow h.name with
    | none => .panic ("no table row for chewing_handle_" ++ h.name)
    | some (0, _, _) => .ok { call := .none, rule := .const okValue }
    | some (1, code, _) => keyGlue (mapWithMod f.kb code 0)
    | some (_, code, mods) => keyGlue (mapWithMod f.kb code mods)
  | .default k => keyGlue (mapAscii f.kb (narrow narrowDefault (remapSelKey f k)))
  | .numlock k => keyGlue (mapAsciiNumlock f.kb (narrow narrowNumlock k))
  | .ctrlNum k =>
    match lookupNat (narrow narrowCtrlNum k) ctrlNumTable with
    | none => .ok { call := .none, rule := .const ctrlNumElse }
    | some code => keyGlue (mapWithMod f.kb code ctrlNumMods)
  | .candChoose i => apiGlue f "chewing_cand_choose_by_index" i
  | op => apiGlue f op.fnName 0

end CApi

open CApi

/-! ### the context -/

/-- the part of `struct ChewingContext` the modelled calls read or write -/
structure CCtx (D L : Type) where
  editor : Editor D L
  /-- `sel_keys` (ten C `int`s) -/
  selKeys : List Int := [49, 50, 51, 52, 53, 54, 55, 56, 57, 48]
  /-- `keyboard`, by its name in `Model/Keyboard.lean` -/
  kb : String := "qwerty"

section
variable {D L : Type} (env : Env D L)

/-- `Editor::is_selecting` -/
def Editor.isSelecting (e : Editor D L) : Bool :=
  match e.state with
  | .selecting _ => true
  | _ => false

/-- `Editor::is_entering` -/
def Editor.isEntering (e : Editor D L) : Bool :=
  match e.state with
  | .entering => true
  | _ => false

def CCtx.facts (c : CCtx D L) : Facts :=
  { isSelecting := c.editor.isSelecting, isEntering := c.editor.isEntering, selKeys := c.selKeys, kb := c.kb }

/-- the editor call, with its `Result` as a `Bool` (`true` = `Ok`; calls without a result count as `Ok`) -/
def CApi.runCall (e : Editor D L) : EdCall → Outcome (Editor D L × Bool)
  | .none => .ok (e, true)
  | .key ev => (e.processKey env ev).map fun r => (r.1, true)
  | .select n => e.select env n
  | .startSelecting => e.startSelecting env
  | .cancelSelecting => .ok e.cancelSelecting
  | .commit => e.commit env
  | .clear => .ok (e.clear env, true)
  | .ack => .ok (e.ack, true)
  | .clearSyl => .ok (e.clearSyllableEditor env, true)
  | .jump w => e.jump env w

/-- **one C call** on a non-NULL context: the new context and the returned `int` -/
def CCtx.apply (c : CCtx D L) (op : COp) : Outcome (CCtx D L × Int) :=
  match translate c.facts op with
  | .ok g =>
    match runCall env c.editor g.call with
    | .ok (e', ok) => .ok ({ c with editor := e' }, g.rule.rc ok)
    | .panic p => .panic p
    | .outOfFuel => .outOfFuel
  | .panic p => .panic p
  | .outOfFuel => .outOfFuel

/-- the context pointer may be NULL: every modelled function then returns `ERROR` at once -/
def CCtx.applyPtr (c : Option (CCtx D L)) (op : COp) : Outcome (Option (CCtx D L) × Int) :=
  match c with
  | none => .ok (none, nullReturns)
  | some c => (c.apply env op).map fun r => (some r.1, r.2)

/-- a history of C calls: the final context and the returned values, in order -/
def CCtx.run (c : CCtx D L) : List COp → Outcome (CCtx D L × List Int)
  | [] => .ok (c, [])
  | op :: ops =>
    match c.apply env op with
    | .ok (c', r) =>
      match CCtx.run c' ops with
      | .ok (c'', rs) => .ok (c'', r :: rs)
      | .panic p => .panic p
      | .outOfFuel => .outOfFuel
    | .panic p => .panic p
    | .outOfFuel => .outOfFuel

/-! ### the C getters that report the result of a key -/

def kbOfVariant (v : String) : Option KB :=
  if v == "Ignore" then some .ignore else if v == "Absorb" then some .absorb
  else if v == "Commit" then some .commit else if v == "Bell" then some .bell else none

/-- `match ctx.editor.last_key_behavior() { EditorKeyBehavior::<V> => TRUE, _ => FALSE }` with `<V>` from the
    generated table -/
def CApi.keyGetter (fn : String) (e : Editor D L) : Int :=
  match (keyGetters.find? (·.1 == fn)).bind fun r => kbOfVariant r.2 with
  | some v => if e.shared.last = v then trueValue else falseValue
  | none => errorValue

/-- `chewing_keystroke_CheckIgnore` -/
def CCtx.keystrokeCheckIgnore (c : CCtx D L) : Int := CApi.keyGetter "chewing_keystroke_CheckIgnore" c.editor

/-- `chewing_keystroke_CheckAbsorb` -/
def CCtx.keystrokeCheckAbsorb (c : CCtx D L) : Int := CApi.keyGetter "chewing_keystroke_CheckAbsorb" c.editor

/-- `chewing_commit_Check`: `!display_commit().is_empty() as c_int` -/
def CCtx.commitCheck (c : CCtx D L) : Int := if c.editor.shared.commitBuf.isEmpty then 0 else 1

/-- there is no C getter for a bell: the front end sees it as "not ignored, not absorbed, nothing committed" -/
def CCtx.bellObserved (c : CCtx D L) : Bool :=
  c.keystrokeCheckIgnore == 0 && c.keystrokeCheckAbsorb == 0 && c.commitCheck == 0

end

end Chewing
