import Chewing.Model.CApiOps
import Chewing.Model.Config
import Chewing.Model.Syllable
import Chewing.Gen.CApiUser
/-!
Model of the USER-PHRASE calls and of the context-writing CONFIGURATION calls of `capi/src/io.rs`, as operations on
the C context model `CCtx` of `Model/CApiOps.lean` (work package capiuser; C08 / C09 / C01 / C16 / C06).

* `parseBopomofo` — how the three user-phrase calls turn the C string `bopomofo` into syllables:
  `bopomofo.split_ascii_whitespace().map_while(|it| it.parse::<Syllable>().ok()).collect()`: the tokens between runs of
  ASCII white space (U+0020, U+0009, U+000A, U+000C, U+000D), parsed by `FromStr for Syllable` (`Chewing.parse` of
  `Model/Syllable.lean`, C13's spelling parser) UP TO THE FIRST TOKEN THAT DOES NOT PARSE — the rest of the string is
  ignored, the prefix is used (`Gen.CApiUser.parseStopsAtBadToken`, regenerated from the source).  `printSyls` is the
  string `chewing_userphrase_get` hands out: the spellings joined by one space.
* `CCtx.userAdd / userRemove / userLookup / userEntries` — `chewing_userphrase_add / _remove / _lookup` and the
  enumeration triple `chewing_userphrase_enumerate / _has_next / _get` as the list of (phrase, bopomofo) pairs handed
  out.  A string argument is an `Option Text`: `none` = the pointer is NULL or the bytes are not UTF-8
  (`str_from_ptr_with_nul`).  They go through the EDITOR MODEL's operations: `Shared.learnPhrase`,
  `Shared.unlearnPhrase`, each followed by `Editor.revalidate` (`Editor::learn_phrase` / `unlearn_phrase` end with
  `revalidate_selecting`), and `Env.userLookupAll` (the user layer only).  Return codes, the 11-syllable limit and the
  NULL answers are the generated constants of `Gen.CApiUser`.
* `CCtx.setKBType`, `CCtx.setStr` (`chewing_config_set_str` with "chewing.keyboard_type" / "chewing.selection_keys"),
  `CCtx.setSelKey` — the calls that WRITE `CCtx.kb` and `CCtx.selKeys`; they interpret the same generated tables as
  `Model/Config.lean` (C16): `Config.kbOfNum`, `Config.pairByNum`, `Config.pairByName`, `Gen.Cfg.kbFromStrText`,
  `Config.padKeys`, and install the syllable editor through `Editor.setLayout` + `Editor.revalidate`.
* `COpU` = the calls of `COp` + these; `CCtx.applyU`, `CCtx.runU`: ONE history mixing key handlers, candidate calls,
  user-phrase calls and setters.

Not in `CCtx` (and so not modelled here): `kb_compat` (what `chewing_get_KBType` reports: `Model/Config.lean`), the
stored enumeration iterator (C15 / C17: the enumeration is a snapshot taken by `chewing_userphrase_enumerate`), the
caller's buffers of `chewing_userphrase_get` (C15).
-/
namespace Chewing
open Gen

namespace CApiUser
open Gen.CApiUser

/-! ### the bopomofo string -/

/-- `u8::is_ascii_whitespace`: space, tab, line feed, form feed, carriage return -/
def isWs (c : Nat) : Bool := c == 32 || c == 9 || c == 10 || c == 12 || c == 13

/-- `str::split_ascii_whitespace`: the maximal runs of non-white-space (never an empty token) -/
def splitGo : List Nat → List Nat → List (List Nat)
  | [], cur => if cur.isEmpty then [] else [cur]
  | c :: cs, cur =>
    if isWs c then (if cur.isEmpty then splitGo cs [] else cur :: splitGo cs [])
    else splitGo cs (cur ++ [c])

def splitWs (s : Text) : List Text := splitGo s []

/-- `.map_while(|it| it.parse::<Syllable>().ok())`: the syllables of the tokens before the first one that does not
    parse -/
def parsePrefix : List Text → List Nat
  | [] => []
  | t :: ts =>
    match Chewing.parse t with
    | .ok v => v :: parsePrefix ts
    | .error _ => []

/-- all-or-nothing reading (NOT what the source does; the alternative `parseStopsAtBadToken = false` stands for) -/
def parseAll : List Text → Option (List Nat)
  | [] => some []
  | t :: ts =>
    match Chewing.parse t with
    | .ok v => (parseAll ts).map (v :: ·)
    | .error _ => none

/-- the syllables the user-phrase calls read from the C string -/
def parseBopomofo (s : Text) : List Nat :=
  if parseStopsAtBadToken then parsePrefix (splitWs s) else (parseAll (splitWs s)).getD []

/-- `syllables.iter().map(|it| it.to_string()).collect::<Vec<_>>().join(" ")` -/
def printSyls : List Nat → Text
  | [] => []
  | [k] => spell k
  | k :: ks => spell k ++ 32 :: printSyls ks

/-- `DvorakOnQwerty` ↦ `dvorak_on_qwerty`: the `AnyKeyboardLayout` variant as the keyboard's name in
    `Model/Keyboard.lean` -/
def snake (s : String) : String :=
  String.ofList (s.toList.foldl (fun acc ch =>
    if ch.isUpper then (if acc.isEmpty then acc else acc ++ ['_']) ++ [ch.toLower] else acc ++ [ch]) [])

/-- the keyboard (by name) of an `AnyKeyboardLayout` variant index of `Gen.Cfg.keyboards` -/
def kbName (i : Nat) : String := snake (Gen.Cfg.keyboards.getD i "Qwerty")

/-- the calls added to `COp` -/
inductive UOp where
  /-- `chewing_userphrase_add(ctx, phrase, bopomofo)` -/
  | userAdd (phrase bopomofo : Option Text)
  /-- `chewing_userphrase_remove(ctx, phrase, bopomofo)` -/
  | userRemove (phrase bopomofo : Option Text)
  /-- `chewing_userphrase_lookup(ctx, phrase, bopomofo)` (`phrase = none`: NULL — "any phrase of these syllables") -/
  | userLookup (phrase bopomofo : Option Text)
  /-- `chewing_userphrase_enumerate(ctx)` (what is then handed out is `CCtx.userEntries`) -/
  | userEnumerate
  /-- `chewing_set_KBType(ctx, n)` -/
  | setKBType (n : Int)
  /-- `chewing_config_set_str(ctx, name, value)` (both after `to_string_lossy`) -/
  | setStr (name : String) (value : Text)
  /-- `chewing_set_selKey(ctx, keys, len)`; `keys = none`: NULL, else the `len` ints read when the call is not ignored -/
  | setSelKey (keys : Option (List Int)) (len : Int)
deriving Repr, DecidableEq, Inhabited

end CApiUser

open CApi CApiUser Gen.CApiUser

/-- every modelled C call: the glue calls of `Model/CApiOps.lean` and the user-phrase / configuration calls -/
inductive COpU where
  | base (op : COp)
  | user (op : UOp)
deriving Repr, DecidableEq, Inhabited

/-- what the user-phrase and layout calls need beyond `Env` -/
structure UEnv (D L : Type) where
  /-- `user_dict().entries()` -/
  entries : D → List Entry
  /-- a fresh syllable editor, by its index in `Gen.Cfg.sylCtors` (`Box::new(Hsu::new())`, …) -/
  layoutOf : Nat → L

section
variable {D L : Type} (env : Env D L) (uenv : UEnv D L)

/-- an editor-level step lifted to the context, with the return value decided by `rc` -/
def CCtx.withEditor (c : CCtx D L) (r : Outcome (Editor D L)) (rc : Int) : Outcome (CCtx D L × Int) :=
  match r with
  | .ok e => .ok ({ c with editor := e }, rc)
  | .panic p => .panic p
  | .outOfFuel => .outOfFuel

/-- **`chewing_userphrase_lookup`**: the USER dictionary only (`ctx.editor.user_dict()`), exact lookup
    (`LookupStrategy::Standard`) of the parsed syllables; with a phrase: is it among the phrases found; with NULL: is
    there any (`lookup_first_phrase(..).is_some()`); a NULL / non-UTF-8 `bopomofo` answers 0.  Pure. -/
def CCtx.userLookup (c : CCtx D L) (phrase bopomofo : Option Text) : Int :=
  match bopomofo with
  | none => lookupBopoNone
  | some b =>
    let ks := parseBopomofo b
    let ps := if lookupUserOnly then env.userLookupAll c.editor.shared.dict ks .standard
              else env.lookupAll c.editor.shared.dict ks .standard
    match phrase with
    | some p => if ps.any (fun ph => ph.text == p) then 1 else 0
    | none => if ps.head?.isSome then 1 else 0

/-- **`chewing_userphrase_add`** -/
def CCtx.userAdd (c : CCtx D L) (phrase bopomofo : Option Text) : Outcome (CCtx D L × Int) :=
  match bopomofo with
  | none => .ok (c, addBopoNone)
  | some b =>
    let ks := parseBopomofo b
    if ks.length > addMaxSyl then .ok (c, addTooMany)
    else if addEmptyRefused && ks.isEmpty then .ok (c, addEmptyRc)
    else
      match phrase with
      | none => .ok (c, addPhraseNone)
      | some p =>
        match Shared.learnPhrase env c.editor.shared ks p with
        | .ok (sh, okb) =>
          c.withEditor (Editor.revalidate env { c.editor with shared := sh }) (if okb then addOk else addErr)
        | .panic q => .panic q
        | .outOfFuel => .outOfFuel

/-- **`chewing_userphrase_remove`**: "return FALSE when phrase does not exist is C API only behavior" — first
    `chewing_userphrase_lookup`, and only a phrase that is there is handed to `Editor::unlearn_phrase` -/
def CCtx.userRemove (c : CCtx D L) (phrase bopomofo : Option Text) : Outcome (CCtx D L × Int) :=
  if removePreLookup && c.userLookup env phrase bopomofo != 1 then .ok (c, removeAbsent)
  else
    match bopomofo with
    | none => .ok (c, removeBopoNone)
    | some b =>
      match phrase with
      | none => .ok (c, removePhraseNone)
      | some p =>
        c.withEditor
          (Editor.revalidate env { c.editor with shared := Shared.unlearnPhrase env c.editor.shared (parseBopomofo b) p })
          removeOk

/-- **the enumeration** `chewing_userphrase_enumerate` then `has_next` / `get` until `has_next` answers 0: the
    (phrase, bopomofo string) pairs handed out, in order = `user_dict().entries()` printed -/
def CCtx.userEntries (c : CCtx D L) : List (Text × Text) :=
  (uenv.entries c.editor.shared.dict).map fun e => (e.2.text, printSyls e.1)

/-- the (syllables, phrase) pairs behind the enumeration -/
def CCtx.userKeys (c : CCtx D L) : List (List Nat × Text) :=
  (uenv.entries c.editor.shared.dict).map fun e => (e.1, e.2.text)

/-- install keyboard + syllable editor of layout `k` (`pair` = the dispatch table of the calling function) -/
def CCtx.installLayout (c : CCtx D L) (pair : Nat × Nat) (rc : Int) : Outcome (CCtx D L × Int) :=
  ({ c with kb := kbName pair.1 } : CCtx D L).withEditor
    (Editor.revalidate env (c.editor.setLayout env (uenv.layoutOf pair.2))) rc

/-- **`chewing_set_KBType(ctx, n)`**: an unknown number installs the default layout and returns -1 -/
def CCtx.setKBType (c : CCtx D L) (n : Int) : Outcome (CCtx D L × Int) :=
  let k := Config.kbOfNum n
  c.installLayout env uenv (Config.pairByNum k) (if k = Gen.Cfg.kbDefault ∧ (k : Int) ≠ n then -1 else 0)

/-- **`chewing_config_set_str(ctx, name, value)`** -/
def CCtx.setStr (c : CCtx D L) (name : String) (value : Text) : Outcome (CCtx D L × Int) :=
  if name ∉ Gen.Cfg.setStrNames then .ok (c, Config.ERROR)
  else if name = Config.kbTypeName then
    match Config.assoc value Gen.Cfg.kbFromStrText with
    | none => .ok (c, Config.ERROR)
    | some k => c.installLayout env uenv (Config.pairByName k) Config.OK
  else if name = Config.selKeysName then
    if Config.utf8Size value ≠ Gen.Cfg.selKeysStrLen ∨ (Gen.Cfg.selKeysRequireAscii = true ∧ ¬ value.all (· < 128)) then
      .ok (c, Config.ERROR)
    else .ok ({ c with selKeys := Config.padKeys (value.map Int.ofNat) }, Config.OK)
  else .ok (c, Config.ERROR)

/-- **`chewing_set_selKey(ctx, keys, len)`** (returns nothing: 0 here): ignored for a NULL array or `len ≠ 10` -/
def CCtx.setSelKey (c : CCtx D L) (keys : Option (List Int)) (len : Int) : CCtx D L :=
  match keys with
  | none => c
  | some ks => if len ≠ Gen.CApiUser.setSelKeyLen then c else { c with selKeys := ks }

/-- one of the added calls -/
def CCtx.applyUser (c : CCtx D L) : UOp → Outcome (CCtx D L × Int)
  | .userAdd p b => c.userAdd env p b
  | .userRemove p b => c.userRemove env p b
  | .userLookup p b => .ok (c, c.userLookup env p b)
  | .userEnumerate => .ok (c, enumRc)
  | .setKBType n => c.setKBType env uenv n
  | .setStr name value => c.setStr env uenv name value
  | .setSelKey keys len => .ok (c.setSelKey keys len, 0)

/-- **one C call** (any of the modelled ones) on a non-NULL context -/
def CCtx.applyU (c : CCtx D L) : COpU → Outcome (CCtx D L × Int)
  | .base op => c.apply env op
  | .user op => c.applyUser env uenv op

/-- the value each added call returns for a NULL context -/
def CApiUser.nullRc : UOp → Int
  | .userAdd .. => addNullCtx
  | .userRemove .. => removeNullCtx
  | .userLookup .. => lookupNullCtx
  | .userEnumerate => enumNullCtx
  | .setKBType _ => Config.ERROR
  | .setStr .. => Config.ERROR
  | .setSelKey .. => 0

/-- a history of C calls: the final context and the returned values, in order -/
def CCtx.runU (c : CCtx D L) : List COpU → Outcome (CCtx D L × List Int)
  | [] => .ok (c, [])
  | op :: ops =>
    match c.applyU env uenv op with
    | .ok (c', r) =>
      match CCtx.runU c' ops with
      | .ok (c'', rs) => .ok (c'', r :: rs)
      | .panic p => .panic p
      | .outOfFuel => .outOfFuel
    | .panic p => .panic p
    | .outOfFuel => .outOfFuel

end

/-! ### a concrete environment: the user dictionary as a list of (syllables, phrase) pairs

Used by the correspondence driver (`Driver/CApiUser.lean`: the record carries what the real context enumerates, the
model recomputes return value and new enumeration) and as the witness that the hypotheses of `Props/C08CApi.lean` are
satisfiable.  No system dictionary (the user-phrase calls consult the user layer only; the layered lookup inside
`learn_phrase` only chooses between `add_phrase` and `update_phrase`, which store the same key). -/
namespace CApiUser

abbrev ListDict := List (List Nat × Text)

def listLookup (d : ListDict) (k : List Nat) : List Phrase :=
  (d.filter (fun e => e.1 == k)).map fun e => { text := e.2, freq := 1 }

def listEnv : Env ListDict Nat where
  lookupAll d k _ := listLookup d k
  userLookupAll d k _ := listLookup d k
  addPhrase d k ph := if ph.text.isEmpty then some d else if d.contains (k, ph.text) then none else some (d ++ [(k, ph.text)])
  updatePhrase d k ph _ _ := if ph.text.isEmpty || d.contains (k, ph.text) then d else d ++ [(k, ph.text)]
  removePhrase d k t := d.filter (fun e => !(e == (k, t)))
  reopenFlush d := d
  convert _ _ _ := .ok [[]]
  estimate _ f _ := .ok f
  keyPress l _ := (.keyError, l)
  fuzzyKeyPress l _ := (.keyError, l)
  removeLast _ := 0
  clearSyl _ := 0
  sylIsEmpty l := l == 0
  read l := l
  altSyllables _ _ := []

def listUEnv : UEnv ListDict Nat where
  entries d := d.map fun e => (e.1, { text := e.2, freq := 1 })
  layoutOf _ := 0

/-- a fresh context (state Entering, empty buffers) over the user dictionary `d` -/
def listCtx (d : ListDict) : CCtx ListDict Nat := { editor := { shared := { syl := 0, dict := d } } }

end CApiUser

end Chewing
