/-!
# C strings of the C API (C15): UTF-8 and `copy_cstr`, byte level

Bytes are `Nat` (< 256), code points are `Nat`.  Core Lean only (the model driver links this file).

* `encChar` / `utf8Encode`   — Rust's `char::encode_utf8` / the bytes of a `str`;
* `utf8Decode`               — Rust's `str::from_utf8` (strict: no overlong forms, no surrogates,
                               nothing above U+10FFFF); `none` = "not valid UTF-8";
* `isBoundary`               — `str::is_char_boundary`;
* `copyCstr cap s`           — the contents of a `cap`-byte buffer after `copy_cstr(buf, s)`
                               (capi/src/io.rs, after the `fix:` commit: leave room for the NUL and step
                               back to a character boundary; before that commit `n = min cap len`);
* `callerCopy cap s`         — the bytes `copy_cstr_to_caller` writes into a CALLER's buffer of `cap` bytes
                               (`chewing_userphrase_get`); `fitCopy` — `chewing_phone_to_bopomofo`;
* `cText buf`                — what a C reader sees: the bytes before the first NUL (`none`: no NUL
                               inside the buffer = the reader runs past the end);
* `heapCstr s`               — `CString::new(s).into_raw()`: the bytes followed by one NUL
                               (`none` = interior NUL, `CString::new` fails).
-/
namespace Chewing.CStr

/-- Unicode scalar value (what a Rust `char` can hold) -/
def IsScalar (c : Nat) : Prop := c < 0xD800 ∨ (0xE000 ≤ c ∧ c < 0x110000)

instance (c : Nat) : Decidable (IsScalar c) := by unfold IsScalar; exact inferInstance

/-- continuation byte `10xxxxxx` -/
def IsCont (b : Nat) : Prop := 0x80 ≤ b ∧ b < 0xC0

instance (b : Nat) : Decidable (IsCont b) := by unfold IsCont; exact inferInstance

/-- `char::encode_utf8` -/
def encChar (c : Nat) : List Nat :=
  if c < 0x80 then [c]
  else if c < 0x800 then [0xC0 + c / 64, 0x80 + c % 64]
  else if c < 0x10000 then [0xE0 + c / 4096, 0x80 + (c / 64) % 64, 0x80 + c % 64]
  else [0xF0 + c / 262144, 0x80 + (c / 4096) % 64, 0x80 + (c / 64) % 64, 0x80 + c % 64]

/-- the bytes of a `str` given as its list of `char`s -/
def utf8Encode : List Nat → List Nat
  | [] => []
  | c :: cs => encChar c ++ utf8Encode cs

/-- number of bytes of the text -/
def utf8Len (cs : List Nat) : Nat := (utf8Encode cs).length

/-- `str::from_utf8` (Unicode table 3-7: well-formed byte sequences) -/
def utf8Decode : List Nat → Option (List Nat)
  | [] => some []
  | b0 :: rest =>
    if b0 < 0x80 then (utf8Decode rest).map (b0 :: ·)
    else if b0 < 0xC2 then none
    else if b0 < 0xE0 then
      match rest with
      | b1 :: r =>
        if IsCont b1 then (utf8Decode r).map (((b0 - 0xC0) * 64 + (b1 - 0x80)) :: ·) else none
      | _ => none
    else if b0 < 0xF0 then
      match rest with
      | b1 :: b2 :: r =>
        let cp := (b0 - 0xE0) * 4096 + (b1 - 0x80) * 64 + (b2 - 0x80)
        if IsCont b1 ∧ IsCont b2 ∧ 0x800 ≤ cp ∧ (cp < 0xD800 ∨ 0xE000 ≤ cp) then
          (utf8Decode r).map (cp :: ·)
        else none
      | _ => none
    else if b0 < 0xF5 then
      match rest with
      | b1 :: b2 :: b3 :: r =>
        let cp := (b0 - 0xF0) * 262144 + (b1 - 0x80) * 4096 + (b2 - 0x80) * 64 + (b3 - 0x80)
        if IsCont b1 ∧ IsCont b2 ∧ IsCont b3 ∧ 0x10000 ≤ cp ∧ cp < 0x110000 then
          (utf8Decode r).map (cp :: ·)
        else none
      | _ => none
    else none

/-- valid UTF-8 -/
def ValidUtf8 (bs : List Nat) : Prop := (utf8Decode bs).isSome = true

/-- `str::is_char_boundary(n)`: `n == 0`, or `n == len`, or byte `n` is not a continuation byte -/
def isBoundary (s : List Nat) (n : Nat) : Bool :=
  if n = 0 then true
  else match s[n]? with
    | none => n == s.length
    | some b => !decide (IsCont b)

/-- `while !s.is_char_boundary(n) { n -= 1 }` -/
def floorBoundary (s : List Nat) : Nat → Nat
  | 0 => 0
  | n + 1 => if isBoundary s (n + 1) then n + 1 else floorBoundary s n

/-- number of bytes `copy_cstr` copies: `min(cap.saturating_sub(1), len)` stepped back to a boundary -/
def copyLen (cap : Nat) (s : List Nat) : Nat := floorBoundary s (min (cap - 1) s.length)

/-- the whole buffer after `copy_cstr(buf, s)` with `buf.len() = cap`: zero-filled, then the prefix copied -/
def copyCstr (cap : Nat) (s : List Nat) : List Nat :=
  s.take (copyLen cap s) ++ List.replicate (cap - copyLen cap s) 0

/-- the code before the `fix:` commit (kept for the refutation F35): `n = min(cap, len)`, no boundary search -/
def copyCstrOld (cap : Nat) (s : List Nat) : List Nat :=
  s.take (min cap s.length) ++ List.replicate (cap - min cap s.length) 0

/-- the bytes `copy_cstr_to_caller(buf, cap, s)` writes, from offset 0 of the CALLER's buffer (capi/src/io.rs, used by
`chewing_userphrase_get` for both of its buffers; after the `fix:` commit that steps back to a character boundary —
the same length as `copy_cstr`): nothing when `cap = 0`, else the prefix and one NUL.  The rest of the caller's
buffer is not touched. -/
def callerCopy (cap : Nat) (s : List Nat) : List Nat :=
  if cap = 0 then [] else s.take (copyLen cap s) ++ [0]

/-- the code before that commit (kept for the refutation): `n = min(len, cap - 1)` bytes, cut wherever it falls -/
def callerCopyOld (cap : Nat) (s : List Nat) : List Nat :=
  if cap = 0 then [] else s.take (min s.length (cap - 1)) ++ [0]

/-- the bytes `chewing_phone_to_bopomofo(phone, buf, len)` writes from offset 0 of the caller's buffer: the whole text
and one NUL when `len ≥ text + 1`, nothing otherwise (the return value tells the size needed) -/
def fitCopy (cap : Nat) (s : List Nat) : List Nat :=
  if s.length + 1 ≤ cap then s ++ [0] else []

/-- the caller's buffer after a call that wrote `w` from offset 0 over the previous contents `old` -/
def overwrite (w old : List Nat) : List Nat := w ++ old.drop w.length

/-- the C string a reader sees in a buffer: bytes before the first NUL; `none` = no NUL in the buffer -/
def cText : List Nat → Option (List Nat)
  | [] => none
  | b :: rest => if b = 0 then some [] else (cText rest).map (b :: ·)

/-- `CString::new(s)`: the bytes and one NUL; fails on an interior NUL -/
def heapCstr (s : List Nat) : Option (List Nat) :=
  if 0 ∈ s then none else some (s ++ [0])

/-- `char::from(key as u8)` for each of the ten selection keys (`c_int`s, stored unvalidated by the legacy setters
`chewing_set_selKey` / `chewing_Configure`): the low byte as a Latin-1 code point -/
def selKeysChars (keys : List Int) : List Nat := keys.map fun k => (k % 256).toNat

/-- `chewing_config_get_str("chewing.selection_keys")`: the characters collected into a `String` (UTF-8) and handed out
as `CString::new(string)`; `none` = ERROR (a key whose low byte is 0) -/
def selKeysCStr (keys : List Int) : Option (List Nat) := heapCstr (utf8Encode (selKeysChars keys))

/-- NOT the code (recorded for the refutation in Props/C15): the C string built from the raw low bytes -/
def selKeysCStrRaw (keys : List Int) : Option (List Nat) := heapCstr (selKeysChars keys)

end Chewing.CStr
