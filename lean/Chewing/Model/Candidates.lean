import Chewing.Model.Editor
/-!
The candidate-list getters of `Editor` (`src/editor/mod.rs`: `all_candidates`, `paginated_candidates`,
`current_page_no`, `total_page`) and the C glue on top of them (`capi/src/io.rs`: `chewing_cand_*`).

`none` = `Err(EditorError::InvalidState)` (no list open).  The list is recomputed from the selector,
the dictionary and the layout on every call; only `page_no` is stored.
-/
namespace Chewing

/-! ### pages -/

/-- `len.div_ceil(per)` for `per > 0` (the form `Selecting.totalPage` computes) -/
def pageCount (n per : Nat) : Nat := (n + per - 1) / per

/-- the items a front end shows as page `p`: the first `per` strings of what `chewing_cand_Enumerate`
    hands out on that page (`paginated_candidates` = everything from item `p * per` on) -/
def pageItems {α : Type} (cs : List α) (per p : Nat) : List α := (cs.drop (p * per)).take per

section
variable {D L : Type} (env : Env D L)

/-- `Editor::all_candidates` -/
def Editor.allCandidates (e : Editor D L) : Outcome (Option (List Text)) :=
  match e.state with
  | .selecting s => (Selecting.candidates env s e.shared).map some
  | _ => .ok none

/-- `Editor::paginated_candidates`: everything from the first item of the current page on
    (`.skip(page_no * candidates_per_page)`, plain `usize` multiplication) -/
def Editor.paginatedCandidates (e : Editor D L) : Outcome (Option (List Text)) :=
  match e.state with
  | .selecting s =>
    if s.pageNo * e.shared.options.candidatesPerPage ≥ 2 ^ 64 then .panic "paginated-offset-overflow"
    else (Selecting.candidates env s e.shared).map fun cs =>
      some (cs.drop (s.pageNo * e.shared.options.candidatesPerPage))
  | _ => .ok none

/-- `Editor::current_page_no` -/
def Editor.currentPageNo (e : Editor D L) : Option Nat :=
  match e.state with
  | .selecting s => some s.pageNo
  | _ => none

/-- `Editor::total_page` -/
def Editor.totalPage (e : Editor D L) : Outcome (Option Nat) :=
  match e.state with
  | .selecting s => (Selecting.totalPage env s e.shared).map some
  | _ => .ok none

/-! ### the C functions (`ctx.editor` = `e`) -/

/-- `chewing_cand_TotalChoice`: `all_candidates().len()`, 0 when no list is open -/
def CApi.totalChoice (e : Editor D L) : Outcome Nat :=
  (e.allCandidates env).map fun r => (r.map List.length).getD 0

/-- `chewing_cand_TotalPage`: `total_page().unwrap_or_default()` -/
def CApi.totalPage (e : Editor D L) : Outcome Nat := (e.totalPage env).map fun r => r.getD 0

/-- `chewing_cand_CurrentPage` -/
def CApi.currentPage (e : Editor D L) : Nat := e.currentPageNo.getD 0

/-- `chewing_cand_ChoicePerPage` -/
def CApi.choicePerPage (e : Editor D L) : Nat := e.shared.options.candidatesPerPage

/-- `chewing_cand_Enumerate` followed by `chewing_cand_hasNext` / `chewing_cand_String` until exhausted:
    the strings handed out, in order (nothing when no list is open) -/
def CApi.enumerate (e : Editor D L) : Outcome (List Text) :=
  (e.paginatedCandidates env).map fun r => r.getD []

/-- `chewing_cand_string_by_index(ctx, index)`: `index as usize` of a C `int`; "" when there is none -/
def CApi.indexOfInt (i : Int) : Nat := if i < 0 then (2 ^ 64 - i.natAbs) else i.toNat

def CApi.stringByIndex (e : Editor D L) (i : Int) : Outcome Text :=
  (e.allCandidates env).map fun r => ((r.getD [])[CApi.indexOfInt i]?).getD []

/-- `chewing_cand_choose_by_index(ctx, index)` = `editor.select(index as usize)`; `Bool` = returns 0 -/
def CApi.chooseByIndex (e : Editor D L) (i : Int) : Outcome (Editor D L × Bool) :=
  e.select env (CApi.indexOfInt i)

end

end Chewing
