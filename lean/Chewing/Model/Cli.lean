import Chewing.Model.Basic
import Chewing.Model.Syllable
import Chewing.Gen.CliFormat
import Chewing.Gen.CliTrieCmp
/-!
Model of the dictionary compiler / dumper of the command-line tool
(`tools/src/init_database.rs`, `tools/src/dump.rs`) and, at the level of entry lists, of the two
dictionary builders it drives (`TrieBuilder` + `Trie::entries`, `SqliteDictionaryBuilder` +
`SqliteDictionary::entries` / lookup order).

Text is a list of code points.  Delimiters, the quote and comment characters, the number of
skipped fields, the line-number base and the dump format strings come from `Chewing.Gen.CliFormat`,
i.e. from the current Rust source.

What is modelled as coded:
* `BufRead::lines` (`readLines`): split on `\n`, one `\r` before the `\n` is dropped, no line for the
  empty tail after a final `\n`;
* `parse_line` (`parseLine`): nothing is trimmed; the phrase is the first non-empty
  delimiter-separated field with `"` stripped from both ends — rejected if it is then empty or contains
  a comma or whitespace; the frequency is the second such field, always parsed as `u32` (`parseU32` =
  `u32::from_str`) and then replaced by 0 for a one-character phrase unless `--keep-word-freq`; the
  syllables are the non-empty fields of the line split on `,` or any whitespace *after the first two*,
  each with `"` stripped, empty ones skipped, everything from the first one starting with `#` ignored,
  each built through the order-checking syllable builder (`Chewing.parse`); a record without syllables,
  or whose number of syllables differs from the number of characters, is rejected (the checks were added
  by the fixes of F27; the order of the checks is the code's);
* a line that is not valid UTF-8 (`readRawLines`, `compileRaw`) is collected like any other malformed line
  (`LineErr.invalidUtf8`, fix of F45): reported with its number, nothing built unless `--skip-invalid`,
  and `BufRead::lines` goes on with the next line — except the CSV header line, which is skipped unread;
* `run` (`compileRun`): CSV mode skips line 0; every failing line is reported with its 1-based number;
  nothing is built if a line failed unless `--skip-invalid`;
* `TrieBuilder::insert` (`trieInsert`): same key and same phrase text replaces, otherwise appends;
  `TrieBuilder::write` sorts the children by syllable and each leaf by the comparator of `trie.rs`
  (stable; `phraseSort` is the insertion sort `slice::sort_by` uses up to 20 elements);
  `Trie::entries` (`trieEntries`) walks the trie depth first but emits every chain of nested keys
  (each a prefix of the next) deepest first (`trieOrder`);
* `SqliteDictionaryBuilder::insert` (`sqlInsert`): `INSERT OR REPLACE` on (syllables, phrase), a
  running `sort_id` for one-syllable keys; `entries()` in primary-key order (`sqlEntries`), lookup
  `ORDER BY sort_id, freq DESC, phrase DESC` (`sqlLookup`);
* `dump` (`dumpLine`, `dumpCsvLine`, `dump`).
-/
namespace Chewing.Cli
open Chewing Gen

/-- `char::is_whitespace` (Unicode `White_Space`); compared with the implementation on every code
    point by the correspondence run -/
def isWs (c : Nat) : Bool :=
  (9 ≤ c && c ≤ 13) || c == 32 || c == 0x85 || c == 0xA0 || c == 0x1680 || (0x2000 ≤ c && c ≤ 0x200A) ||
  c == 0x2028 || c == 0x2029 || c == 0x202F || c == 0x205F || c == 0x3000

/-- `str::split(pred)`: all fields, empty ones included -/
def fields (sep : Nat → Bool) : Text → List Text
  | [] => [[]]
  | c :: cs =>
    if sep c then [] :: fields sep cs
    else match fields sep cs with
      | f :: fs => (c :: f) :: fs
      | [] => [[c]]

/-- `.split(pred).filter(|s| !s.is_empty())` -/
def tokens (sep : Nat → Bool) (s : Text) : List Text := (fields sep s).filter (fun f => !f.isEmpty)

/-- the separator of the syllable fields: `c == ',' || c.is_whitespace()` -/
def sylSep (c : Nat) : Bool := c == cliSylSep || isWs c

/-- `trim_matches('"')` -/
def trimQ (s : Text) : Text :=
  ((s.dropWhile (· == cliQuote)).reverse.dropWhile (· == cliQuote)).reverse

def isDigit (c : Nat) : Bool := 48 ≤ c && c ≤ 57

def digitsVal (ds : Text) : Nat := ds.foldl (fun acc d => acc * 10 + (d - 48)) 0

/-- `u32::from_str`: an optional `+`, at least one ASCII digit, nothing else, value below 2³² -/
def parseU32 (s : Text) : Option Nat :=
  let ds := if s.head? == some 43 then s.tail else s
  if ds.isEmpty then none
  else if ds.all isDigit then
    (if digitsVal ds < 4294967296 then some (digitsVal ds) else none)
  else none

/-- decimal digits of `n` (`Display for u32`); `fuel` digits at most -/
def decimalF : Nat → Nat → Text
  | 0, _ => []
  | fuel + 1, n => if n < 10 then [48 + n] else decimalF fuel (n / 10) ++ [48 + n % 10]

/-- enough for every `u64` -/
def decimal (n : Nat) : Text := decimalF 20 n

/-- one source record -/
structure Rec where
  phrase : Text
  freq : Nat
  syls : List Nat
deriving Repr, DecidableEq, BEq, Inhabited

inductive LineErr where
  | noPhrase   -- no non-empty field
  | emptyPhrase -- the first field is nothing but quotes
  | phraseSep  -- a comma or whitespace in the phrase
  | noFreq     -- no second field
  | badFreq    -- the second field is not a `u32`
  | bopomofo   -- a character of a syllable field is not a Bopomofo symbol
  | syllable   -- the symbols of a syllable field are repeated or out of order
  | noSyllables -- no syllable field (before the comment)
  | lengthMismatch -- the number of syllables differs from the number of characters of the phrase
  | invalidUtf8 -- the line is not valid UTF-8 (`BufRead::lines` returned `InvalidData`)
deriving Repr, DecidableEq, BEq

/-- the characters `parse_line` does not accept in a phrase: `c == ',' || c.is_whitespace()` -/
def phraseSep (c : Nat) : Bool := c == cliPhraseSep || isWs c

/-- the syllable fields, after the first two fields have been skipped -/
def parseSyls : List Text → Except LineErr (List Nat)
  | [] => .ok []
  | t :: ts =>
    let s := trimQ t
    if s.isEmpty then parseSyls ts
    else if s.head? == some cliComment then .ok []
    else match Chewing.parse s with
      | .error .invalid => .error .bopomofo
      | .error _ => .error .syllable
      | .ok v =>
        match parseSyls ts with
        | .ok vs => .ok (v :: vs)
        | .error e => .error e

/-- the frequency of `parse_line`: `fs` are the non-empty delimiter-separated fields -/
def parseFreq (keep : Bool) (phrase : Text) (fs : List Text) : Except LineErr Nat :=
  match fs[1]? with
  | none => .error .noFreq
  | some f1 =>
    match parseU32 (trimQ f1) with
    | some n => .ok (if phrase.length == 1 && !keep then 0 else n)
    | none => .error .badFreq

/-- `parse_line(_, delimiter, line, keep_word_freq)` -/
def parseLine (delim : Nat) (keep : Bool) (line : Text) : Except LineErr Rec :=
  match tokens (· == delim) line with
  | [] => .error .noPhrase
  | f0 :: fs =>
    if (trimQ f0).isEmpty then .error .emptyPhrase
    else if (trimQ f0).any phraseSep then .error .phraseSep
    else
    match parseFreq keep (trimQ f0) (f0 :: fs) with
    | .error e => .error e
    | .ok freq =>
      match parseSyls ((tokens sylSep line).drop 2) with
      | .error e => .error e
      | .ok syls =>
        if syls.isEmpty then .error .noSyllables
        else if syls.length != (trimQ f0).length then .error .lengthMismatch
        else .ok { phrase := trimQ f0, freq := freq, syls := syls }

/-! ### files -/

/-- a line is complete: one carriage return before the line feed is dropped (`acc` is reversed) -/
def finishLine (acc : Text) : Text :=
  match acc with
  | 13 :: acc' => acc'.reverse
  | _ => acc.reverse

/-- `BufRead::lines` on valid UTF-8 -/
def readLines (s : Text) : List Text := go s []
where
  go : Text → Text → List Text
    | [], acc => if acc.isEmpty then [] else [acc.reverse]
    | c :: cs, acc => if c == 10 then finishLine acc :: go cs [] else go cs (c :: acc)

/-- `writeln!` of every line -/
def writeLines (ls : List Text) : Text := ls.flatMap (· ++ [10])

/-! ### the compiler loop -/

structure Flags where
  csv : Bool
  keep : Bool
  skip : Bool
deriving Repr, DecidableEq

def Flags.delim (f : Flags) : Nat := if f.csv then cliCsvDelim else cliSsvDelim

/-- parse the lines numbered from `idx` (0-based): the records of the lines that parse, in order,
    and the failing lines with their 0-based index -/
def parseAll (f : Flags) : Nat → List Text → List Rec × List (Nat × LineErr)
  | _, [] => ([], [])
  | idx, l :: ls =>
    if f.csv && idx == 0 then parseAll f (idx + 1) ls
    else match parseLine f.delim f.keep l with
      | .ok r => (r :: (parseAll f (idx + 1) ls).1, (parseAll f (idx + 1) ls).2)
      | .error e => ((parseAll f (idx + 1) ls).1, (idx, e) :: (parseAll f (idx + 1) ls).2)

structure CompileResult where
  /-- `Parsing failed at line N` messages: N and the cause -/
  reported : List (Nat × LineErr)
  /-- the records handed to the builder, in order; `none` = exit status 1, nothing is written -/
  inserted : Option (List Rec)
deriving Repr, DecidableEq

/-- `init_database::run` up to `builder.build` -/
def compileRun (f : Flags) (src : List Text) : CompileResult :=
  { reported := (parseAll f 0 src).2.map (fun e => (e.1 + 1, e.2)),
    inserted := if !(parseAll f 0 src).2.isEmpty && !f.skip then none else some (parseAll f 0 src).1 }

/-- the same as an `Except`: the reported lines if the tool exits with status 1 -/
def compile (f : Flags) (src : List Text) : Except (List (Nat × LineErr)) (List Rec) :=
  match (compileRun f src).inserted with
  | some rs => .ok rs
  | none => .error (compileRun f src).reported

/-! ### source files as bytes: lines that are not valid UTF-8 -/

def isCont (b : Nat) : Bool := 0x80 ≤ b && b ≤ 0xBF

/-- `str::from_utf8`, strict (no overlong forms, no surrogates, nothing above U+10FFFF); `fuel` > length -/
def decodeUtf8F : Nat → List Nat → Option Text
  | 0, _ => none
  | _ + 1, [] => some []
  | fuel + 1, b :: rest =>
    if b < 0x80 then (decodeUtf8F fuel rest).map (b :: ·)
    else if 0xC2 ≤ b && b ≤ 0xDF then
      match rest with
      | c :: r =>
        if isCont c then (decodeUtf8F fuel r).map (((b - 0xC0) * 64 + (c - 0x80)) :: ·) else none
      | _ => none
    else if 0xE0 ≤ b && b ≤ 0xEF then
      match rest with
      | c :: d :: r =>
        if (if b == 0xE0 then 0xA0 else 0x80) ≤ c && c ≤ (if b == 0xED then 0x9F else 0xBF) && isCont d then
          (decodeUtf8F fuel r).map (((b - 0xE0) * 4096 + (c - 0x80) * 64 + (d - 0x80)) :: ·)
        else none
      | _ => none
    else if 0xF0 ≤ b && b ≤ 0xF4 then
      match rest with
      | c :: d :: e :: r =>
        if (if b == 0xF0 then 0x90 else 0x80) ≤ c && c ≤ (if b == 0xF4 then 0x8F else 0xBF) && isCont d && isCont e then
          (decodeUtf8F fuel r).map (((b - 0xF0) * 262144 + (c - 0x80) * 4096 + (d - 0x80) * 64 + (e - 0x80)) :: ·)
        else none
      | _ => none
    else none

def decodeUtf8 (bs : List Nat) : Option Text := decodeUtf8F (bs.length + 1) bs

/-- a file as `BufRead::lines` yields it: `none` = `Err(InvalidData)`, the line is not valid UTF-8 -/
abbrev RawLines := List (Option Text)

/-- `BufRead::lines` on bytes: the chunks between line feeds (none for an empty tail), each decoded on its
    own; a carriage return before the line feed is dropped -/
def readRawLines (bs : List Nat) : RawLines := go bs []
where
  go : List Nat → List Nat → RawLines
    | [], acc => if acc.isEmpty then [] else [decodeUtf8 acc.reverse]
    | b :: bs, acc =>
      if b == 10 then (decodeUtf8 acc.reverse).map (fun l => finishLine l.reverse) :: go bs [] else go bs (b :: acc)

/-- one line as the loop of `run` sees it: `Err(InvalidData)` is collected as a malformed line -/
def parseRawLine (f : Flags) : Option Text → Except LineErr Rec
  | none => .error .invalidUtf8
  | some l => parseLine f.delim f.keep l

/-- `parseAll` on the lines as `BufRead::lines` yields them -/
def parseAllRaw (f : Flags) : Nat → RawLines → List Rec × List (Nat × LineErr)
  | _, [] => ([], [])
  | idx, l :: ls =>
    if f.csv && idx == 0 then parseAllRaw f (idx + 1) ls
    else match parseRawLine f l with
      | .ok r => (r :: (parseAllRaw f (idx + 1) ls).1, (parseAllRaw f (idx + 1) ls).2)
      | .error e => ((parseAllRaw f (idx + 1) ls).1, (idx, e) :: (parseAllRaw f (idx + 1) ls).2)

/-- `init_database::run` on a file given as bytes (up to `builder.build`) -/
def compileRaw (f : Flags) (src : RawLines) : CompileResult :=
  { reported := (parseAllRaw f 0 src).2.map (fun e => (e.1 + 1, e.2)),
    inserted := if !(parseAllRaw f 0 src).2.isEmpty && !f.skip then none else some (parseAllRaw f 0 src).1 }

/-! ### the dumper -/

def joinWith (sep : Text) : List Text → Text
  | [] => []
  | [t] => t
  | t :: ts => t ++ sep ++ joinWith sep ts

/-- one line of `dump` -/
def dumpLine (r : Rec) : Text :=
  r.phrase ++ dumpSsvSep1 ++ decimal r.freq ++ dumpSsvSep2 ++ joinWith dumpSsvJoin (r.syls.map spell)

/-- one line of `dump --csv` -/
def dumpCsvLine (r : Rec) : Text :=
  r.phrase ++ dumpCsvSep1 ++ decimal r.freq ++ dumpCsvSep2 ++ joinWith dumpCsvJoin (r.syls.map spell)

/-- the lines `dump` / `dump --csv` writes for the enumerated entries -/
def dump (csv : Bool) (es : List Rec) : List Text :=
  if csv then dumpCsvHeader :: es.map dumpCsvLine else es.map dumpLine

/-! ### trie back end, at the level of entry lists -/

abbrev Key := List Nat
/-- a phrase of a leaf: text and frequency -/
abbrev PF := Text × Nat
/-- the builder: one leaf per distinct key, keys and phrases in insertion order -/
abbrev TrieM := List (Key × List PF)

/-- leaf update of `TrieBuilder::insert`: the same text is replaced in place, a new one appended -/
def upsert : List PF → Text → Nat → List PF
  | [], p, f => [(p, f)]
  | (q, g) :: rest, p, f => if q = p then (p, f) :: rest else (q, g) :: upsert rest p f

/-- `TrieBuilder::insert` -/
def trieInsert : TrieM → Rec → TrieM
  | [], r => [(r.syls, [(r.phrase, r.freq)])]
  | (k, ps) :: rest, r =>
    if k = r.syls then (k, upsert ps r.phrase r.freq) :: rest else (k, ps) :: trieInsert rest r

def trieBuild (rs : List Rec) : TrieM := rs.foldl trieInsert []

/-- lexicographic order of keys by syllable code, a prefix first (children sorted by syllable, the
    leaf before the children) -/
def keyLe : Key → Key → Bool
  | [], _ => true
  | _ :: _, [] => false
  | a :: as, b :: bs => a < b || (a == b && keyLe as bs)

def insertLe {α : Type} (le : α → α → Bool) (x : α) : List α → List α
  | [] => [x]
  | y :: ys => if le x y then x :: y :: ys else y :: insertLe le x ys

/-- insertion sort (structural, so the kernel can evaluate it) -/
def insSort {α : Type} (le : α → α → Bool) (l : List α) : List α := l.foldr (insertLe le) []

def isPrefix : Key → Key → Bool
  | [], _ => true
  | _ :: _, [] => false
  | a :: as, b :: bs => a == b && isPrefix as bs

/-- maximal runs in which every key is a prefix of the next one -/
def runs : List Key → List (List Key)
  | [] => []
  | x :: xs =>
    match runs xs with
    | (y :: ys) :: rs => if isPrefix x y then (x :: y :: ys) :: rs else [x] :: (y :: ys) :: rs
    | rs => [x] :: rs

/-- the order in which `Trie::entries` visits the leaves: depth first with sorted children, every
    descent chain (a leaf, the first leaf below it, …) emitted deepest first -/
def trieOrder (ks : List Key) : List Key := (runs (insSort keyLe ks)).flatMap List.reverse

/-- `str::cmp` (bytewise on UTF-8 = lexicographic on code points, a prefix first): `a < b` -/
def textLt : Text → Text → Bool
  | _, [] => false
  | [], _ :: _ => true
  | a :: as, b :: bs => a < b || (a == b && textLt as bs)

def utf8Size (s : Text) : Nat := (s.map utf8Len).foldl (· + ·) 0

/-- the comparator of `TrieBuilder::write` returns `Less`; `mode` selects the arm for a pair of which exactly
    one is one character long: 0 = `a.len().cmp(&b.len())` (UTF-8 lengths), otherwise the one-character
    phrase first (`(1, _) => Less, (_, 1) => Greater`) -/
def phraseLessM (mode : Nat) (a b : PF) : Bool :=
  if a.1.length == 1 && b.1.length == 1 then false
  else if a.1.length == 1 || b.1.length == 1 then
    (if mode == 0 then decide (utf8Size a.1 < utf8Size b.1) else a.1.length == 1)
  else if a.2 == b.2 then textLt b.1 a.1
  else b.2 < a.2

/-- … with the arm the current source has (`Gen.trieMixedCmp`) -/
def phraseLess (a b : PF) : Bool := phraseLessM trieMixedCmp a b

/-- insertion from the right into the reversed sorted prefix -/
def insertRev {α : Type} (lt : α → α → Bool) (x : α) : List α → List α
  | [] => [x]
  | y :: ys => if lt x y then y :: insertRev lt x ys else x :: y :: ys

/-- stable insertion sort as `slice::sort_by` performs it on short slices -/
def stableSort {α : Type} (lt : α → α → Bool) (l : List α) : List α :=
  (l.foldl (fun rev x => insertRev lt x rev) []).reverse

def phraseSort (ps : List PF) : List PF := stableSort phraseLess ps

def lookup (m : TrieM) (k : Key) : List PF :=
  match m.find? (fun e => e.1 == k) with
  | some e => e.2
  | none => []

/-- `Trie::entries()` of the file written by the builder -/
def trieEntries (m : TrieM) : List Rec :=
  (trieOrder (m.map (·.1))).flatMap fun k =>
    (phraseSort (lookup m k)).map fun pf => { phrase := pf.1, freq := pf.2, syls := k }

/-- `lookup_all_phrases(key)` on the trie file: the leaf in stored order -/
def trieLookup (m : TrieM) (k : Key) : List PF := phraseSort (lookup m k)

/-! ### SQLite back end, at the level of rows -/

structure Row where
  key : Key
  phrase : Text
  freq : Nat
  sortId : Nat
deriving Repr, DecidableEq, BEq

structure SqlM where
  rows : List Row
  sortId : Nat
deriving Repr, DecidableEq

def sqlUpsert : List Row → Row → List Row
  | [], r => [r]
  | q :: rest, r => if q.key = r.key ∧ q.phrase = r.phrase then r :: rest else q :: sqlUpsert rest r

/-- `SqliteDictionaryBuilder::insert` -/
def sqlInsert (m : SqlM) (r : Rec) : SqlM :=
  let sid := if r.syls.length == 1 then m.sortId + 1 else m.sortId
  let row : Row := { key := r.syls, phrase := r.phrase, freq := r.freq,
                     sortId := if r.syls.length == 1 then sid else 0 }
  { rows := sqlUpsert m.rows row, sortId := sid }

def sqlBuild (rs : List Rec) : SqlM := rs.foldl sqlInsert { rows := [], sortId := 0 }

/-- little-endian bytes of the key (`SyllableSlice::to_bytes`) -/
def keyBytes (k : Key) : List Nat := k.flatMap fun s => [s % 256, s / 256]

/-- primary-key order: the key blob by `memcmp`, then the phrase text bytewise -/
def rowLe (a b : Row) : Bool :=
  textLt (keyBytes a.key) (keyBytes b.key) ||
  (keyBytes a.key == keyBytes b.key && !textLt b.phrase a.phrase)

/-- `SqliteDictionary::entries()` (table scan in primary-key order) -/
def sqlEntries (m : SqlM) : List Rec :=
  (insSort rowLe m.rows).map fun r => { phrase := r.phrase, freq := r.freq, syls := r.key }

/-- `ORDER BY sort_id ASC, freq DESC, phrase DESC` -/
def lookupLe (a b : Row) : Bool :=
  a.sortId < b.sortId ||
  (a.sortId == b.sortId && (b.freq < a.freq || (a.freq == b.freq && !textLt a.phrase b.phrase)))

/-- `lookup_all_phrases(key)` on the SQLite file -/
def sqlLookup (m : SqlM) (k : Key) : List PF :=
  (insSort lookupLe (m.rows.filter (fun r => r.key == k))).map fun r => (r.phrase, r.freq)

/-! ### back ends side by side -/

inductive Db where
  | trie | sqlite
deriving Repr, DecidableEq

/-- the entries the dumper enumerates after the records `rs` were inserted and the file built -/
def entries (db : Db) (rs : List Rec) : List Rec :=
  match db with
  | .trie => trieEntries (trieBuild rs)
  | .sqlite => sqlEntries (sqlBuild rs)

/-- lookup order of one key in the built dictionary -/
def dictLookup (db : Db) (rs : List Rec) (k : Key) : List PF :=
  match db with
  | .trie => trieLookup (trieBuild rs) k
  | .sqlite => sqlLookup (sqlBuild rs) k

end Chewing.Cli
