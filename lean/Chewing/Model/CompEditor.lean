import Chewing.Model.CompositionOps
/-!
`struct CompositionEditor` (`src/editor/composition_editor.rs`), every method exactly as coded.

* `cursor_stack` (field `stack`) is a `Vec<usize>`: `push` appends at the end, `pop` takes from the
  end; the model keeps the same order (`l ++ [x]`, `getLast?`, `dropLast`).
* `usize::saturating_sub` is `Nat` subtraction; `min` is `Nat.min`.
* `clear` also clears `cursor_stack` (since the `fix:` commit for DESIGN F25, see Props/C17.lean; before it
  the saved cursors survived a reset).
* `self.cursor += 1` in `insert` cannot overflow below 2^64 symbols (not modelled).
* Methods that reach a Rust `assert!` return `Outcome _`: the inner `Composition` assertions and
  `select`'s `assert!(!interval.str.is_empty())` (site `sel-empty-str`).  Methods whose only
  assertion is the `assert_eq!` inside `Composition::len()` return the value directly (see the note
  at `Composition.len`: that assertion is unreachable, `C04.len_assert_unreachable`).
-/
namespace Chewing

/-- `struct CompositionEditor` -/
structure CompEditor where
  cursor : Nat := 0
  stack : List Nat := []
  inner : Composition := {}
deriving Repr, DecidableEq, BEq, Inhabited

namespace CompEditor

/-- `Default` -/
def new : CompEditor := {}

/-- lift the `Outcome` of a call on `inner` -/
def withInner (r : Outcome Composition) (f : Composition → CompEditor) : Outcome CompEditor :=
  match r with
  | .ok c => .ok (f c)
  | .panic s => .panic s
  | .outOfFuel => .outOfFuel

/-- `to_composition` / `as_ref` -/
def toComposition (e : CompEditor) : Composition := e.inner

/-- `len` -/
def len (e : CompEditor) : Nat := e.inner.len

/-- `push_cursor` -/
def pushCursor (e : CompEditor) : CompEditor := { e with stack := e.stack ++ [e.cursor] }

/-- `pop_cursor`:
```
if let Some(cursor) = self.cursor_stack.pop() { self.cursor = cursor; }
self.cursor = min(self.cursor, self.inner.len());
``` -/
def popCursor (e : CompEditor) : CompEditor :=
  match e.stack.getLast? with
  | some c => { e with cursor := min c e.inner.len, stack := e.stack.dropLast }
  | none => { e with cursor := min e.cursor e.inner.len }

/-- `clamp_cursor`: `if self.cursor == self.inner.len() { self.cursor = self.cursor.saturating_sub(1) }` -/
def clampCursor (e : CompEditor) : CompEditor :=
  if e.cursor = e.inner.len then { e with cursor := e.cursor - 1 } else e

/-- `move_cursor` -/
def moveCursor (e : CompEditor) (cursor : Nat) : CompEditor := { e with cursor := min cursor e.inner.len }

/-- `symbol` -/
def symbol? (e : CompEditor) : Option Sym := e.inner.symbol? e.cursor

/-- `symbols` -/
def symbols (e : CompEditor) : List Sym := e.inner.symbols

/-- `is_empty` -/
def isEmpty (e : CompEditor) : Bool := e.inner.isEmpty

/-- `is_beginning_of_buffer` -/
def isBob (e : CompEditor) : Bool := 0 == e.cursor

/-- `is_end_of_buffer` -/
def isEob (e : CompEditor) : Bool := e.inner.len == e.cursor

/-- `clear`: empties the composition, resets the cursor and drops the saved cursors (F25 fix) -/
def clear (e : CompEditor) : CompEditor := { e with inner := e.inner.clear, cursor := 0, stack := [] }

/-- `remove_front` -/
def removeFront (e : CompEditor) (n : Nat) : Outcome CompEditor :=
  withInner (e.inner.removeFront n) fun c => { e with inner := c, cursor := e.cursor - n }

/-- `remove_after_cursor` -/
def removeAfterCursor (e : CompEditor) : Outcome CompEditor :=
  withInner (e.inner.remove e.cursor) fun c => { e with inner := c }

/-- `remove_before_cursor` -/
def removeBeforeCursor (e : CompEditor) : Outcome CompEditor :=
  if e.cursor = 0 then .ok e
  else withInner (e.inner.remove (e.cursor - 1)) fun c => { e with inner := c, cursor := e.cursor - 1 }

/-- `move_cursor_to_end` -/
def moveToEnd (e : CompEditor) : CompEditor := { e with cursor := e.inner.len }

/-- `move_cursor_to_beginning` -/
def moveToBeginning (e : CompEditor) : CompEditor := { e with cursor := 0 }

/-- `move_cursor_left` -/
def moveLeft (e : CompEditor) : CompEditor := { e with cursor := e.cursor - 1 }

/-- `move_cursor_right` -/
def moveRight (e : CompEditor) : CompEditor := { e with cursor := min (e.cursor + 1) e.inner.len }

/-- `insert` -/
def insert (e : CompEditor) (sym : Sym) : Outcome CompEditor :=
  withInner (e.inner.insert e.cursor sym) fun c => { e with inner := c, cursor := e.cursor + 1 }

/-- `insert_glue` / `insert_break`: no-op (with a warning) at the end of the buffer -/
def insertGap (e : CompEditor) (g : Gap) : Outcome CompEditor :=
  if e.isEob then .ok e
  else withInner (e.inner.setGap e.cursor g) fun c => { e with inner := c }

/-- `insert_glue` -/
def insertGlue (e : CompEditor) : Outcome CompEditor := e.insertGap .glue
/-- `insert_break` -/
def insertBreak (e : CompEditor) : Outcome CompEditor := e.insertGap .brk

/-- `replace` -/
def replace (e : CompEditor) (sym : Sym) : Outcome CompEditor :=
  withInner (e.inner.replace e.cursor sym) fun c => { e with inner := c }

/-- `symbol_for_select` -/
def symbolForSelect (e : CompEditor) : Option Sym :=
  e.inner.symbol? (if e.isEob then e.cursor - 1 else e.cursor)

/-- `select` -/
def select (e : CompEditor) (iv : Interval) : Outcome CompEditor :=
  if iv.text = [] then .panic "sel-empty-str"
  else withInner (e.inner.pushSelection iv) fun c => { e with inner := c }

end CompEditor

/-- the mutating methods of `CompositionEditor` as data -/
inductive CedOp where
  | pushCursor | popCursor | clampCursor
  | moveCursor (cursor : Nat)
  | clear
  | removeFront (n : Nat)
  | removeAfterCursor | removeBeforeCursor
  | moveToEnd | moveToBeginning | moveLeft | moveRight
  | insert (sym : Sym)
  | insertGlue | insertBreak
  | replace (sym : Sym)
  | select (iv : Interval)
deriving Repr, DecidableEq

namespace CompEditor

def apply (e : CompEditor) : CedOp → Outcome CompEditor
  | .pushCursor => .ok e.pushCursor
  | .popCursor => .ok e.popCursor
  | .clampCursor => .ok e.clampCursor
  | .moveCursor c => .ok (e.moveCursor c)
  | .clear => .ok e.clear
  | .removeFront n => e.removeFront n
  | .removeAfterCursor => e.removeAfterCursor
  | .removeBeforeCursor => e.removeBeforeCursor
  | .moveToEnd => .ok e.moveToEnd
  | .moveToBeginning => .ok e.moveToBeginning
  | .moveLeft => .ok e.moveLeft
  | .moveRight => .ok e.moveRight
  | .insert x => e.insert x
  | .insertGlue => e.insertGlue
  | .insertBreak => e.insertBreak
  | .replace x => e.replace x
  | .select iv => e.select iv

/-- run a list of operations, stopping at the first panic -/
def run (e : CompEditor) : List CedOp → Outcome CompEditor
  | [] => .ok e
  | op :: ops =>
    match e.apply op with
    | .ok e' => run e' ops
    | .panic s => .panic s
    | .outOfFuel => .outOfFuel

end CompEditor

end Chewing
