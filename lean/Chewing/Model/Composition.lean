import Chewing.Model.Basic
/-!
Data types of `src/conversion/mod.rs` (`Symbol`, `Gap`, `Interval`, `Composition`).
Operations live in `Model/CompositionOps.lean`; conversion engines in `Model/Conversion*.lean`.
-/
namespace Chewing

/-- `enum Symbol`: a syllable (its 16-bit code) or a direct character (its code point) -/
inductive Sym where
  | syl (code : Nat)
  | chr (cp : Nat)
deriving Repr, DecidableEq, BEq, Inhabited

def Sym.isSyl : Sym → Bool
  | .syl _ => true
  | .chr _ => false

/-- `enum Gap` (declaration order) -/
inductive Gap where
  | begin | brk | glue | normal
deriving Repr, DecidableEq, BEq, Inhabited

/-- `struct Interval`: `[start, stop)`, whether it is a dictionary phrase, and the output text -/
structure Interval where
  start : Nat
  stop : Nat
  isPhrase : Bool
  text : Text
deriving Repr, DecidableEq, BEq, Inhabited

namespace Interval

/-- `Interval::contains_range` -/
def containsRange (iv : Interval) (s e : Nat) : Bool := iv.start ≤ s && iv.stop ≥ e
/-- `Interval::contains` -/
def contains (iv other : Interval) : Bool := iv.containsRange other.start other.stop
/-- `Interval::is_contained_by` -/
def isContainedBy (iv : Interval) (s e : Nat) : Bool := s ≤ iv.start && e ≥ iv.stop
/-- `Interval::intersect_range`: `max(start, s) < min(end, e)` -/
def intersectRange (iv : Interval) (s e : Nat) : Bool := max iv.start s < min iv.stop e
/-- `Interval::intersect` -/
def intersect (iv other : Interval) : Bool := iv.intersectRange other.start other.stop
/-- `Interval::len` (`usize` subtraction: panics in the debug profile when `stop < start`) -/
def len (iv : Interval) : Nat := iv.stop - iv.start

end Interval

/-- `struct Composition` -/
structure Composition where
  symbols : List Sym := []
  gaps : List Gap := []
  selections : List Interval := []
deriving Repr, DecidableEq, BEq, Inhabited

end Chewing
