import Chewing.Model.Composition
/-!
Operations of `struct Composition` (`src/conversion/mod.rs`), exactly as coded.

Conventions

* Every `assert!` / `assert_eq!` / `assert_ne!` is an `Outcome.panic <site>` value.  The sites are
  named after the asserted expression so that the correspondence driver can compare *which*
  assertion fired:
    `len`          `assert_eq!(self.symbols.len(), self.gaps.len())` in `len()`
    `insert-index` `assert!(index <= self.len())`        (insert)
    `index`        `assert!(index < self.len())`         (set_gap, replace, remove)
    `gap-begin`    `assert_ne!(gap, Gap::Begin)`         (set_gap)
    `sel-end`      `assert!(interval.end <= self.len())` (push_selection)
    `front-n`      `assert!(n <= self.len())`            (remove_front)
    `sub-overflow` `selection.end -= …` below zero.  This is the *debug / overflow-checks* profile
                   (the one the harness is built with); it is reachable only when a selection with
                   `end < start` was pushed before (DESIGN F31: the public API accepts it).
* The removal loop `to_remove` + reverse `swap_remove` is modelled as a `filter`: the resulting
  *order* of `selections` differs from the Rust one, the *multiset* is the same.  The
  correspondence compares selections sorted on both sides; `Props/C04.lean` proves that under
  `CompInv` the ranges are pairwise disjoint, so the order is not observable by a reader that
  looks selections up by range.
* `usize` overflow of `selection.start += 1` (needs an index of 2^64-1) is not modelled.
* `self.gaps[i] = …` indexing is in range wherever the preceding assertions passed (shown by the
  frame lemmas: lengths are preserved), so `List.set` (a no-op out of range) is exact there.
-/
namespace Chewing

namespace Interval

/-- `selection.start += k; selection.end += k` -/
def shiftUp (s : Interval) (k : Nat) : Interval := { s with start := s.start + k, stop := s.stop + k }

/-- `selection.start -= k; selection.end -= k` (callers guard against underflow) -/
def shiftDown (s : Interval) (k : Nat) : Interval := { s with start := s.start - k, stop := s.stop - k }

/-- `selection.start < index && index < selection.end` -/
def strictlyInside (s : Interval) (index : Nat) : Bool := s.start < index && index < s.stop

/-- `selection.start <= index && index < selection.end` (the nested `if`s of `remove`) -/
def covers (s : Interval) (index : Nat) : Bool := s.start ≤ index && index < s.stop

end Interval

/-- `Vec::insert(index, x)` for `index ≤ len` -/
def insertAt {α : Type} (l : List α) (index : Nat) (x : α) : List α := l.take index ++ x :: l.drop index

/-- `for i in (lo..hi) { gaps[i] = Gap::Normal }` -/
def resetGaps (g : List Gap) (lo hi : Nat) : List Gap :=
  g.mapIdx (fun j x => if lo ≤ j ∧ j < hi then Gap.normal else x)

namespace Composition

/-- `Composition::new` / `Default` -/
def new : Composition := {}

/-- `Composition::len`.  The `assert_eq!(self.symbols.len(), self.gaps.len())` inside it is modelled
    (site `len`) in every *mutating* operation below; the read-only accessors are total functions of
    the state.  `C04.len_assert_unreachable` proves that the two lengths agree in every state
    reachable from `new()` by any sequence of public calls (valid or not, the fields are private), so
    the accessors are exact on every state that exists. -/
def len (c : Composition) : Nat := c.symbols.length

/-- `Composition::is_empty` -/
def isEmpty (c : Composition) : Bool := c.len == 0

/-- `Composition::symbol` -/
def symbol? (c : Composition) (index : Nat) : Option Sym :=
  if index ≥ c.len then none else c.symbols[index]?

/-- `Composition::gap` -/
def gap? (c : Composition) (index : Nat) : Option Gap :=
  if index ≥ c.len then none else c.gaps[index]?

/-- `Composition::gap_after` -/
def gapAfter? (c : Composition) (index : Nat) : Option Gap :=
  if index + 1 ≥ c.len then none else c.gaps[index + 1]?

/-- `Composition::set_gap` -/
def setGap (c : Composition) (index : Nat) (gap : Gap) : Outcome Composition :=
  if c.symbols.length ≠ c.gaps.length then .panic "len"
  else if ¬ index < c.symbols.length then .panic "index"
  else if gap = .begin then .panic "gap-begin"
  else if index = 0 then .ok c
  else .ok { c with
    selections := if gap = .brk then c.selections.filter (fun s => !s.strictlyInside index) else c.selections
    gaps := c.gaps.set index gap }

/-- gaps after `insert(index, _)`:
```
if !self.gaps.is_empty() && index != self.gaps.len() { self.gaps[index] = Gap::Normal; }
self.gaps.insert(index, Gap::Normal);
self.gaps[0] = Gap::Begin;
``` -/
def insertGaps (g : List Gap) (index : Nat) : List Gap :=
  let g1 := if !g.isEmpty && index != g.length then g.set index .normal else g
  (insertAt g1 index .normal).set 0 .begin

/-- `Composition::insert` -/
def insert (c : Composition) (index : Nat) (sym : Sym) : Outcome Composition :=
  if c.symbols.length ≠ c.gaps.length then .panic "len"
  else if ¬ index ≤ c.symbols.length then .panic "insert-index"
  else .ok {
    symbols := insertAt c.symbols index sym
    gaps := insertGaps c.gaps index
    selections := (c.selections.filter (fun s => !s.strictlyInside index)).map
      (fun s => if s.start ≥ index then s.shiftUp 1 else s) }

/-- `Composition::push` -/
def push (c : Composition) (sym : Sym) : Outcome Composition := c.insert c.len sym

/-- `Composition::replace` -/
def replace (c : Composition) (index : Nat) (sym : Sym) : Outcome Composition :=
  if c.symbols.length ≠ c.gaps.length then .panic "len"
  else if ¬ index < c.symbols.length then .panic "index"
  else setGap { c with symbols := c.symbols.set index sym } index .normal

/-- `Composition::push_selection` -/
def pushSelection (c : Composition) (iv : Interval) : Outcome Composition :=
  if c.symbols.length ≠ c.gaps.length then .panic "len"
  else if ¬ iv.stop ≤ c.symbols.length then .panic "sel-end"
  else .ok { c with
    selections := c.selections.filter (fun s => !s.intersect iv) ++ [iv]
    gaps := resetGaps c.gaps (iv.start + 1) iv.stop }

/-- `Composition::remove_front` -/
def removeFront (c : Composition) (n : Nat) : Outcome Composition :=
  if c.symbols.length ≠ c.gaps.length then .panic "len"
  else if ¬ n ≤ c.symbols.length then .panic "front-n"
  else
    let kept := c.selections.filter (fun s => !(decide (s.start < n)))
    if kept.any (fun s => decide (s.stop < n)) then .panic "sub-overflow"
    else .ok {
      symbols := c.symbols.drop n
      gaps := (c.gaps.drop n).set 0 .begin
      selections := kept.map (fun s => s.shiftDown n) }

/-- `Composition::remove` -/
def remove (c : Composition) (index : Nat) : Outcome Composition :=
  if c.symbols.length ≠ c.gaps.length then .panic "len"
  else if ¬ index < c.symbols.length then .panic "index"
  else
    let kept := c.selections.filter (fun s => !s.covers index)
    if kept.any (fun s => decide (index < s.start) && s.stop == 0) then .panic "sub-overflow"
    else .ok {
      symbols := c.symbols.eraseIdx index
      gaps := (c.gaps.eraseIdx index).set 0 .begin
      selections := kept.map (fun s => if s.start ≤ index then s else s.shiftDown 1) }

/-- `Composition::clear` -/
def clear (_ : Composition) : Composition := {}

end Composition

/-- the mutating public methods of `Composition` as data -/
inductive CompOp where
  | insert (index : Nat) (sym : Sym)
  | push (sym : Sym)
  | remove (index : Nat)
  | removeFront (n : Nat)
  | replace (index : Nat) (sym : Sym)
  | setGap (index : Nat) (gap : Gap)
  | pushSelection (iv : Interval)
  | clear
deriving Repr, DecidableEq

namespace Composition

def apply (c : Composition) : CompOp → Outcome Composition
  | .insert i x => c.insert i x
  | .push x => c.push x
  | .remove i => c.remove i
  | .removeFront n => c.removeFront n
  | .replace i x => c.replace i x
  | .setGap i g => c.setGap i g
  | .pushSelection iv => c.pushSelection iv
  | .clear => .ok c.clear

/-- run a list of operations, stopping at the first panic -/
def run (c : Composition) : List CompOp → Outcome Composition
  | [] => .ok c
  | op :: ops =>
    match c.apply op with
    | .ok c' => run c' ops
    | .panic s => .panic s
    | .outOfFuel => .outOfFuel

end Composition

end Chewing
