import Chewing.Model.Basic
import Chewing.Gen.Config
/-!
Model of the configuration part of the C API (`capi/src/io.rs`), property C16.

The state is the configuration held by a `ChewingContext`: the editor's `EditorOptions`, the installed
conversion engine, the reported layout (`kb_compat`), the keyboard / syllable editor actually in
effect, and the selection keys.  Every function interprets the tables that the translator
(`tools/extractors/config.py`) regenerates from the source on every run (`Chewing.Gen.Cfg`): option-name
lists, per-option validation / store rule, getter rule, legacy forwarders, `KeyboardLayoutCompat`
name / number tables and BOTH keyboard dispatch tables.

Encoding: an option field is a `Nat` (`bool` 0/1, `usize` its value, an enum its variant index in
declaration order).  A keyboard is its `AnyKeyboardLayout` variant index, a syllable editor its index in
`Gen.Cfg.sylCtors`, a layout its `KeyboardLayoutCompat` discriminant.  Text is a list of code points.

Not modelled (outside C16): editing buffers (`set_editor_options` clears the syllable buffer when the
language mode changes), NULL context / NULL out-pointer arguments (each returns ERROR or does nothing).
-/
namespace Chewing.Config
open Chewing Chewing.Gen.Cfg

def OK : Int := 0
def ERROR : Int := -1

/-- `struct EditorOptions` (src/editor/mod.rs), fields in declaration order — tied to the source by
    `Chewing.C16.fields_match`. -/
structure Options where
  easySymbolInput : Nat
  escClearAllBuffer : Nat
  spaceIsSelectKey : Nat
  autoShiftCursor : Nat
  phraseChoiceRearward : Nat
  disableAutoLearnPhrase : Nat
  autoCommitThreshold : Nat
  candidatesPerPage : Nat
  languageMode : Nat
  characterForm : Nat
  userPhraseAddDir : Nat
  lookupStrategy : Nat
  conversionEngine : Nat
  enableFullwidthToggleKey : Nat
deriving DecidableEq, Repr

/-- the names of the fields above, in order, spelled as in the Rust source -/
def Options.fieldNames : List String :=
  ["easy_symbol_input", "esc_clear_all_buffer", "space_is_select_key", "auto_shift_cursor",
   "phrase_choice_rearward", "disable_auto_learn_phrase", "auto_commit_threshold", "candidates_per_page",
   "language_mode", "character_form", "user_phrase_add_dir", "lookup_strategy", "conversion_engine",
   "enable_fullwidth_toggle_key"]

def nFields : Nat := 14

/-- read field number `i` (0 for an index that is not a field) -/
def Options.get (o : Options) (i : Nat) : Nat :=
  match i with
  | 0 => o.easySymbolInput | 1 => o.escClearAllBuffer | 2 => o.spaceIsSelectKey | 3 => o.autoShiftCursor
  | 4 => o.phraseChoiceRearward | 5 => o.disableAutoLearnPhrase | 6 => o.autoCommitThreshold
  | 7 => o.candidatesPerPage | 8 => o.languageMode | 9 => o.characterForm | 10 => o.userPhraseAddDir
  | 11 => o.lookupStrategy | 12 => o.conversionEngine | 13 => o.enableFullwidthToggleKey
  | _ => 0

/-- write field number `i` (no effect for an index that is not a field) -/
def Options.set (o : Options) (i v : Nat) : Options :=
  match i with
  | 0 => { o with easySymbolInput := v } | 1 => { o with escClearAllBuffer := v }
  | 2 => { o with spaceIsSelectKey := v } | 3 => { o with autoShiftCursor := v }
  | 4 => { o with phraseChoiceRearward := v } | 5 => { o with disableAutoLearnPhrase := v }
  | 6 => { o with autoCommitThreshold := v } | 7 => { o with candidatesPerPage := v }
  | 8 => { o with languageMode := v } | 9 => { o with characterForm := v }
  | 10 => { o with userPhraseAddDir := v } | 11 => { o with lookupStrategy := v }
  | 12 => { o with conversionEngine := v } | 13 => { o with enableFullwidthToggleKey := v }
  | _ => o

def Options.ofList (l : List Nat) : Options :=
  let g := fun i => l.getD i 0
  ⟨g 0, g 1, g 2, g 3, g 4, g 5, g 6, g 7, g 8, g 9, g 10, g 11, g 12, g 13⟩

def Options.toList (o : Options) : List Nat := (List.range nFields).map o.get

/-- the configuration held by a `ChewingContext` -/
structure Ctx where
  opts : Options
  /-- installed conversion engine (index in `Gen.Cfg.engineCtors`) -/
  engine : Nat
  /-- `kb_compat`: the layout reported as current -/
  kbCompat : Nat
  /-- `keyboard`: the keyboard in effect -/
  keyboard : Nat
  /-- the syllable editor in effect (`editor.shared.syl`) -/
  syl : Nat
  /-- `sel_keys` -/
  selKeys : List Int
deriving DecidableEq, Repr

/-- `chewing_new2` + `Editor::new` + `EditorOptions::default()` -/
def init : Ctx :=
  { opts := Options.ofList optDefaults, engine := initEngine, kbCompat := initCompat,
    keyboard := initKeyboard, syl := initSyl, selKeys := initSelKeys }

-- ---------------------------------------------------------------------------------------------
-- integer options

/-- first-match lookup in an association list (a Rust `match` over literal patterns) -/
def assoc {α β : Type} [DecidableEq α] (a : α) : List (α × β) → Option β
  | [] => none
  | (k, b) :: es => if a = k then some b else assoc a es

def Rej.holds (v : Int) : Rej → Bool
  | .eq k => v == k
  | .gt k => decide (v > k)
  | .lt k => decide (v < k)
  | .notIn lo hi => !(decide (lo ≤ v) && decide (v ≤ hi))

/-- Rust `value as usize` (64-bit) -/
def asUsize (v : Int) : Nat := (v % 18446744073709551616).toNat

/-- field writes, in order -/
def applyWrites (ws : List (Nat × Nat)) (o : Options) : Options := ws.foldl (fun o w => o.set w.1 w.2) o

/-- one arm of `chewing_config_set_int` on field `f`: `none` = `return ERROR` (nothing written yet);
    otherwise the field writes on the local copy of the options and the engine installed, if any -/
def ruleEffect (f : Nat) (rule : SetRule) (v : Int) : Option (List (Nat × Nat) × Option Nat) :=
  match rule with
  | .bool => if v = 0 ∨ v = 1 then some ([(f, if v > 0 then 1 else 0)], none) else none
  | .num rej => if rej.any (Rej.holds v) then none else some ([(f, asUsize v)], none)
  | .enum arms => (assoc v arms).map fun var => ([(f, var)], none)
  | .engine arms => (assoc v arms).map fun (e, s, k) => ([(lookupStrategyField, s), (f, k)], some e)

/-- validation part of `chewing_config_set_int(ctx, name, value)`; independent of the context -/
def setIntEffect (name : String) (v : Int) : Option (List (Nat × Nat) × Option Nat) :=
  if setIntRejectsNegative && decide (v < 0) then none
  else (assoc name setIntArms).bind fun (f, rule) => ruleEffect f rule v

/-- `chewing_config_set_int(ctx, name, value)`: new context and return code.  On acceptance the options
    copy is written back (`set_editor_options`) and OK returned; on rejection nothing has been touched. -/
def setInt (name : String) (v : Int) (c : Ctx) : Ctx × Int :=
  match setIntEffect name v with
  | none => (c, ERROR)
  | some (ws, e) => ({ c with opts := applyWrites ws c.opts, engine := e.getD c.engine }, OK)

/-- value returned by `get_int` for a field whose content is not a variant of its enum (unreachable:
    `Chewing.C16.getters_in_range`); Rust's `match` is exhaustive, so there is no such path in the code -/
def illTyped : Int := -2

def readRule (f : Nat) (g : GetRule) (c : Ctx) : Int :=
  match g with
  | .cast => (c.opts.get f : Int)
  | .enum arms => (assoc (c.opts.get f) arms).getD illTyped

/-- `chewing_config_get_int(ctx, name)` -/
def getInt (name : String) (c : Ctx) : Int :=
  match assoc name getIntArms with
  | none => ERROR
  | some (f, g) => readRule f g c

/-- `chewing_config_has_option(ctx, name)` -/
def hasOption (name : String) : Int := if name ∈ hasOptionNames then 1 else 0

-- ---------------------------------------------------------------------------------------------
-- legacy integer setters / getters

/-- `chewing_set_<X>(ctx, v)` (returns nothing) -/
def legacySet (fn : String) (v : Int) (c : Ctx) : Ctx :=
  match assoc fn legacySetters with
  | some name => (setInt name v c).1
  | none => c

/-- `chewing_get_<X>(ctx)` -/
def legacyGet (fn : String) (c : Ctx) : Int :=
  match assoc fn legacyGetters with
  | some name => getInt name c
  | none => ERROR

-- ---------------------------------------------------------------------------------------------
-- keyboard layout

def kbTypeName : String := "chewing.keyboard_type"
def selKeysName : String := "chewing.selection_keys"

def pairByName (k : Nat) : Nat × Nat := kbByName.getD k (0, 0)
def pairByNum (k : Nat) : Nat × Nat := kbByNum.getD k (0, 0)

/-- `KeyboardLayoutCompat::try_from` applied to the C `int` (truncated to 8 bits first iff the source says so),
    falling back to `KB::Default` -/
def kbOfNum (n : Int) : Nat :=
  let byte : Option Nat :=
    if kbTypeTruncates then some (n % 256).toNat
    else if 0 ≤ n ∧ n ≤ 255 then some n.toNat else none
  match byte.bind (fun b => assoc b kbTryFrom) with
  | some k => k
  | none => kbDefault

/-- `chewing_set_KBType(ctx, kbtype)` -/
def setKBType (n : Int) (c : Ctx) : Ctx × Int :=
  let k := kbOfNum n
  let p := pairByNum k
  ({ c with kbCompat := k, keyboard := p.1, syl := p.2 },
   if k = kbDefault ∧ (k : Int) ≠ n then -1 else 0)

/-- `chewing_get_KBType(ctx)` -/
def getKBType (c : Ctx) : Int := c.kbCompat

/-- `chewing_get_KBString(ctx)` -/
def getKBString (c : Ctx) : Text := kbDisplayText.getD c.kbCompat []

/-- `chewing_KBStr2Num(str)` -/
def kbStr2Num (s : Text) : Int := ((assoc s kbFromStrText).getD kbStr2NumDefault : Nat)

-- ---------------------------------------------------------------------------------------------
-- selection keys and the string options

def utf8Len (cp : Nat) : Nat :=
  if cp < 0x80 then 1 else if cp < 0x800 then 2 else if cp < 0x10000 then 3 else 4

def utf8Size (s : Text) : Nat := (s.map utf8Len).sum

def maxSelKey : Nat := 10

/-- `[0; MAX_SELKEY]` overwritten from the front -/
def padKeys (ks : List Int) : List Int := (ks ++ List.replicate maxSelKey 0).take maxSelKey

/-- `chewing_config_set_str(ctx, name, value)`; `value` after `to_string_lossy` -/
def setStr (name : String) (value : Text) (c : Ctx) : Ctx × Int :=
  if name ∉ setStrNames then (c, ERROR)
  else if name = kbTypeName then
    match assoc value kbFromStrText with
    | none => (c, ERROR)
    | some k =>
      let p := pairByName k
      ({ c with kbCompat := k, keyboard := p.1, syl := p.2 }, OK)
  else if name = selKeysName then
    if utf8Size value ≠ selKeysStrLen ∨ (selKeysRequireAscii = true ∧ ¬ value.all (· < 128)) then (c, ERROR)
    else ({ c with selKeys := padKeys (value.map Int.ofNat) }, OK)
  else (c, ERROR)

/-- `char::from(key as u8)` for every selection key -/
def selKeysText (c : Ctx) : Text := c.selKeys.map fun k => (k % 256).toNat

/-- `chewing_config_get_str(ctx, name, &out)`: return code and the string handed out.
    `panic` = the process aborts (only if the source still has the `expect`). -/
def getStr (name : String) (c : Ctx) : Outcome (Int × Option Text) :=
  if name ∉ getStrNames then .ok (ERROR, none)
  else
    let s := if name = kbTypeName then getKBString c else selKeysText c
    if s.contains 0 then
      if getStrAbortsOnNul then .panic "capi/src/io.rs chewing_config_get_str: CString::new(..).expect" else .ok (ERROR, none)
    else .ok (OK, some s)

/-- `chewing_set_selKey(ctx, keys, len)`: `keys` are the `len` integers read when the call is not ignored -/
def setSelKey (keys : List Int) (len : Int) (c : Ctx) : Ctx :=
  if len ≠ setSelKeyLen then c else { c with selKeys := keys }

/-- `chewing_get_selKey(ctx)` -/
def getSelKey (c : Ctx) : List Int := c.selKeys

/-- `chewing_Configure(ctx, pcd)`: the listed setters in order; `field` gives the integer members of
    `ChewingConfigData`, `selKey` its `sel_key` array -/
def configure (field : String → Int) (selKey : List Int) (c : Ctx) : Ctx :=
  configureCalls.foldl (fun c (call : String × String) =>
    if call.1 = "chewing_set_selKey" then setSelKey selKey maxSelKey c else legacySet call.1 (field call.2) c) c

-- ---------------------------------------------------------------------------------------------
-- histories

/-- a configuration call -/
inductive Op where
  | setInt (name : String) (v : Int)
  | setStr (name : String) (value : Text)
  | legacySet (fn : String) (v : Int)
  | setKBType (n : Int)
  | setSelKey (keys : List Int) (len : Int)
  | configure (field : String → Int) (selKey : List Int)

def step (c : Ctx) : Op → Ctx
  | .setInt name v => (setInt name v c).1
  | .setStr name value => (setStr name value c).1
  | .legacySet fn v => legacySet fn v c
  | .setKBType n => (setKBType n c).1
  | .setSelKey keys len => setSelKey keys len c
  | .configure field selKey => configure field selKey c

def run (ops : List Op) : Ctx := ops.foldl step init

/-- contexts that some history of configuration calls produces from a fresh context -/
def Reachable (c : Ctx) : Prop := ∃ ops, c = run ops

end Chewing.Config
