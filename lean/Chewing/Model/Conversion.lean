import Chewing.Model.Composition
import Chewing.Model.Dict
import Chewing.Model.Syllable
/-!
Model of `src/conversion/chewing.rs` (`ChewingEngine`; `FuzzyChewingEngine` is the same engine with
`LookupStrategy::FuzzyPartialPrefix`, `src/conversion/fuzzy.rs`).

Function by function as coded; the dictionary is abstract (`Dict` = the lookup function).

* Rust panics are `Outcome.panic` values: the `unwrap()` on "no path" (F02: unreachable on a valid
  composition since `find_best_phrase` falls back to the spelling of a word-less syllable), `usize` subtraction
  underflow (`selection.end - selection.start`, `start * len + end - 1`), slice index out of range,
  `debug_assert!`s, `i32`/`u32` overflow of the scoring rules (debug profile: overflow checks on).
* Loops: `for` loops are structural recursion over the index list; the two `while` loops of
  `shortest_path` take fuel (`Outcome.outOfFuel` when exhausted; `Props/C03.lean` proves the fuel
  supplied by `shortestPath` always suffices).
* `candidates.sort_unstable_by_key(|k| k.len()); ksp.push(candidates.swap_remove(0))` is only
  determined up to ties (trusted: `sort_unstable_by_key` returns *some* sorted permutation).  The model
  is parametric in a pick oracle `pick kth candidates = index of the candidate taken`; `candidates`
  is kept as a list whose order is immaterial (every later use is a membership test or the oracle).
  The theorems hold for every oracle; the correspondence driver replays the implementation's picks
  (exported by the `hook:` `ChewingEngine::verif_k_paths`) after checking each is a minimal-length
  candidate.
* a `PossiblePhrase::Symbol` is only ever built from a `Symbol::Char`, so it is modelled by the code
  point (`PPhrase.chr`); `Vec<bool> removed_edges` is the list of indices set to `true`.
-/
namespace Chewing.Conv

/-- `Composition::len` (the `assert_eq!(symbols.len(), gaps.len())` is an invariant of the Rust type:
    the fields are private and every operation keeps them equal) -/
def clen (c : Composition) : Nat := c.symbols.length

/-- `Composition::gap` -/
def gapAt (c : Composition) (i : Nat) : Option Gap :=
  if i < c.symbols.length then c.gaps[i]? else none

/-- `&com.symbols[begin..end]` (`begin ≤ end ≤ len` at the only call site) -/
def slice (c : Composition) (s e : Nat) : List Sym := (c.symbols.drop s).take (e - s)

/-- `impl SyllableSlice for &[Symbol]`: `map_while` over the leading syllables -/
def sylPrefix : List Sym → List Nat
  | .syl k :: r => k :: sylPrefix r
  | _ => []

/-- `enum PossiblePhrase` -/
inductive PPhrase where
  | chr (cp : Nat)
  | phrase (p : Phrase)
deriving Repr, DecidableEq, Inhabited

def PPhrase.freq : PPhrase → Nat
  | .chr _ => 0
  | .phrase p => p.freq

/-- `From<PossiblePhrase> for Box<str>` -/
def PPhrase.text : PPhrase → Text
  | .chr cp => [cp]
  | .phrase p => p.text

/-- `struct PossibleInterval` -/
structure Edge where
  start : Nat
  stop : Nat
  phrase : PPhrase
deriving Repr, DecidableEq, Inhabited

abbrev Path := List Edge

/-! ### `find_best_phrase` -/

/-- `for i in (start..end).skip(1) { if let Some(Gap::Break) = com.gap(i) { return None } }` -/
def hasBreakInside (c : Composition) (s e : Nat) : Bool :=
  (List.range' (s + 1) (e - (s + 1))).any fun i => decide (gapAt c i = some Gap.brk)

/-- a selection that intersects `[s, e)` without being contained in it -/
def selConflict (c : Composition) (s e : Nat) : Bool :=
  c.selections.any fun sel => sel.intersectRange s e && !sel.isContainedBy s e

/-- the inner `for selection in &com.selections` of the phrase loop: `ok false` = `continue 'next_phrase` -/
def phraseOk (s e : Nat) (p : Phrase) : List Interval → Outcome Bool
  | [] => .ok true
  | sel :: rest =>
    if sel.text = [] then .panic "debug_assert!(!selection.str.is_empty())"
    else if s ≤ sel.start ∧ e ≥ sel.stop then
      if sel.stop < sel.start then .panic "attempt to subtract with overflow (selection.end - selection.start)"
      else if (p.text.drop (sel.start - s)).take (sel.stop - sel.start) ≠ sel.text then .ok false
      else phraseOk s e p rest
    else phraseOk s e p rest

/-- the `'next_phrase` loop: keeps the first phrase of maximal frequency among the acceptable ones
    (`max_freq` is `0` while `best_phrase` is `None` and `best.freq` afterwards) -/
def pickBest (sels : List Interval) (s e : Nat) : List Phrase → Option Phrase → Outcome (Option Phrase)
  | [], best => .ok best
  | p :: ps, best =>
    match phraseOk s e p sels with
    | .ok true =>
      if (match best with | none => true | some b => decide (p.freq > b.freq)) then pickBest sels s e ps (some p)
      else pickBest sels s e ps best
    | .ok false => pickBest sels s e ps best
    | .panic m => .panic m
    | .outOfFuel => .outOfFuel

/-- `if start == selection.start && end == selection.end { Some(Phrase::new(selection.str, 0)) }` -/
def forcedSel (c : Composition) (s e : Nat) : Option Phrase :=
  (c.selections.find? fun sel => decide (s = sel.start) && decide (e = sel.stop)).map
    fun sel => { text := sel.text, freq := 0, lastUsed := none }

/-- the fallback of a one-syllable range without any acceptable word and without a forced selection:
    `Phrase::new(syllable.to_string(), 0)`, the syllable's own spelling (what `SimpleEngine` shows) -/
def spelledSyl : List Sym → Option Phrase
  | [.syl k] => some { text := spell k, freq := 0, lastUsed := none }
  | _ => none

/-- `ChewingEngine::find_best_phrase(dict, start, &com.symbols[start..end], com)`: an empty range is
    not an interval (whatever is stored under the empty key, F39); a one-syllable range always has a
    phrase — the best word, a forced selection, or the spelling (F02 / F03 repair) -/
def findBestPhrase (d : Dict) (strat : Strategy) (c : Composition) (s e : Nat) : Outcome (Option PPhrase) :=
  if (slice c s e).isEmpty then .ok none
  else if hasBreakInside c s e then .ok none
  else if selConflict c s e then .ok none
  else
    match slice c s e with
    | [.chr cp] => .ok (some (.chr cp))
    | syms =>
      if syms.any (fun sym => !sym.isSyl) then .ok none
      else
        match pickBest c.selections s e (d.lookup (sylPrefix syms) strat) none with
        | .ok (some p) => .ok (some (.phrase p))
        | .ok none => .ok (((forcedSel c s e).or (spelledSyl syms)).map .phrase)
        | .panic m => .panic m
        | .outOfFuel => .outOfFuel

/-! ### `find_intervals` -/

/-- the `(begin, end)` pairs in loop order: `for begin in 0..len { for end in begin..=len {..} }` -/
def pairs (n : Nat) : List (Nat × Nat) :=
  (List.range n).flatMap fun b => (List.range' b (n + 1 - b)).map fun e => (b, e)

def collectEdges (d : Dict) (strat : Strategy) (c : Composition) : List (Nat × Nat) → Outcome (List Edge)
  | [] => .ok []
  | (b, e) :: rest =>
    match findBestPhrase d strat c b e with
    | .ok r =>
      match collectEdges d strat c rest with
      | .ok es => .ok (match r with | some ph => ⟨b, e, ph⟩ :: es | none => es)
      | .panic m => .panic m
      | .outOfFuel => .outOfFuel
    | .panic m => .panic m
    | .outOfFuel => .outOfFuel

/-- `ChewingEngine::find_intervals` -/
def findIntervals (d : Dict) (strat : Strategy) (c : Composition) : Outcome (List Edge) :=
  collectEdges d strat c (pairs c.symbols.length)

/-! ### `shortest_path` -/

/-- `graph[node]` (`graph[edge.start].push(edge)` in interval order); empty for `node ≥ len` as `graph.get` -/
def outEdges (es : List Edge) (node : Nat) : List Edge := es.filter fun e => decide (e.start = node)

/-- index into `removed_edges`: `edge.start * len + edge.end - 1` with the `usize` underflow and the
    bounds check of `Vec<bool>` of length `len * len` -/
def edgeIdx (len : Nat) (e : Edge) : Outcome Nat :=
  if e.start * len + e.stop = 0 then .panic "attempt to subtract with overflow (start * len + end - 1)"
  else if e.start * len + e.stop - 1 < len * len then .ok (e.start * len + e.stop - 1)
  else .panic "index out of bounds (removed_edges)"

/-- the `for edge in next_edges` loop; the `Bool` is `break 'bfs` -/
def bfsEdges (len : Nat) (removed : List Nat) :
    List Edge → List (Option Edge) → List Nat → Outcome (List (Option Edge) × List Nat × Bool)
  | [], par, q => .ok (par, q, false)
  | e :: es, par, q =>
    match edgeIdx len e with
    | .ok idx =>
      if idx ∈ removed then bfsEdges len removed es par q
      else
        match par[e.stop]? with
        | none => .panic "index out of bounds (parent)"
        | some slot =>
          let par' := if slot.isNone then par.set e.stop (some e) else par
          let q' := if slot.isNone then q ++ [e.stop] else q
          if e.stop = len then .ok (par', q', true) else bfsEdges len removed es par' q'
    | .panic m => .panic m
    | .outOfFuel => .outOfFuel

/-- `'bfs: while !queue.is_empty()` -/
def bfsLoop (es : List Edge) (len : Nat) (removed : List Nat) :
    Nat → List (Option Edge) → List Nat → Outcome (List (Option Edge))
  | _, par, [] => .ok par
  | 0, _, _ :: _ => .outOfFuel
  | fuel + 1, par, node :: q =>
    match bfsEdges len removed (outEdges es node) par q with
    | .ok (par', q', brk) => if brk then .ok par' else bfsLoop es len removed fuel par' q'
    | .panic m => .panic m
    | .outOfFuel => .outOfFuel

/-- `while node != source { let interval = parent[node]?; node = interval.start; path.push(..) }`
    followed by `path.reverse()` (built by consing) -/
def walkBack (par : List (Option Edge)) (source : Nat) : Nat → Nat → Path → Outcome (Option Path)
  | fuel, node, acc =>
    if node = source then .ok (some acc)
    else
      match fuel with
      | 0 => .outOfFuel
      | fuel + 1 =>
        match par[node]? with
        | none => .panic "index out of bounds (parent)"
        | some none => .ok none
        | some (some e) => walkBack par source fuel e.start (e :: acc)

/-- `ChewingEngine::shortest_path(graph, removed_edges, source, len)` -/
def shortestPath (es : List Edge) (len : Nat) (removed : List Nat) (source : Nat) : Outcome (Option Path) :=
  match bfsLoop es len removed (len + 2) (List.replicate (len + 1) none) [source] with
  | .ok par => walkBack par source (len + 1) len []
  | .panic m => .panic m
  | .outOfFuel => .outOfFuel

/-! ### `find_k_paths` -/

/-- `for p in &ksp { if i < p.len() { removed_edges[idx(p[i])] = true } }` -/
def markAll (len : Nat) : List Edge → List Nat → Outcome (List Nat)
  | [], removed => .ok removed
  | e :: es, removed =>
    match edgeIdx len e with
    | .ok idx => markAll len es (if idx ∈ removed then removed else idx :: removed)
    | .panic m => .panic m
    | .outOfFuel => .outOfFuel

/-- `for i in 0..ksp[prev].len()` -/
def spurLoop (es : List Edge) (len : Nat) (ksp : List Path) (prev : Path) :
    List Nat → List Path → List Nat → Outcome (List Path × List Nat)
  | [], cands, removed => .ok (cands, removed)
  | i :: is, cands, removed =>
    match markAll len (ksp.filterMap (·[i]?)) removed with
    | .ok removed' =>
      match prev[i]? with
      | none => .panic "index out of bounds (ksp[prev][i])"
      | some spurEdge =>
        match shortestPath es len removed' spurEdge.start with
        | .ok spur =>
          let cands' := match spur with
            | some sp => if prev.take i ++ sp ∈ ksp then cands else cands ++ [prev.take i ++ sp]
            | none => cands
          spurLoop es len ksp prev is cands' removed'
        | .panic m => .panic m
        | .outOfFuel => .outOfFuel
    | .panic m => .panic m
    | .outOfFuel => .outOfFuel

/-- `for kth in 1..k`; `rem` = iterations left -/
def kLoop (pick : Nat → List Path → Nat) (es : List Edge) (len : Nat) :
    Nat → Nat → List Path → List Path → List Nat → Outcome (List Path)
  | 0, _, ksp, _, _ => .ok ksp
  | rem + 1, kth, ksp, cands, removed =>
    match ksp.getLast? with
    | none => .panic "index out of bounds (ksp[prev])"
    | some prev =>
      match spurLoop es len ksp prev (List.range prev.length) cands removed with
      | .ok (cands', removed') =>
        if cands' = [] then .ok ksp
        else
          match cands'[pick kth cands']? with
          | none => .panic "pick oracle out of range"
          | some chosen => kLoop pick es len rem (kth + 1) (ksp ++ [chosen]) (cands'.eraseIdx (pick kth cands')) removed'
      | .panic m => .panic m
      | .outOfFuel => .outOfFuel

/-- `ChewingEngine::find_k_paths(k, len, intervals)` -/
def findKPaths (pick : Nat → List Path → Nat) (k len : Nat) (es : List Edge) : Outcome (List Path) :=
  if es.any (fun e => decide (len ≤ e.start)) then .panic "index out of bounds (graph[edge.start])"
  else
    match shortestPath es len [] 0 with
    | .ok (some p) => kLoop pick es len (k - 1) 1 [p] [] []
    | .ok none => .panic "called `Option::unwrap()` on a `None` value (no path)"
    | .panic m => .panic m
    | .outOfFuel => .outOfFuel

/-- the canonical oracle: first candidate of minimal length (what a stable sort would take) -/
def pickFirstMin (_kth : Nat) (cands : List Path) : Nat :=
  match cands.map (·.length) |>.min? with
  | none => 0
  | some m => (cands.findIdx? fun p => decide (p.length = m)).getD 0

/-! ### `trim_paths` -/

/-- inner loop of `PossiblePath::contains`: advance `big` to the first interval containing `o`,
    `none` = `return false` -/
def advance (o : Edge) : List Edge → Option (List Edge)
  | [] => none
  | b :: bs =>
    if b.start < o.stop then
      if b.start ≤ o.start ∧ b.stop ≥ o.stop then some (b :: bs) else advance o bs
    else none

/-- `PossiblePath::contains` -/
def pathContains : List Edge → List Edge → Bool
  | _, [] => true
  | big, o :: os =>
    match advance o big with
    | none => false
    | some big' => pathContains big' os

/-- `for p in trimmed_paths.into_iter()`; returns `(keeper, drop_candidate)` -/
def trimInner (cand : Path) : List Path → Bool → List Path → List Path × Bool
  | [], drop, keeper => (keeper, drop)
  | p :: ps, drop, keeper =>
    if drop || pathContains p cand then trimInner cand ps true (keeper ++ [p])
    else if pathContains cand p then trimInner cand ps false keeper
    else trimInner cand ps false (keeper ++ [p])

def trimStep (trimmed : List Path) (cand : Path) : List Path :=
  let r := trimInner cand trimmed false []
  if r.2 then r.1 else r.1 ++ [cand]

/-- `ChewingEngine::trim_paths` -/
def trimPaths (paths : List Path) : List Path := paths.foldl trimStep []

/-! ### scoring (`impl PossiblePath`) and the stable sort -/

def i32Max : Int := 2147483647
def i32Min : Int := -2147483648

/-- checked `i32` result (debug profile) -/
def chkI32 (site : String) (x : Int) : Outcome Int :=
  if i32Min ≤ x ∧ x ≤ i32Max then .ok x else .panic site

/-- `usize as i32` (wrapping cast) -/
def asI32 (n : Nat) : Int :=
  if n % 4294967296 < 2147483648 then (n % 4294967296 : Nat) else ((n % 4294967296 : Nat) : Int) - 4294967296

def Edge.len (e : Edge) : Nat := e.stop - e.start

def ruleLargestSum (p : Path) : Int := asI32 ((p.map Edge.len).sum)

def ruleLargestAvgWordLen (p : Path) : Outcome Int :=
  if p = [] then .ok 0
  else
    match chkI32 "attempt to multiply with overflow (6 * sum)" (6 * ruleLargestSum p) with
    | .ok x =>
      if (p.length : Int) ≤ i32Max then .ok (Int.tdiv x p.length)
      else .panic "number of intervals should be small"
    | .panic m => .panic m
    | .outOfFuel => .outOfFuel

def absDiff (a b : Nat) : Nat := if a ≤ b then b - a else a - b

/-- `Σ_{i<j} |len i - len j|` -/
def lenVarianceSum : List Edge → Nat
  | [] => 0
  | e :: es => (es.map fun f => absDiff e.len f.len).sum + lenVarianceSum es

def ruleSmallestLenVariance (p : Path) : Outcome Int :=
  if (lenVarianceSum p : Int) ≤ i32Max then .ok (-(lenVarianceSum p : Int)) else .panic "score should fit in i32"

def freqSum (p : Path) : Nat := (p.map fun e => e.phrase.freq / (if e.len = 1 then 512 else 1)).sum

/-- `u32` accumulation with overflow checks, then `i32::try_from`: either way a sum above `i32::MAX`
    panics in the debug profile (partial sums are monotone) -/
def ruleLargestFreqSum (p : Path) : Outcome Int :=
  if (freqSum p : Int) ≤ i32Max then .ok (freqSum p) else .panic "score should fit in i32"

/-- `PossiblePath::score` with every intermediate `i32` operation checked -/
def score (p : Path) : Outcome Int :=
  match chkI32 "mul" (1000 * ruleLargestSum p) with
  | .ok s1 =>
    match ruleLargestAvgWordLen p with
    | .ok b =>
      match chkI32 "mul" (1000 * b) with
      | .ok b1 =>
        match chkI32 "add" (s1 + b1) with
        | .ok s2 =>
          match ruleSmallestLenVariance p with
          | .ok v =>
            match chkI32 "mul" (100 * v) with
            | .ok v1 =>
              match chkI32 "add" (s2 + v1) with
              | .ok s3 =>
                match ruleLargestFreqSum p with
                | .ok f => chkI32 "add" (s3 + f)
                | .panic m => .panic m
                | .outOfFuel => .outOfFuel
              | .panic m => .panic m
              | .outOfFuel => .outOfFuel
            | .panic m => .panic m
            | .outOfFuel => .outOfFuel
          | .panic m => .panic m
          | .outOfFuel => .outOfFuel
        | .panic m => .panic m
        | .outOfFuel => .outOfFuel
      | .panic m => .panic m
      | .outOfFuel => .outOfFuel
    | .panic m => .panic m
    | .outOfFuel => .outOfFuel
  | .panic m => .panic m
  | .outOfFuel => .outOfFuel

def scoreAll : List Path → Outcome (List (Int × Path))
  | [] => .ok []
  | p :: ps =>
    match score p with
    | .ok s =>
      match scoreAll ps with
      | .ok r => .ok ((s, p) :: r)
      | .panic m => .panic m
      | .outOfFuel => .outOfFuel
    | .panic m => .panic m
    | .outOfFuel => .outOfFuel

/-- stable insertion: `x` goes before the first element with a score `≤` its own -/
def insertDesc (x : Int × Path) : List (Int × Path) → List (Int × Path)
  | [] => [x]
  | y :: ys => if y.1 ≤ x.1 then x :: y :: ys else y :: insertDesc x ys

/-- `sort_by(|a, b| b.cmp(a))`: stable, descending by score -/
def sortDesc : List (Int × Path) → List (Int × Path)
  | [] => []
  | x :: xs => insertDesc x (sortDesc xs)

/-- a slice of fewer than two elements is never compared, so `score()` is not evaluated -/
def sortPaths (paths : List Path) : Outcome (List Path) :=
  if paths.length < 2 then .ok paths
  else
    match scoreAll paths with
    | .ok sp => .ok ((sortDesc sp).map (·.2))
    | .panic m => .panic m
    | .outOfFuel => .outOfFuel

/-! ### `glue_fn` and `ChewingEngine::convert` -/

/-- `From<PossibleInterval> for Interval` -/
def toInterval (e : Edge) : Interval :=
  { start := e.start, stop := e.stop,
    isPhrase := (match e.phrase with | .chr _ => false | .phrase _ => true),
    text := e.phrase.text }

/-- `glue_fn(com, acc, interval)` on the *reversed* accumulator (`acc.last()` = head) -/
def glueStep (c : Composition) (racc : List Interval) (iv : Interval) : List Interval :=
  match racc with
  | [] => [iv]
  | last :: rest =>
    if !last.isPhrase || !iv.isPhrase then iv :: last :: rest
    else if gapAt c last.stop = some Gap.glue then
      { start := last.start, stop := iv.stop, isPhrase := true, text := last.text ++ iv.text } :: rest
    else iv :: last :: rest

/-- `.map(|it| it.into()).fold(vec![], |acc, interval| glue_fn(comp, acc, interval))` -/
def gluePath (c : Composition) (p : Path) : List Interval :=
  ((p.map toInterval).foldl (glueStep c) []).reverse

def maxOutPaths : Nat := 100

/-- `find_intervals` followed by `find_k_paths(MAX_OUT_PATHS, comp.len(), intervals)` -/
def rawPaths (pick : Nat → List Path → Nat) (d : Dict) (strat : Strategy) (c : Composition) : Outcome (List Path) :=
  match findIntervals d strat c with
  | .ok es => findKPaths pick maxOutPaths c.symbols.length es
  | .panic m => .panic m
  | .outOfFuel => .outOfFuel

/-- `trim_paths`, the stable sort by descending score, and the glue fold of every path -/
def finishPaths (c : Composition) (paths : List Path) : Outcome (List (List Interval)) :=
  if trimPaths paths = [] then .panic "debug_assert!(!trimmed_paths.is_empty())"
  else
    match sortPaths (trimPaths paths) with
    | .ok sorted => .ok (sorted.map (gluePath c))
    | .panic m => .panic m
    | .outOfFuel => .outOfFuel

/-- `ChewingEngine::convert(dict, comp)` collected: all alternatives in order -/
def convertChewing (pick : Nat → List Path → Nat) (d : Dict) (strat : Strategy) (c : Composition) :
    Outcome (List (List Interval)) :=
  if c.symbols.length = 0 then .ok [[]]
  else
    match rawPaths pick d strat c with
    | .ok paths => finishPaths c paths
    | .panic m => .panic m
    | .outOfFuel => .outOfFuel

end Chewing.Conv
