import Chewing.Model.Conversion
import Chewing.Model.Syllable
/-!
Model of `src/conversion/simple.rs` (`SimpleEngine::convert`) and the engine dispatch
(`trait ConversionEngine`).  The simple engine has no panic site: both `unwrap()`s are guarded by the
`is_char()` test just before them.
-/
namespace Chewing.Conv

/-- the interval pushed for symbol `i`; a syllable without a word is shown as its Bopomofo spelling
    (`sym.to_syllable().unwrap().to_string()`, F30) -/
def simpleInterval (d : Dict) (sym : Sym) (i : Nat) : Interval :=
  match sym with
  | .chr cp => { start := i, stop := i + 1, isPhrase := false, text := [cp] }
  | .syl k =>
    { start := i, stop := i + 1, isPhrase := true,
      text := match d.first [k] Strategy.standard with
        | some p => p.text
        | none => spell k }

/-- `for (i, sym) in comp.symbols().iter().enumerate()`: one output interval per symbol that no
    selection intersects (`continue` otherwise) -/
def simpleSingles (d : Dict) (c : Composition) : List (Sym × Nat) → List Interval
  | [] => []
  | (sym, i) :: rest =>
    if c.selections.any (fun sel => sel.intersectRange i (i + 1)) then simpleSingles d c rest
    else simpleInterval d sym i :: simpleSingles d c rest

/-- stable insertion: `x` precedes every element of the sorted tail with start `≥` its own -/
def insertByStart (x : Interval) : List Interval → List Interval
  | [] => [x]
  | y :: ys => if x.start ≤ y.start then x :: y :: ys else y :: insertByStart x ys

/-- `sort_by_key(|int| int.start)` (stable): built from the right so that earlier equal elements stay first -/
def sortByStart : List Interval → List Interval
  | [] => []
  | x :: xs => insertByStart x (sortByStart xs)

/-- `SimpleEngine::convert`: exactly one alternative -/
def convertSimple (d : Dict) (c : Composition) : List (List Interval) :=
  [sortByStart (simpleSingles d c c.symbols.zipIdx ++ c.selections)]

/-- the three engines (`Box<dyn ConversionEngine>`) -/
inductive Engine where
  | chewing | simple | fuzzy
deriving Repr, DecidableEq, Inhabited

def Engine.strategy : Engine → Strategy
  | .fuzzy => .fuzzyPartialPrefix
  | _ => .standard

/-- `ConversionEngine::convert(dict, comp).collect()` -/
def convert (pick : Nat → List Path → Nat) (eng : Engine) (d : Dict) (c : Composition) :
    Outcome (List (List Interval)) :=
  match eng with
  | .chewing => convertChewing pick d .standard c
  | .fuzzy => convertChewing pick d .fuzzyPartialPrefix c
  | .simple => .ok (convertSimple d c)

end Chewing.Conv
