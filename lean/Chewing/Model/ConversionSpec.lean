import Chewing.Model.ConversionSimple
/-!
Specification vocabulary of C03 (and of the conversion half of C04): the explicit preconditions of the
conversion engines and the predicates the theorems of `Props/C03.lean` are stated with.  Definitions
only; every precondition is decidable for concrete data (instances below / `Dict.ofEntries` lemmas in
`Proofs/ConvSpec.lean`).
-/
namespace Chewing.Conv

/-- a selection the engines can honour (what `push_selection` would have to require, F31):
    non-empty, in range, text length = range length, over syllables only, no `Break` strictly inside
    (the last is kept by `set_gap` / `push_selection` themselves) -/
structure ValidSel (c : Composition) (x : Interval) : Prop where
  nonempty : x.start < x.stop
  inRange : x.stop ≤ c.symbols.length
  textLen : x.text.length = x.stop - x.start
  syllables : ∀ sym ∈ slice c x.start x.stop, sym.isSyl = true
  noBreak : hasBreakInside c x.start x.stop = false

instance (c : Composition) (x : Interval) : Decidable (ValidSel c x) :=
  decidable_of_iff
    (x.start < x.stop ∧ x.stop ≤ c.symbols.length ∧ x.text.length = x.stop - x.start ∧
      (∀ sym ∈ slice c x.start x.stop, sym.isSyl = true) ∧ hasBreakInside c x.start x.stop = false)
    ⟨fun ⟨a, b, c, d, e⟩ => ⟨a, b, c, d, e⟩, fun ⟨a, b, c, d, e⟩ => ⟨a, b, c, d, e⟩⟩

/-- well-formedness of a composition as the engines need it: the invariant of the Rust type
    (`symbols.len() == gaps.len()`), valid selections, pairwise non-intersecting selections
    (`push_selection` removes every selection the new one intersects) -/
structure CompValid (c : Composition) : Prop where
  lens : c.symbols.length = c.gaps.length
  sels : ∀ x ∈ c.selections, ValidSel c x
  disjoint : c.selections.Pairwise (fun a b => a.intersect b = false)

instance (c : Composition) : Decidable (CompValid c) :=
  decidable_of_iff
    (c.symbols.length = c.gaps.length ∧ (∀ x ∈ c.selections, ValidSel c x) ∧
      c.selections.Pairwise (fun a b => a.intersect b = false))
    ⟨fun ⟨a, b, c⟩ => ⟨a, b, c⟩, fun ⟨a, b, c⟩ => ⟨a, b, c⟩⟩

/-- the dictionary answers nothing for the empty key (F39: an entry with zero syllables breaks this).  No
    premise of the C03 theorems any more: `find_best_phrase` answers `None` for an empty range. -/
def NoEmptyKey (d : Dict) : Prop := ∀ strat, d.lookup [] strat = []

/-- every phrase has as many characters as its key has syllables (F27: the compiler does not check it) -/
def WellFormed (d : Dict) : Prop := ∀ key strat, ∀ p ∈ d.lookup key strat, p.text.length = key.length

/-- every syllable of the composition has a single-syllable word under the strategy: the quantifier of the
    one-character clause of C03 (otherwise every engine shows the spelling of the syllable, F30) -/
def HasWord (d : Dict) (strat : Strategy) (c : Composition) : Prop :=
  ∀ k, Sym.syl k ∈ c.symbols → d.lookup [k] strat ≠ []

/-- Boolean form of the per-symbol condition of `HasWord` -/
def symHasWord (d : Dict) (strat : Strategy) : Sym → Bool
  | .syl k => !(d.lookup [k] strat).isEmpty
  | .chr _ => true

instance (d : Dict) (strat : Strategy) (c : Composition) : Decidable (HasWord d strat c) :=
  decidable_of_iff (∀ sym ∈ c.symbols, symHasWord d strat sym = true)
    ⟨fun h k hk => by
      have := h _ hk
      simp only [symHasWord, Bool.not_eq_true', List.isEmpty_eq_false_iff] at this
      exact this,
     fun h sym hs => by
      cases sym with
      | syl k => simp only [symHasWord, Bool.not_eq_true', List.isEmpty_eq_false_iff]; exact h k hs
      | chr _ => rfl⟩

/-- the scoring arithmetic stays inside `i32` (debug profile: overflow = panic): at most 128 symbols and
    frequencies up to `2^23` (real data: buffer ≤ 39 symbols + frequencies below `10^6`) -/
def ScoreBound (d : Dict) (strat : Strategy) (c : Composition) : Prop :=
  c.symbols.length ≤ 128 ∧ ∀ key, ∀ p ∈ d.lookup key strat, p.freq ≤ 8388608

/-- a pick oracle that answers with a valid index (what `sort_unstable_by_key` + `swap_remove(0)` does) -/
def PickInRange (pick : Nat → List Path → Nat) : Prop := ∀ kth cands, cands ≠ [] → pick kth cands < cands.length

/-- `l` is a contiguous chain of non-empty intervals from `a` to `b` -/
def IvChain : Nat → Nat → List Interval → Prop
  | a, b, [] => a = b
  | a, b, x :: r => x.start = a ∧ x.start < x.stop ∧ IvChain x.stop b r

/-- the tiling contract, spelled out: every interval non-empty, consecutive intervals contiguous (hence
    non-overlapping), the first starts at `0`, the last ends at `n` (`n = 0` for the empty list) -/
def Tiling (p : List Interval) (n : Nat) : Prop :=
  (∀ iv ∈ p, iv.start < iv.stop) ∧
  (∀ i, (h : i + 1 < p.length) → p[i].stop = p[i + 1].start) ∧
  (p.head?.map (·.start)).getD 0 = 0 ∧
  (p.getLast?.map (·.stop)).getD 0 = n

/-- `Editor::display`: the concatenation of the interval texts -/
def display (p : List Interval) : Text := p.flatMap (·.text)

/-- the part of the displayed string that sits over the symbols `[s, e)` -/
def textAt (p : List Interval) (s e : Nat) : Text := ((display p).drop s).take (e - s)

/-- where the text of an output interval comes from -/
inductive Prov (d : Dict) (strat : Strategy) (c : Composition) : Interval → Prop
  /-- a non-syllable symbol, unchanged, at its own position -/
  | chr {i cp : Nat} : c.symbols[i]? = some (Sym.chr cp) →
      Prov d strat c { start := i, stop := i + 1, isPhrase := false, text := [cp] }
  /-- a phrase the dictionary returns for exactly the covered syllables -/
  | dict {s e : Nat} {ph : Phrase} : s < e → e ≤ c.symbols.length →
      (∀ sym ∈ slice c s e, sym.isSyl = true) → ph ∈ d.lookup (sylPrefix (slice c s e)) strat →
      Prov d strat c { start := s, stop := e, isPhrase := true, text := ph.text }
  /-- the text of an explicit user selection over exactly its range (the Chewing engine marks it as a
      phrase, the simple engine copies the selection's own flag) -/
  | sel {x : Interval} {b : Bool} : x ∈ c.selections →
      Prov d strat c { start := x.start, stop := x.stop, isPhrase := b, text := x.text }
  /-- two such texts joined across a `Glue` gap -/
  | glue {s m e : Nat} {t₁ t₂ : Text} :
      Prov d strat c { start := s, stop := m, isPhrase := true, text := t₁ } →
      Prov d strat c { start := m, stop := e, isPhrase := true, text := t₂ } →
      gapAt c m = some Gap.glue →
      Prov d strat c { start := s, stop := e, isPhrase := true, text := t₁ ++ t₂ }

/-- no selection intersects position `i` -/
def Free (c : Composition) (i : Nat) : Prop := c.selections.any (fun sel => sel.intersectRange i (i + 1)) = false

instance (c : Composition) (i : Nat) : Decidable (Free c i) := inferInstanceAs (Decidable (_ = false))

/-- the fallback interval of every engine (F30): a syllable without a word under the strategy that no
    selection covers is shown, as an interval of its own, as its Bopomofo spelling
    (`ChewingEngine::find_best_phrase`: `Phrase::new(syllable.to_string(), 0)`; `SimpleEngine`:
    `sym.to_syllable().unwrap().to_string()`) -/
def Spelled (d : Dict) (strat : Strategy) (c : Composition) (iv : Interval) : Prop :=
  ∃ i k, c.symbols[i]? = some (Sym.syl k) ∧ d.lookup [k] strat = [] ∧ Free c i ∧
    iv = { start := i, stop := i + 1, isPhrase := true, text := spell k }

/-- provenance without `HasWord`: `Prov`, or the spelling of a word-less unselected syllable, or such
    texts joined across `Glue` gaps (a fallback interval is a phrase interval for `glue_fn`) -/
inductive ProvS (d : Dict) (strat : Strategy) (c : Composition) : Interval → Prop
  | base {iv : Interval} : Prov d strat c iv → ProvS d strat c iv
  | spell {iv : Interval} : Spelled d strat c iv → ProvS d strat c iv
  | glue {s m e : Nat} {t₁ t₂ : Text} :
      ProvS d strat c { start := s, stop := m, isPhrase := true, text := t₁ } →
      ProvS d strat c { start := m, stop := e, isPhrase := true, text := t₂ } →
      gapAt c m = some Gap.glue →
      ProvS d strat c { start := s, stop := e, isPhrase := true, text := t₁ ++ t₂ }

/-- the exact shape of an interval text over the symbols `[s, e)`: a concatenation of one piece per
    symbol, each piece one character — except that a syllable without a word under the strategy that no
    selection covers may be spelled out (the fallback interval, possibly glued to its neighbours) -/
inductive SpelledText (d : Dict) (strat : Strategy) (c : Composition) : Nat → Nat → Text → Prop
  | nil {s : Nat} : SpelledText d strat c s s []
  | char {s e cp : Nat} {t : Text} : SpelledText d strat c (s + 1) e t → SpelledText d strat c s e (cp :: t)
  | spell {s e k : Nat} {t : Text} : c.symbols[s]? = some (Sym.syl k) → d.lookup [k] strat = [] → Free c s →
      SpelledText d strat c (s + 1) e t → SpelledText d strat c s e (spell k ++ t)

/-- every buffered syllable has a non-empty spelling (true of every syllable the keyboard layouts or
    the parser can build; `spell 0 = []`) -/
def SpellNonempty (c : Composition) : Prop := ∀ k, Sym.syl k ∈ c.symbols → spell k ≠ []

/-- no `Glue` gap strictly inside `[s, e)`: the interval is not the product of `glue_fn` -/
def NoGlueInside (c : Composition) (s e : Nat) : Prop := ∀ m, s < m → m < e → gapAt c m ≠ some Gap.glue

/-- the spelling shown by the simple engine for a syllable without a word (F30) -/
def spellingShown (d : Dict) (c : Composition) (iv : Interval) : Prop :=
  ∃ k, c.symbols[iv.start]? = some (Sym.syl k) ∧ d.first [k] Strategy.standard = none ∧ iv.text = spell k

end Chewing.Conv
