import Chewing.Model.Basic
/-!
Model of the part of the `der` crate (0.7) that `src/dictionary/trie.rs` uses: the eight shapes
of the trie file format (`src/dictionary/trie.asn1`).

* bytes are `List Nat` (every element < 256 in well-formed input);
* an encoder is a *total* function to bytes.  The crate refuses (`ErrorKind::Overflow`) any length
  above `Length::MAX` = 0x0FFF_FFFF; since every inner length of a document is at most the length of
  the document, "some encoder fails" is equivalent to "the document body is longer than `maxLen`",
  which is the single guard `TrieCodec.write` applies at the top.
* a decoder is `Bytes → Option (value × remaining input)`; `none` = the crate returns `Err`.
  `read_nested` is `nested`: the inner decoder runs on a window of exactly `len` bytes and has to
  consume all of it (`reader.finish`), otherwise `TrailingData`/`Incomplete`.

Only what a `SliceReader` does on the success path is modelled plus the canonical-form checks
(minimal lengths, minimal unsigned INTEGER, known tag bytes, UTF-8 validity as `str::from_utf8`).
-/
namespace Chewing.Der

abbrev Bytes := List Nat

/-- `Length::MAX` -/
def maxLen : Nat := 0x0fffffff

/-! ### integers as big-endian bytes -/

/-- `v.to_be_bytes()` for a `w`-byte unsigned type -/
def beFixed : Nat → Nat → Bytes
  | 0, _ => []
  | w + 1, v => beFixed w (v / 256) ++ [v % 256]

/-- `uN::from_be_bytes` (of any number of bytes) -/
def fromBE (bs : Bytes) : Nat := bs.foldl (fun acc b => acc * 256 + b) 0

/-- `strip_leading_zeroes`: drops zero bytes while at least one byte follows -/
def stripZeros : Bytes → Bytes
  | 0 :: b :: rest => stripZeros (b :: rest)
  | bs => bs

/-- contents octets of an unsigned INTEGER of a `w`-byte type (`encode_bytes`) -/
def uintContent (w v : Nat) : Bytes :=
  match stripZeros (beFixed w v) with
  | [] => []
  | b :: r => if b ≥ 0x80 then 0 :: b :: r else b :: r

/-! ### lengths -/

/-- `Length::encode` (definite, minimal form) -/
def encLen (n : Nat) : Bytes :=
  if n < 0x80 then [n]
  else if n < 0x100 then [0x81, n]
  else if n < 0x10000 then [0x82, n / 256, n % 256]
  else if n < 0x1000000 then [0x83, n / 65536, n / 256 % 256, n % 256]
  else [0x84, n / 16777216 % 256, n / 65536 % 256, n / 256 % 256, n % 256]

/-- `Length::initial_octet` -/
def initialOctet (n : Nat) : Option Nat :=
  if n < 0x80 then none
  else if n < 0x100 then some 0x81
  else if n < 0x10000 then some 0x82
  else if n < 0x1000000 then some 0x83
  else if n ≤ maxLen then some 0x84
  else none

/-- `read_slice(n)`: the next `n` bytes and the rest, `none` if fewer are left -/
def takeN (n : Nat) (bs : Bytes) : Option (Bytes × Bytes) :=
  if bs.length < n then none else some (bs.take n, bs.drop n)

/-- `Length::decode` -/
def decLen : Bytes → Option (Nat × Bytes)
  | [] => none
  | b :: rest =>
    if b < 0x80 then some (b, rest)
    else if 0x81 ≤ b ∧ b ≤ 0x84 then
      match takeN (b - 0x80) rest with
      | none => none
      | some (lb, rest') =>
        let v := fromBE lb
        if v ≤ maxLen ∧ initialOctet v = some b then some (v, rest') else none
    else none

/-! ### tags and headers -/

/-- `Tag::try_from(u8)` succeeds -/
def validTag (b : Nat) : Bool :=
  b % 32 != 31 &&
  ([0x01, 0x02, 0x03, 0x04, 0x05, 0x06, 0x09, 0x0A, 0x0C, 0x12, 0x13, 0x14, 0x15, 0x16, 0x17, 0x18,
    0x1A, 0x1E, 0x30, 0x31].contains b
   || (0x40 ≤ b && b ≤ 0x7E) || (0x80 ≤ b && b ≤ 0xBE) || (0xC0 ≤ b && b ≤ 0xFE))

def tagInteger : Nat := 0x02
def tagOctetString : Nat := 0x04
def tagUtf8String : Nat := 0x0C
def tagSequence : Nat := 0x30
/-- `[0]`, primitive (IMPLICIT tagging of a primitive type) -/
def tagCtx0 : Nat := 0x80

/-- `Header::decode`: (tag byte, length, rest) -/
def decHeader : Bytes → Option (Nat × Nat × Bytes)
  | [] => none
  | t :: rest =>
    if validTag t then
      match decLen rest with
      | none => none
      | some (n, r) => some (t, n, r)
    else none

/-- tag-length-value -/
def tlv (tag : Nat) (content : Bytes) : Bytes := tag :: (encLen content.length ++ content)

/-- `read_nested(len, f)` -/
def nested {α : Type} (n : Nat) (f : Bytes → Option (α × Bytes)) (bs : Bytes) : Option (α × Bytes) :=
  match takeN n bs with
  | none => none
  | some (inner, rest) =>
    match f inner with
    | some (a, []) => some (a, rest)
    | _ => none

/-- header with an expected tag, then the value bytes: `(value, rest)` -/
def decTlv (tag : Nat) (bs : Bytes) : Option (Bytes × Bytes) :=
  match decHeader bs with
  | none => none
  | some (t, n, r) => if t = tag then takeN n r else none

/-! ### UTF-8 (`str::from_utf8`) -/

def utf8EncChar (c : Nat) : Bytes :=
  if c < 0x80 then [c]
  else if c < 0x800 then [0xC0 + c / 64, 0x80 + c % 64]
  else if c < 0x10000 then [0xE0 + c / 4096, 0x80 + c / 64 % 64, 0x80 + c % 64]
  else [0xF0 + c / 262144, 0x80 + c / 4096 % 64, 0x80 + c / 64 % 64, 0x80 + c % 64]

def utf8Enc (t : Text) : Bytes := t.flatMap utf8EncChar

/-- a Unicode scalar value (what a Rust `char` can hold) -/
def IsScalar (c : Nat) : Prop := c < 0xD800 ∨ (0xE000 ≤ c ∧ c < 0x110000)

instance (c : Nat) : Decidable (IsScalar c) := by unfold IsScalar; infer_instance

def isCont (b : Nat) : Bool := 0x80 ≤ b && b < 0xC0

/-- one well-formed UTF-8 sequence (Unicode table 3-7, as `core::str::validations`) -/
def utf8DecChar : Bytes → Option (Nat × Bytes)
  | [] => none
  | b0 :: r =>
    if b0 < 0x80 then some (b0, r)
    else if b0 < 0xC2 then none
    else if b0 < 0xE0 then
      match r with
      | b1 :: r' => if isCont b1 then some ((b0 - 0xC0) * 64 + (b1 - 0x80), r') else none
      | _ => none
    else if b0 < 0xF0 then
      match r with
      | b1 :: b2 :: r' =>
        let lo := if b0 = 0xE0 then 0xA0 else 0x80
        let hi := if b0 = 0xED then 0xA0 else 0xC0
        if lo ≤ b1 ∧ b1 < hi ∧ isCont b2 then
          some ((b0 - 0xE0) * 4096 + (b1 - 0x80) * 64 + (b2 - 0x80), r')
        else none
      | _ => none
    else if b0 < 0xF5 then
      match r with
      | b1 :: b2 :: b3 :: r' =>
        let lo := if b0 = 0xF0 then 0x90 else 0x80
        let hi := if b0 = 0xF4 then 0x90 else 0xC0
        if lo ≤ b1 ∧ b1 < hi ∧ isCont b2 ∧ isCont b3 then
          some ((b0 - 0xF0) * 262144 + (b1 - 0x80) * 4096 + (b2 - 0x80) * 64 + (b3 - 0x80), r')
        else none
      | _ => none
    else none

def utf8DecFuel : Nat → Bytes → Option Text
  | _, [] => some []
  | 0, _ :: _ => none
  | f + 1, b :: bs =>
    match utf8DecChar (b :: bs) with
    | none => none
    | some (c, r) =>
      match utf8DecFuel f r with
      | none => none
      | some t => some (c :: t)

/-- `str::from_utf8` followed by `.chars()` -/
def utf8Dec (bs : Bytes) : Option Text := utf8DecFuel bs.length bs

/-! ### the shapes -/

/-- `Utf8StringRef` -/
def encUtf8 (t : Text) : Bytes := tlv tagUtf8String (utf8Enc t)

def decUtf8 (bs : Bytes) : Option (Text × Bytes) :=
  match decTlv tagUtf8String bs with
  | none => none
  | some (v, r) =>
    match utf8Dec v with
    | none => none
    | some t => some (t, r)

/-- `OctetStringRef` -/
def encOctets (b : Bytes) : Bytes := tlv tagOctetString b

def decOctets (bs : Bytes) : Option (Bytes × Bytes) := decTlv tagOctetString bs

/-- `decode_to_slice` -/
def decodeToSlice : Bytes → Option Bytes
  | [] => none
  | [0] => some [0]
  | 0 :: b :: r => if b < 0x80 then none else some (b :: r)
  | b :: r => if b ≥ 0x80 then none else some (b :: r)

/-- `<uN as DecodeValue>::decode_value` for a `w`-byte type and header length `n` -/
def decUintValue (w n : Nat) (bs : Bytes) : Option (Nat × Bytes) :=
  if n > w + 1 then none else
  match takeN n bs with
  | none => none
  | some (c, rest) =>
    match decodeToSlice c with
    | none => none
    | some s =>
      if s.length > w then none else
      let v := fromBE s
      if n ≠ (uintContent w v).length then none else some (v, rest)

/-- unsigned INTEGER of a `w`-byte type (u8: 1, u32: 4, u64: 8) -/
def encUint (w v : Nat) : Bytes := tlv tagInteger (uintContent w v)

def decUint (w : Nat) (bs : Bytes) : Option (Nat × Bytes) :=
  match decHeader bs with
  | none => none
  | some (t, n, r) => if t = tagInteger then decUintValue w n r else none

/-- `context_specific_opt(0, &Option<u64>)`, IMPLICIT -/
def encCtx0U64 : Option Nat → Bytes
  | none => []
  | some v => tlv tagCtx0 (uintContent 8 v)

/-- `reader.context_specific::<u64>(TagNumber::N0, TagMode::Implicit)` -/
def decCtx0U64 : Bytes → Option (Option Nat × Bytes)
  | [] => some (none, [])
  | b :: bs =>
    if !validTag b then none
    else if 0x80 ≤ b ∧ b < 0xC0 ∧ b % 32 = 0 then
      match decHeader (b :: bs) with
      | none => none
      | some (t, n, r) =>
        match decUintValue 8 n r with
        | none => none
        | some (v, r') => if t / 32 % 2 = 1 then none else some (some v, r')
    else some (none, b :: bs)

/-- SEQUENCE around already encoded fields -/
def encSeq (body : Bytes) : Bytes := tlv tagSequence body

/-- `reader.sequence(f)` / a `Sequence` type's `decode` -/
def decSeq {α : Type} (f : Bytes → Option (α × Bytes)) (bs : Bytes) : Option (α × Bytes) :=
  match decHeader bs with
  | none => none
  | some (t, n, r) => if t = tagSequence then nested n f r else none

end Chewing.Der
