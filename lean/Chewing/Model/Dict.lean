import Chewing.Model.Basic
/-!
Dictionary interface of the model (`src/dictionary/mod.rs`): `Phrase`, `LookupStrategy`, and an
abstract read-only dictionary given as functions, so that the conversion and editor models can be
stated for *any* dictionary satisfying explicit, decidable hypotheses.
-/
namespace Chewing

/-- `struct Phrase` -/
structure Phrase where
  text : Text
  freq : Nat
  lastUsed : Option Nat := none
deriving Repr, DecidableEq, BEq, Inhabited

/-- `enum LookupStrategy` -/
inductive Strategy where
  | standard | fuzzyPartialPrefix
deriving Repr, DecidableEq, BEq, Inhabited

/-- a dictionary entry: key (syllable codes) and phrase -/
abbrev Entry := List Nat × Phrase

/-- a read-only dictionary as the editor / conversion engines see it -/
structure Dict where
  /-- `lookup_all_phrases(key, strategy)`, in the order the implementation returns them -/
  lookup : List Nat → Strategy → List Phrase

namespace Dict

/-- `lookup_first_n_phrases` as the trait documents it -/
def firstN (d : Dict) (key : List Nat) (n : Nat) (s : Strategy) : List Phrase := (d.lookup key s).take n
/-- `lookup_first_phrase` -/
def first (d : Dict) (key : List Nat) (s : Strategy) : Option Phrase := (d.lookup key s).head?

/-- a dictionary given by an explicit entry list (exact-key lookup only, entry order) -/
def ofEntries (es : List Entry) : Dict :=
  { lookup := fun key _ => (es.filter (fun e => e.1 == key)).map (·.2) }

end Dict

end Chewing
