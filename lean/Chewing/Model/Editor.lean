import Chewing.Model.CompEditor
import Chewing.Model.Dict
import Chewing.Gen.SymbolTables
import Chewing.Gen.SpecialSelTable
import Chewing.Gen.EditorConsts
/-!
Model of the editor state machine, `src/editor/mod.rs` + `src/editor/selection/{phrase,symbol}.rs`.

Four states (`Entering`, `EnteringSyllable`, `Selecting`, `Highlighting`), `SharedState`, every public
entry point of `Editor` as an `Op`, and `process_keyevent` as `step`.

External code is a parameter (`Env`): the layered dictionary, the phonetic layout (`SyllableEditor`),
the conversion engines and the frequency estimator are structures of functions over abstract state
types `D` (dictionary) and `L` (layout).  The property theorems are proved for every `Env`
satisfying explicit hypotheses; the correspondence driver instantiates `Env` with the executable
models of those components.

Panics are values: every `unwrap`/`expect`/index/slice/`assert!`/overflow site reachable from here is
an `Outcome.panic "<site>"`; loops take fuel and report `outOfFuel`.
-/
namespace Chewing

/-! ### key events -/

structure Mods where
  shift : Bool := false
  ctrl : Bool := false
  capslock : Bool := false
  numlock : Bool := false
deriving Repr, DecidableEq, Inhabited

def Mods.isNone (m : Mods) : Bool := !m.shift && !m.ctrl && !m.capslock && !m.numlock

/-- `struct KeyEvent`: key index, key code (discriminants) and the code point it produces -/
structure KeyEvent where
  index : Nat
  code : Nat
  unicode : Nat
  mods : Mods := {}
deriving Repr, DecidableEq, Inhabited

/- `KeyCode` discriminants used by name in the editor (checked against the generated enum by
   `Chewing.keycodes_agree` in Proofs/EditorBasics.lean) -/
namespace KC
def unknown := 0
def n1 := 1
def n0 := 10
def grave := 14
def j := 33
def k := 34
def space := 48
def esc := 49
def enter := 50
def del := 51
def backspace := 52
def tab := 53
def left := 54
def right := 55
def up := 56
def down := 57
def home := 58
def end_ := 59
def pageUp := 60
def pageDown := 61
end KC

def isDigitCode (c : Nat) : Bool := 1 ≤ c && c ≤ 10

/-- `KeyEvent::is_printable` -/
def KeyEvent.isPrintable (ev : KeyEvent) : Bool := ev.unicode != 65533

/-! ### enums and options -/

/-- `EditorKeyBehavior` -/
inductive KB where
  | ignore | commit | bell | absorb
deriving Repr, DecidableEq, Inhabited

/-- `zhuyin_layout::KeyBehavior` -/
inductive LayoutBeh where
  | ignore | absorb | commit | keyError | error | noWord | openSymbolTable
  | fuzzy (syl : Nat)
deriving Repr, DecidableEq, Inhabited

inductive LangMode where
  | chinese | english
deriving Repr, DecidableEq, Inhabited

inductive CharForm where
  | half | full
deriving Repr, DecidableEq, Inhabited

inductive AddDir where
  | forward | backward
deriving Repr, DecidableEq, Inhabited

inductive EngineKind where
  | simple | chewing | fuzzy
deriving Repr, DecidableEq, Inhabited

/-- `struct EditorOptions` (field order of the struct) -/
structure Options where
  easySymbolInput : Bool := false
  escClearAllBuffer : Bool := false
  spaceIsSelectKey : Bool := false
  autoShiftCursor : Bool := false
  phraseChoiceRearward : Bool := false
  disableAutoLearnPhrase : Bool := false
  autoCommitThreshold : Nat := 39
  candidatesPerPage : Nat := 10
  languageMode : LangMode := .chinese
  characterForm : CharForm := .half
  userPhraseAddDir : AddDir := .forward
  lookupStrategy : Strategy := .standard
  conversionEngine : EngineKind := .chewing
  enableFullwidthToggleKey : Bool := true
deriving Repr, DecidableEq, Inhabited

/-! ### symbol tables (`src/conversion/symbol.rs`) -/

/-- `special_symbol_input` -/
def specialSymbolInput (key : Nat) : Option Nat :=
  (Gen.specialSymbols.find? (fun p => p.1 == key)).map (·.2)

/-- `full_width_symbol_input` -/
def fullWidthSymbolInput (key : Nat) : Option Nat :=
  match (Gen.fullWidthSymbols.find? (fun p => p.1 == key)).map (·.2) with
  | some c => some c
  | none => specialSymbolInput key

/-- `is_break_word` -/
def isBreakWord (w : Text) : Bool := Gen.breakWords.contains w

/-! ### selectors -/

/-- leading syllables of a symbol slice: `impl SyllableSlice for &[Symbol]` (`map_while`) -/
def sylPrefix : List Sym → List Nat
  | .syl c :: rest => c :: sylPrefix rest
  | _ => []

/-- `symbols()[b..e]`; panics like the Rust slice expression -/
def sliceSyms (syms : List Sym) (b e : Nat) : Outcome (List Sym) :=
  if b > e then .panic "slice-index-order" else if e > syms.length then .panic "slice-end-oob"
  else .ok ((syms.drop b).take (e - b))

/-- `struct PhraseSelector` -/
structure PhraseSel where
  begin_ : Nat
  end_ : Nat
  forward : Bool
  orig : Nat
  strategy : Strategy
  com : Composition
deriving Repr, DecidableEq, Inhabited

/-- `struct SymbolSelector`: categories (name, table index or none = leaf), tables, cursor -/
structure SymSel where
  category : List (Text × Option Nat) := []
  table : List Text := []
  cursor : Option Nat := none
deriving Repr, DecidableEq, Inhabited

inductive Selector where
  | phrase (s : PhraseSel)
  | symbol (s : SymSel)
  | special (sym : Sym)
deriving Repr, DecidableEq, Inhabited

inductive SelAction where
  | insert | replace
deriving Repr, DecidableEq, Inhabited

/-- `struct Selecting` -/
structure Selecting where
  pageNo : Nat
  action : SelAction
  sel : Selector
deriving Repr, DecidableEq, Inhabited

/-- the four editor states -/
inductive St where
  | entering
  | enteringSyllable
  | selecting (s : Selecting)
  | highlighting (moving : Nat)
deriving Repr, DecidableEq, Inhabited

/-! ### environment: the components the editor calls -/

/-- the components the editor drives, as functions over abstract dictionary / layout states -/
structure Env (D L : Type) where
  /-- `Layered::lookup_all_phrases` -/
  lookupAll : D → List Nat → Strategy → List Phrase
  /-- `user_dict().lookup_all_phrases` -/
  userLookupAll : D → List Nat → Strategy → List Phrase
  /-- `Layered::add_phrase`: `none` = `Err`; an empty phrase is logged as a bug and `Ok(())` is
      returned without adding anything (so the result is `some d`) -/
  addPhrase : D → List Nat → Phrase → Option D
  /-- `Layered::update_phrase` (its result is discarded by the editor) -/
  updatePhrase : D → List Nat → Phrase → Nat → Nat → D
  /-- `Layered::remove_phrase` (result discarded) -/
  removePhrase : D → List Nat → Text → D
  /-- `reopen()` then `flush()` after a key that dirtied the dictionary -/
  reopenFlush : D → D
  /-- all alternatives of `ConversionEngine::convert`, in iterator order -/
  convert : EngineKind → D → Composition → Outcome (List (List Interval))
  /-- `LaxUserFreqEstimate::estimate(phrase, orig_freq, max_freq)` at the given clock -/
  estimate : Nat → Nat → Nat → Outcome Nat
  keyPress : L → KeyEvent → LayoutBeh × L
  fuzzyKeyPress : L → KeyEvent → LayoutBeh × L
  removeLast : L → L
  clearSyl : L → L
  sylIsEmpty : L → Bool
  read : L → Nat
  altSyllables : L → Nat → List Nat

/-- `Dictionary::lookup_first_phrase(..).is_some()` -/
def Env.hasPhrase {D L : Type} (env : Env D L) (d : D) (key : List Nat) (s : Strategy) : Bool :=
  (env.lookupAll d key s).head?.isSome

/-- `struct SharedState` -/
structure Shared (D L : Type) where
  com : CompEditor := {}
  syl : L
  engine : EngineKind := .chewing
  dict : D
  abbr : List (Nat × Text) := []
  symSel : SymSel := {}
  time : Nat := 0
  options : Options := {}
  last : KB := .absorb
  dirty : Nat := 0
  nth : Nat := 0
  commitBuf : Text := []
  noticeBuf : Text := []

/-- `struct Editor` -/
structure Editor (D L : Type) where
  shared : Shared D L
  state : St := .entering

section
variable {D L : Type} (env : Env D L)

/-! ### PhraseSelector -/

namespace PhraseSel

/-- `next_break_point`: first index ≥ cursor that is the end of the buffer or a non-syllable -/
def nextBreakPoint (s : PhraseSel) (cursor : Nat) : Nat :=
  go (s.com.len + 1) cursor
where
  go : Nat → Nat → Nat
    | 0, c => c
    | fuel + 1, c =>
      if s.com.len == c then c
      else match s.com.symbol? c with
        | some sym => if !sym.isSyl then c else go fuel (c + 1)
        | none => go fuel (c + 1)

/-- `after_previous_break_point` -/
def afterPreviousBreakPoint (s : PhraseSel) (cursor : Nat) : Nat :=
  go (cursor + 1) cursor
where
  go : Nat → Nat → Nat
    | 0, c => c
    | fuel + 1, c =>
      if c == 0 then 0
      else if (s.com.selections.map (·.stop)).contains c then c
      else if s.com.gap? c == some Gap.brk then c
      else match s.com.symbol? (c - 1) with
        | some sym => if !sym.isSyl then c else go fuel (c - 1)
        | none => go fuel (c - 1)

/-- does the dictionary have a phrase for `symbols[b..e]` (leading syllables)? -/
def rangeHasPhrase (s : PhraseSel) (d : D) (b e : Nat) : Outcome Bool :=
  match sliceSyms s.com.symbols b e with
  | .ok syms => .ok (env.hasPhrase d (sylPrefix syms) s.strategy)
  | .panic p => .panic p
  | .outOfFuel => .outOfFuel

/-- the shrinking loop of `init` -/
def initLoop (s : PhraseSel) (d : D) : Nat → Outcome PhraseSel
  | 0 => .outOfFuel
  | fuel + 1 =>
    if s.begin_ > s.end_ then .panic "slice-index-order"
    else if s.end_ > s.com.len then .panic "slice-end-oob"
    else if s.begin_ == s.end_ then .panic "phrase-sel-empty-range"   -- debug_assert!(!syllables.is_empty())
    else match rangeHasPhrase env s d s.begin_ s.end_ with
      | .ok true => .ok s
      | .ok false =>
        -- `if self.end - self.begin == 1 && syllables[0].is_syllable() { break }`: a syllable without a
        -- word keeps its one-syllable range (F02 / F03 repair; the candidate list is then empty)
        if s.end_ - s.begin_ == 1 && (match s.com.symbol? s.begin_ with | some sym => sym.isSyl | none => false) then .ok s
        else if s.forward then initLoop { s with end_ := s.end_ - 1 } d fuel
        else initLoop { s with begin_ := s.begin_ + 1 } d fuel
      | .panic p => .panic p
      | .outOfFuel => .outOfFuel

/-- `PhraseSelector::new` + `init(cursor, dict)` -/
def init (forward : Bool) (strategy : Strategy) (com : Composition) (cursor : Nat) (d : D) :
    Outcome PhraseSel :=
  let s0 : PhraseSel := { begin_ := 0, end_ := com.len, forward, orig := cursor, strategy, com }
  if forward then
    if cursor == com.len ∧ cursor == 0 then .panic "phrase-sel-cursor-underflow"
    else
      let b := if cursor == com.len then cursor - 1 else cursor
      initLoop env { s0 with begin_ := b, end_ := s0.nextBreakPoint cursor } d (com.len + 2)
  else
    initLoop env { s0 with end_ := min (cursor + 1) com.len, begin_ := s0.afterPreviousBreakPoint cursor } d (com.len + 2)

/-- `PhraseSelector::new` + `init_single_word(cursor)`: `orig` is the position of the word (the symbol
    before the cursor), as `init` records it (before the F41 fix it was the cursor after the word, and
    `jump_to_first_selection_point` extended the range over the following symbol) -/
def initSingleWord (strategy : Strategy) (com : Composition) (cursor : Nat) : Outcome PhraseSel :=
  let e := min cursor com.len
  if e == 0 then .panic "phrase-sel-single-underflow"
  else .ok { begin_ := e - 1, end_ := e, forward := false, orig := e - 1, strategy, com }

/-- `next_selection_point` -/
def nextSelectionPoint (s : PhraseSel) (d : D) : Outcome (Option (Nat × Nat)) :=
  go (s.com.len + 2) s.begin_ s.end_
where
  go : Nat → Nat → Nat → Outcome (Option (Nat × Nat))
    | 0, _, _ => .outOfFuel
    | fuel + 1, b, e =>
      if s.forward then
        if e == 0 then .panic "sel-point-underflow"
        else if b == e - 1 then .ok none
        else match rangeHasPhrase env s d b (e - 1) with
          | .ok true => .ok (some (b, e - 1))
          | .ok false => go fuel b (e - 1)
          | .panic p => .panic p
          | .outOfFuel => .outOfFuel
      else
        if b + 1 == e then .ok none
        else match rangeHasPhrase env s d (b + 1) e with
          | .ok true => .ok (some (b + 1, e))
          | .ok false => go fuel (b + 1) e
          | .panic p => .panic p
          | .outOfFuel => .outOfFuel

/-- `prev_selection_point` -/
def prevSelectionPoint (s : PhraseSel) (d : D) : Outcome (Option (Nat × Nat)) :=
  go (s.com.len + 2) s.begin_ s.end_
where
  go : Nat → Nat → Nat → Outcome (Option (Nat × Nat))
    | 0, _, _ => .outOfFuel
    | fuel + 1, b, e =>
      if s.forward then
        if e == s.com.len then .ok none
        else if e + 1 > s.nextBreakPoint s.orig then .ok none
        else match rangeHasPhrase env s d b (e + 1) with
          | .ok true => .ok (some (b, e + 1))
          | .ok false => go fuel b (e + 1)
          | .panic p => .panic p
          | .outOfFuel => .outOfFuel
      else
        if b == 0 then .ok none
        else if b - 1 < s.afterPreviousBreakPoint s.orig then .ok none
        else match rangeHasPhrase env s d (b - 1) e with
          | .ok true => .ok (some (b - 1, e))
          | .ok false => go fuel (b - 1) e
          | .panic p => .panic p
          | .outOfFuel => .outOfFuel

/-- `PhraseSelector::next` (Down/Space at the last page): `for _ in 0..self.com.len()` tries the ranges
    in turn; when none of them has a phrase the selector stays on the range it started from (F03 repair:
    the loop used to be unbounded) -/
def next (s : PhraseSel) (d : D) : Outcome PhraseSel :=
  go s.com.len s
where
  go : Nat → PhraseSel → Outcome PhraseSel
    | 0, s' => .ok { s' with begin_ := s.begin_, end_ := s.end_ }
    | fuel + 1, s =>
      if s.forward then
        if s.end_ == 0 then .panic "sel-next-underflow"
        else
          let e := s.end_ - 1
          let s' := if s.begin_ == e then { s with end_ := s.nextBreakPoint s.begin_ } else { s with end_ := e }
          match rangeHasPhrase env s' d s'.begin_ s'.end_ with
          | .ok true => .ok s'
          | .ok false => go fuel s'
          | .panic p => .panic p
          | .outOfFuel => .outOfFuel
      else
        let b := s.begin_ + 1
        let s' := if b == s.end_ then { s with begin_ := s.afterPreviousBreakPoint (b - 1) } else { s with begin_ := b }
        match rangeHasPhrase env s' d s'.begin_ s'.end_ with
        | .ok true => .ok s'
        | .ok false => go fuel s'
        | .panic p => .panic p
        | .outOfFuel => .outOfFuel

/-- `jump_to_last_selection_point` -/
def jumpToLast (s : PhraseSel) (d : D) : Outcome PhraseSel :=
  go (s.com.len + 2) s
where
  go : Nat → PhraseSel → Outcome PhraseSel
    | 0, _ => .outOfFuel
    | fuel + 1, s =>
      match nextSelectionPoint env s d with
      | .ok (some (b, e)) => go fuel { s with begin_ := b, end_ := e }
      | .ok none => .ok s
      | .panic p => .panic p
      | .outOfFuel => .outOfFuel

/-- `PhraseSelector::candidates` -/
def candidates (s : PhraseSel) (d : D) (l : L) : Outcome (List Text) :=
  match sliceSyms s.com.symbols s.begin_ s.end_ with
  | .ok syms =>
    let base := (env.lookupAll d (sylPrefix syms) s.strategy).map (·.text)
    if s.end_ - s.begin_ == 1 then
      match s.com.symbol? s.begin_ with
      | some (.syl c) =>
        .ok (base ++ (env.altSyllables l c).flatMap fun a => (env.lookupAll d [a] s.strategy).map (·.text))
      | some (.chr _) => .panic "cand-to-syllable-unwrap"
      | none => .panic "cand-symbol-unwrap"
    else .ok base
  | .panic p => .panic p
  | .outOfFuel => .outOfFuel

/-- `PhraseSelector::interval` -/
def interval (s : PhraseSel) (text : Text) : Interval :=
  { start := s.begin_, stop := s.end_, isPhrase := true, text }

end PhraseSel

/-! ### symbol selectors -/

namespace SymSel

/-- `SymbolSelector::menu` -/
def menu (s : SymSel) : Outcome (List Text) :=
  match s.cursor with
  | some c =>
    match s.table[c]? with
    | some row => .ok (row.map fun ch => [ch])
    | none => .panic "symsel-table-index"
  | none => .ok (s.category.map (·.1))

/-- `SymbolSelector::select` -/
def select (s : SymSel) (n : Nat) : Outcome (Option Sym × SymSel) :=
  match s.cursor with
  | none =>
    match s.category[n]? with
    | none => .ok (none, s)
    | some (name, none) =>
      match name.head? with
      | some ch => .ok (some (.chr ch), { s with cursor := none })
      | none => .panic "symsel-empty-category-name"
    | some (_, some idx) => .ok (none, { s with cursor := some (idx % 256) })   -- `cat.1 as u8`
  | some c =>
    match s.table[c]? with
    | some row => .ok ((row[n]?).map Sym.chr, { s with cursor := none })
    | none => .panic "symsel-table-index"

end SymSel

/-- `SpecialSymbolSelector::find_category` -/
def specialFindCategory (sym : Sym) : Outcome (Option Text) :=
  match sym with
  | .chr c => .ok (Gen.specialSelTable.find? (fun row => row.contains c))
  | .syl _ => .panic "special-to-char-unwrap"

/-- `SpecialSymbolSelector::menu` -/
def specialMenu (sym : Sym) : Outcome (List Text) :=
  match specialFindCategory sym with
  | .ok (some row) => .ok ((row.drop 1).map fun ch => [ch])
  | .ok none => .ok []
  | .panic p => .panic p
  | .outOfFuel => .outOfFuel

/-- `SpecialSymbolSelector::select` -/
def specialSelect (sym : Sym) (n : Nat) : Outcome (Option Sym) :=
  match specialFindCategory sym with
  | .ok (some row) => .ok (((row.drop 1)[n]?).map Sym.chr)
  | .ok none => .ok none
  | .panic p => .panic p
  | .outOfFuel => .outOfFuel

/-! ### SharedState -/

namespace Shared

/-- `SharedState::conversion` -/
def conversion (sh : Shared D L) : Outcome (List Interval) :=
  match env.convert sh.engine sh.dict sh.com.inner with
  | .ok paths =>
    if sh.nth > 0 then
      if paths.length == 0 then .panic "conversion-rem-zero"
      else match paths[sh.nth % paths.length]? with
        | some p => .ok p
        | none => .panic "conversion-index"
    else match paths.head? with
      | some p => .ok p
      | none => .panic "conversion-next-unwrap"
  | .panic p => .panic p
  | .outOfFuel => .outOfFuel

/-- `Editor::display`: concatenation of the interval texts -/
def display (sh : Shared D L) : Outcome Text :=
  (conversion env sh).map fun ivs => ivs.flatMap (·.text)

/-- `SharedState::clear` -/
def clear (sh : Shared D L) : Shared D L :=
  { sh with last := .absorb, com := sh.com.clear, syl := env.clearSyl sh.syl, commitBuf := [],
            noticeBuf := [], nth := 0 }

def switchLanguageMode (sh : Shared D L) : Shared D L :=
  { sh with options := { sh.options with languageMode :=
      match sh.options.languageMode with
      | .english => .chinese
      | .chinese => .english } }

def switchCharacterForm (sh : Shared D L) : Shared D L :=
  { sh with options := { sh.options with characterForm :=
      match sh.options.characterForm with
      | .half => .full
      | .full => .half } }

/-- `cancel_selecting` -/
def cancelSelecting (sh : Shared D L) : Shared D L := { sh with com := sh.com.popCursor }

def msgFail : Text := "加詞失敗：字數不符或夾雜符號".toList.map Char.toNat
def msgAdded (p : Text) : Text := "加入：".toList.map Char.toNat ++ p
def msgExists (p : Text) : Text := "已有：".toList.map Char.toNat ++ p

/-- `SharedState::learn_phrase` (auto-learning and `Editor::learn_phrase`); `Bool` = `Ok`/`Err` -/
def learnPhrase (sh : Shared D L) (syllables : List Nat) (phrase : Text) : Outcome (Shared D L × Bool) :=
  if syllables.length != phrase.length then .ok (sh, false)
  else
    let phrases := env.lookupAll sh.dict syllables .standard
    if phrases.isEmpty then
      match env.addPhrase sh.dict syllables { text := phrase, freq := 1 } with
      | some d => .ok ({ sh with dict := d }, true)
      | none => .ok (sh, false)
    else
      let phraseFreq := ((phrases.find? (fun p => p.text == phrase)).map (·.freq)).getD 0
      let maxFreq := (phrases.map (·.freq)).foldl max 0
      let maxFreq := if phrases.isEmpty then 1 else maxFreq
      match env.estimate sh.time phraseFreq maxFreq with
      | .ok userFreq =>
        .ok ({ sh with dict := env.updatePhrase sh.dict syllables { text := phrase, freq := phraseFreq } userFreq sh.time,
                       dirty := sh.dirty + 1 }, true)
      | .panic p => .panic p
      | .outOfFuel => .outOfFuel

/-- `SharedState::unlearn_phrase` -/
def unlearnPhrase (sh : Shared D L) (syllables : List Nat) (phrase : Text) : Shared D L :=
  { sh with dict := env.removePhrase sh.dict syllables phrase, dirty := sh.dirty + 1 }

/-- `learn_phrase_in_range_quiet`: `Except message phrase` -/
def learnInRangeQuiet (sh : Shared D L) (start stop : Nat) : Outcome (Shared D L × Except Text Text) :=
  if stop > sh.com.len then .ok (sh, .error msgFail)
  else match sliceSyms sh.com.symbols start stop with
    | .panic p => .panic p
    | .outOfFuel => .outOfFuel
    | .ok syms =>
      if syms.any (fun s => !s.isSyl) then .ok (sh, .error msgFail)
      else match display env sh with
        | .panic p => .panic p
        | .outOfFuel => .outOfFuel
        | .ok disp =>
          let phrase := (disp.drop start).take (stop - start)
          let key := sylPrefix syms
          if (env.userLookupAll sh.dict key .standard).any (fun p => p.text == phrase) then
            .ok (sh, .error (msgExists phrase))
          else match env.addPhrase sh.dict key { text := phrase, freq := 100 } with
            | some d => .ok ({ sh with dict := d, dirty := sh.dirty + 1 }, .ok phrase)
            | none => .ok (sh, .error msgFail)

/-- `learn_phrase_in_range_notify`; `Bool` = `Ok` -/
def learnInRangeNotify (sh : Shared D L) (start stop : Nat) : Outcome (Shared D L × Bool) :=
  match learnInRangeQuiet env sh start stop with
  | .ok (sh', .ok phrase) => .ok ({ sh' with noticeBuf := msgAdded phrase }, true)
  | .ok (sh', .error msg) => .ok ({ sh' with noticeBuf := msg }, false)
  | .panic p => .panic p
  | .outOfFuel => .outOfFuel

/-- `auto_learn`: runs of single non-break characters are learned joined; other phrase intervals as such -/
def autoLearn (sh : Shared D L) (intervals : List Interval) : Outcome (Shared D L) :=
  go sh intervals [] []
where
  flush (sh : Shared D L) (pending : Text) (syls : List Sym) : Outcome (Shared D L) :=
    if pending.isEmpty then .ok sh
    else match learnPhrase env sh (sylPrefix syls) pending with
      | .ok (sh', _) => .ok sh'
      | .panic p => .panic p
      | .outOfFuel => .outOfFuel
  go (sh : Shared D L) : List Interval → Text → List Sym → Outcome (Shared D L)
    | [], pending, syls => flush sh pending syls
    | iv :: rest, pending, syls =>
      if iv.stop < iv.start then .panic "interval-len-underflow"
      else if iv.isPhrase && iv.len == 1 && !isBreakWord iv.text then
        match sliceSyms sh.com.symbols iv.start iv.stop with
        | .ok ss => go sh rest (pending ++ iv.text) (syls ++ ss)
        | .panic p => .panic p
        | .outOfFuel => .outOfFuel
      else
        match flush sh pending syls with
        | .ok sh1 =>
          if iv.isPhrase then
            match sliceSyms sh1.com.symbols iv.start iv.stop with
            | .ok ss =>
              match learnPhrase env sh1 (sylPrefix ss) iv.text with
              | .ok (sh2, _) => go sh2 rest [] []
              | .panic p => .panic p
              | .outOfFuel => .outOfFuel
            | .panic p => .panic p
            | .outOfFuel => .outOfFuel
          else go sh1 rest [] []
        | .panic p => .panic p
        | .outOfFuel => .outOfFuel

/-- `SharedState::commit` -/
def commit (sh : Shared D L) : Outcome (Shared D L) :=
  match conversion env sh with
  | .panic p => .panic p
  | .outOfFuel => .outOfFuel
  | .ok intervals =>
    let learned := if !sh.options.disableAutoLearnPhrase then autoLearn env { sh with commitBuf := [] } intervals
                   else .ok { sh with commitBuf := [] }
    match learned with
    | .ok sh1 =>
      .ok { sh1 with commitBuf := intervals.flatMap (·.text), com := sh1.com.clear, nth := 0, last := .commit }
    | .panic p => .panic p
    | .outOfFuel => .outOfFuel

/-- the loop of `try_auto_commit`: (text to commit, number of symbols to remove) -/
def autoCommitTake (len threshold : Nat) : List Interval → Text → Nat → Outcome (Text × Nat)
  | [], buf, remove => .ok (buf, remove)
  | iv :: rest, buf, remove =>
    if iv.stop < iv.start then .panic "interval-len-underflow"
    else
      let remove' := remove + iv.len
      if len < remove' then .panic "auto-commit-underflow"
      else if len - remove' ≤ threshold then .ok (buf ++ iv.text, remove')
      else autoCommitTake len threshold rest (buf ++ iv.text) remove'

/-- `SharedState::try_auto_commit` -/
def tryAutoCommit (sh : Shared D L) : Outcome (Shared D L) :=
  let len := sh.com.len
  if len ≤ sh.options.autoCommitThreshold then .ok sh
  else match conversion env sh with
    | .panic p => .panic p
    | .outOfFuel => .outOfFuel
    | .ok intervals =>
      match autoCommitTake len sh.options.autoCommitThreshold intervals [] 0 with
      | .ok (buf, remove) =>
        match sh.com.removeFront remove with
        | .ok com => .ok { sh with commitBuf := buf, com := com, last := .commit }
        | .panic p => .panic p
        | .outOfFuel => .outOfFuel
      | .panic p => .panic p
      | .outOfFuel => .outOfFuel

end Shared

/-! ### transitions -/

/-- `enum Transition` -/
inductive Trans where
  | toState (s : St)
  | spin (b : KB)
deriving Repr, DecidableEq, Inhabited

abbrev StepRes (D L : Type) := Outcome (Shared D L × Trans)

/-- lift a `CompEditor` outcome into the shared state -/
def withCom (sh : Shared D L) (r : Outcome CompEditor) (k : Shared D L → StepRes D L) : StepRes D L :=
  match r with
  | .ok c => k { sh with com := c }
  | .panic p => .panic p
  | .outOfFuel => .outOfFuel

/-- `Selecting::candidates` -/
def Selecting.candidates (s : Selecting) (sh : Shared D L) : Outcome (List Text) :=
  match s.sel with
  | .phrase p => PhraseSel.candidates env p sh.dict sh.syl
  | .symbol y => y.menu
  | .special sym => specialMenu sym

/-- `Selecting::total_page` (`div_ceil`: divides by `candidates_per_page`, zero panics) -/
def Selecting.totalPage (s : Selecting) (sh : Shared D L) : Outcome Nat :=
  match Selecting.candidates env s sh with
  | .ok cs =>
    if sh.options.candidatesPerPage == 0 then .panic "div-ceil-zero"
    else .ok ((cs.length + sh.options.candidatesPerPage - 1) / sh.options.candidatesPerPage)
  | .panic p => .panic p
  | .outOfFuel => .outOfFuel

/-- `Selecting::new_phrase` -/
def newPhrase (sh : Shared D L) : StepRes D L :=
  let com := sh.com.pushCursor.clampCursor
  let sh := { sh with com := com }
  match PhraseSel.init env (!sh.options.phraseChoiceRearward) sh.options.lookupStrategy com.inner com.cursor sh.dict with
  | .ok sel => .ok (sh, .toState (.selecting { pageNo := 0, action := .replace, sel := .phrase sel }))
  | .panic p => .panic p
  | .outOfFuel => .outOfFuel

/-- `Selecting::open_phrase`: `new_phrase`, but a list without candidates (a syllable the dictionary has
    no word for) is not opened: `cancel_selecting` restores the saved cursor and the request is ignored -/
def openPhrase (sh : Shared D L) : StepRes D L :=
  match newPhrase env sh with
  | .ok (sh', .toState (.selecting s)) =>
    match Selecting.candidates env s sh' with
    | .ok [] => .ok (Shared.cancelSelecting sh', .spin .ignore)
    | .ok _ => .ok (sh', .toState (.selecting s))
    | .panic p => .panic p
    | .outOfFuel => .outOfFuel
  | r => r

/-- `Selecting::new_phrase_for_simple_engine` -/
def newPhraseSimple (sh : Shared D L) : StepRes D L :=
  let com := sh.com.pushCursor
  let sh := { sh with com := com }
  match PhraseSel.initSingleWord sh.options.lookupStrategy com.inner com.cursor with
  | .ok sel => .ok (sh, .toState (.selecting { pageNo := 0, action := .replace, sel := .phrase sel }))
  | .panic p => .panic p
  | .outOfFuel => .outOfFuel

/-- `Selecting::new_symbol` -/
def newSymbol (sh : Shared D L) : Selecting :=
  { pageNo := 0, action := .insert, sel := .symbol sh.symSel }

/-- `Selecting::new_special_symbol` -/
def newSpecialSymbol (sh : Shared D L) (sym : Sym) : StepRes D L :=
  let sh := { sh with com := sh.com.pushCursor.clampCursor }
  match specialMenu sym with
  | .ok [] => .ok (sh, .toState (.selecting { newSymbol sh with action := .replace }))
  | .ok _ => .ok (sh, .toState (.selecting { pageNo := 0, action := .replace, sel := .special sym }))
  | .panic p => .panic p
  | .outOfFuel => .outOfFuel

/-- `Selecting::open_symbol` (the FX1 repair): `new_symbol`, but an empty symbol table (an editor created without
    `symbols.dat`) is not opened: the request is ignored -/
def openSymbol (sh : Shared D L) : StepRes D L :=
  match Selecting.candidates env (newSymbol sh) sh with
  | .ok [] => .ok (sh, .spin .ignore)
  | .ok _ => .ok (sh, .toState (.selecting (newSymbol sh)))
  | .panic p => .panic p
  | .outOfFuel => .outOfFuel

/-- `Selecting::open_special_symbol` (the FX1 repair): `new_special_symbol`, but a list without candidates (no
    special symbols for the character and an empty symbol table to fall back to) is not opened:
    `cancel_selecting` restores the saved cursor and the request is ignored -/
def openSpecialSymbol (sh : Shared D L) (sym : Sym) : StepRes D L :=
  match newSpecialSymbol sh sym with
  | .ok (sh', .toState (.selecting s)) =>
    match Selecting.candidates env s sh' with
    | .ok [] => .ok (Shared.cancelSelecting sh', .spin .ignore)
    | .ok _ => .ok (sh', .toState (.selecting s))
    | .panic p => .panic p
    | .outOfFuel => .outOfFuel
  | r => r

/-- `Entering::start_selecting` (also `EnteringSyllable::start_selecting` after clearing the syllable) -/
def startSelecting (sh : Shared D L) : StepRes D L :=
  match sh.com.symbolForSelect with
  | some sym => if sym.isSyl then openPhrase env sh else openSpecialSymbol env sh sym
  | none => .ok (sh, .spin .ignore)

/-- `Entering::start_selecting_or_input_space` -/
def startSelectingOrInputSpace (sh : Shared D L) : StepRes D L :=
  match sh.com.symbolForSelect with
  | some sym => if sym.isSyl then openPhrase env sh else openSpecialSymbol env sh sym
  | none =>
    if sh.com.isEmpty then
      let ch := match sh.options.characterForm with
        | .half => 32
        | .full => 12288
      .ok ({ sh with commitBuf := sh.commitBuf ++ [ch] }, .spin .commit)
    else .ok (sh, .spin .ignore)

/-- commit one character at once when the buffer is empty, else insert it at the cursor -/
def commitOrInsert (sh : Shared D L) (ch : Nat) : StepRes D L :=
  if sh.com.isEmpty then .ok ({ sh with commitBuf := [ch] }, .spin .commit)
  else withCom sh (sh.com.insert (.chr ch)) fun sh => .ok (sh, .spin .absorb)

/-- insert each character of `chars` at the cursor -/
def insertChars (com : CompEditor) : List Nat → Outcome CompEditor
  | [] => .ok com
  | c :: cs =>
    match com.insert (.chr c) with
    | .ok com' => insertChars com' cs
    | .panic p => .panic p
    | .outOfFuel => .outOfFuel

/-- full-width replacement of the key's character; a key that has none (a non-printable key) is
    answered with a bell (`let Some(char_) = full_width_symbol_input(..) else { return self.spin_bell() }`;
    before the F01 fix this was `unwrap()`, a panic) -/
def fullOrBell (sh : Shared D L) (ev : KeyEvent) (k : Nat → StepRes D L) : StepRes D L :=
  match fullWidthSymbolInput ev.unicode with
  | some c => k c
  | none => .ok (sh, .spin .bell)

/-- commit / insert the key's character in the current character form -/
def inputChar (sh : Shared D L) (ev : KeyEvent) : StepRes D L :=
  match sh.options.characterForm with
  | .half => commitOrInsert sh ev.unicode
  | .full => fullOrBell sh ev fun c => commitOrInsert sh c

/-- Chinese mode, key not taken by the phonetic layout: special symbol, printable character, or bell -/
def chineseFallback (sh : Shared D L) (ev : KeyEvent) : StepRes D L :=
  match specialSymbolInput ev.unicode with
  | some s => withCom sh (sh.com.insert (.chr s)) fun sh => .ok (sh, .spin .absorb)
  | none => if ev.isPrintable then inputChar sh ev else .ok (sh, .spin .bell)

/-- `impl State for Entering`, the catch-all arm (`_ => …`) -/
def enteringDefault (sh : Shared D L) (ev : KeyEvent) : StepRes D L :=
  match sh.options.languageMode with
  | .chinese =>
    if ev.code == KC.grave && ev.mods.isNone then
      openSymbol env sh
    else if ev.code == KC.space then inputChar sh ev
    else if sh.options.easySymbolInput then
      match (sh.abbr.find? (fun p => p.1 == ev.unicode)).map (·.2) with
      | some expanded => withCom sh (insertChars sh.com expanded) fun sh => .ok (sh, .spin .absorb)
      | none =>
        match specialSymbolInput ev.unicode with
        | some s => withCom sh (sh.com.insert (.chr s)) fun sh => .ok (sh, .spin .absorb)
        | none =>
          if ev.mods.isNone then
            if (env.keyPress sh.syl ev).1 == .absorb then
              .ok ({ sh with syl := (env.keyPress sh.syl ev).2 }, .toState .enteringSyllable)
            else .ok ({ sh with syl := (env.keyPress sh.syl ev).2 }, .spin .bell)
          else .ok (sh, .spin .bell)
    else if ev.mods.isNone then
      if (env.keyPress sh.syl ev).1 == .absorb then
        .ok ({ sh with syl := (env.keyPress sh.syl ev).2 }, .toState .enteringSyllable)
      else chineseFallback { sh with syl := (env.keyPress sh.syl ev).2 } ev
    else chineseFallback sh ev
  | .english => inputChar sh ev

/-! `impl State for Entering`: the arms of `next`, one definition each -/

def enteringBackspace (sh : Shared D L) : StepRes D L :=
  if sh.com.isEmpty then .ok (sh, .spin .ignore)
  else withCom sh sh.com.removeBeforeCursor fun sh => .ok (sh, .spin .absorb)

/-- result of an add-phrase attempt as a transition -/
def learnTrans (r : Outcome (Shared D L × Bool)) : StepRes D L :=
  match r with
  | .ok (sh', okk) => .ok (sh', .spin (if okk then .absorb else .bell))
  | .panic p => .panic p
  | .outOfFuel => .outOfFuel

/-- Ctrl + digit: open the symbol table (0, 1) or add the `n` symbols before/after the cursor as a phrase -/
def enteringCtrlDigit (sh : Shared D L) (c : Nat) : StepRes D L :=
  if c == KC.n0 || c == KC.n1 then openSymbol env sh
  else
    let cur := sh.com.cursor
    match sh.options.userPhraseAddDir with
    | .forward => learnTrans (Shared.learnInRangeNotify env sh cur (cur + c))
    | .backward =>
      if cur ≥ c then learnTrans (Shared.learnInRangeNotify env sh (cur - c) cur)
      else .ok ({ sh with noticeBuf := Shared.msgFail }, .spin .bell)

/-- Tab inside the buffer: glue at an interval end, otherwise break -/
def enteringTabInside (sh : Shared D L) : StepRes D L :=
  match Shared.conversion env sh with
  | .ok ivs =>
    if (ivs.map (·.stop)).contains sh.com.cursor then
      withCom sh sh.com.insertGlue fun sh => .ok (sh, .spin .absorb)
    else withCom sh sh.com.insertBreak fun sh => .ok (sh, .spin .absorb)
  | .panic p => .panic p
  | .outOfFuel => .outOfFuel

def enteringDel (sh : Shared D L) : StepRes D L :=
  if sh.com.isEob then .ok (sh, .spin .ignore)
  else withCom sh sh.com.removeAfterCursor fun sh => .ok (sh, .spin .absorb)

def enteringShiftLeft (sh : Shared D L) : StepRes D L :=
  if sh.com.isBob then .ok (sh, .spin .ignore)
  else .ok (sh, .toState (.highlighting (sh.com.cursor - 1)))

def enteringShiftRight (sh : Shared D L) : StepRes D L :=
  if sh.com.isEob then .ok (sh, .spin .ignore)
  else .ok (sh, .toState (.highlighting (sh.com.cursor + 1)))

def enteringEnter (sh : Shared D L) : StepRes D L :=
  match Shared.commit env sh with
  | .ok sh' => .ok (sh', .spin .commit)
  | .panic p => .panic p
  | .outOfFuel => .outOfFuel

def enteringEsc (sh : Shared D L) : StepRes D L :=
  if sh.options.escClearAllBuffer && !sh.com.isEmpty then
    .ok ({ sh with com := sh.com.clear }, .spin .absorb)
  else .ok (sh, .spin .ignore)

/-- the keys that are passed through (ignored) when the buffer is empty -/
def isIdleKey (c : Nat) : Bool :=
  c == KC.enter || c == KC.esc || c == KC.tab || c == KC.home || c == KC.end_ || c == KC.left
    || c == KC.right || c == KC.up || c == KC.down || c == KC.pageUp || c == KC.pageDown

/-- `impl State for Entering`: `next` (arm order of the Rust `match`) -/
def enteringNext (sh : Shared D L) (ev : KeyEvent) : StepRes D L :=
  if ev.code == KC.backspace then enteringBackspace sh
  else if ev.code == KC.unknown && ev.mods.capslock then .ok (Shared.switchLanguageMode sh, .spin .absorb)
  else if isDigitCode ev.code && ev.mods.ctrl then enteringCtrlDigit env sh ev.code
  else if isIdleKey ev.code && sh.com.isEmpty then .ok (sh, .spin .ignore)
  else if ev.code == KC.tab && sh.com.isEob then .ok ({ sh with nth := sh.nth + 1 }, .spin .absorb)
  else if ev.code == KC.tab then enteringTabInside env sh
  else if ev.code == KC.del then enteringDel sh
  else if ev.code == KC.home then .ok ({ sh with com := sh.com.moveToBeginning }, .spin .absorb)
  else if ev.code == KC.left && ev.mods.shift then enteringShiftLeft sh
  else if ev.code == KC.right && ev.mods.shift then enteringShiftRight sh
  else if ev.code == KC.left then .ok ({ sh with com := sh.com.moveLeft }, .spin .absorb)
  else if ev.code == KC.right then .ok ({ sh with com := sh.com.moveRight }, .spin .absorb)
  else if ev.code == KC.up then .ok (sh, .spin .ignore)
  else if ev.code == KC.space && ev.mods.shift && sh.options.enableFullwidthToggleKey then
    .ok (Shared.switchCharacterForm sh, .spin .absorb)
  else if ev.code == KC.space && sh.options.spaceIsSelectKey && sh.options.languageMode == .chinese then
    startSelectingOrInputSpace env sh
  else if ev.code == KC.down then startSelecting env sh
  else if ev.code == KC.end_ || ev.code == KC.pageUp || ev.code == KC.pageDown then
    .ok ({ sh with com := sh.com.moveToEnd }, .spin .absorb)
  else if ev.code == KC.enter then enteringEnter env sh
  else if ev.code == KC.esc then enteringEsc sh
  else if ev.mods.numlock then commitOrInsert sh ev.unicode
  else enteringDefault env sh ev

/-- `EnteringSyllable`: the layout has answered `beh` (its new state is already in `sh`) -/
def syllableAnswer (sh : Shared D L) (beh : LayoutBeh) : StepRes D L :=
  match beh with
  | .absorb => if env.sylIsEmpty sh.syl then .ok (sh, .toState .entering) else .ok (sh, .spin .absorb)
  | .fuzzy s =>
    if env.hasPhrase sh.dict [s] sh.options.lookupStrategy then
      withCom sh (sh.com.insert (.syl s)) fun sh => .ok (sh, .spin .absorb)
    else .ok (sh, .spin .absorb)
  | .commit =>
    if env.hasPhrase sh.dict [env.read sh.syl] sh.options.lookupStrategy then
      withCom sh (sh.com.insert (.syl (env.read sh.syl))) fun sh =>
        if sh.options.conversionEngine == .simple then
          newPhraseSimple { sh with syl := env.clearSyl (env.clearSyl sh.syl) }
        else .ok ({ sh with syl := env.clearSyl sh.syl }, .toState .entering)
    else .ok ({ sh with syl := env.clearSyl sh.syl }, .toState .entering)
  | _ => .ok (sh, .spin .bell)

/-- `impl State for EnteringSyllable`: `next` -/
def enteringSyllableNext (sh : Shared D L) (ev : KeyEvent) : StepRes D L :=
  if ev.code == KC.backspace then
    if !env.sylIsEmpty (env.removeLast sh.syl) then .ok ({ sh with syl := env.removeLast sh.syl }, .spin .absorb)
    else .ok ({ sh with syl := env.removeLast sh.syl }, .toState .entering)
  else if ev.code == KC.unknown && ev.mods.capslock then
    .ok (Shared.switchLanguageMode { sh with syl := env.clearSyl sh.syl }, .toState .entering)
  else if ev.code == KC.esc then
    if sh.options.escClearAllBuffer then
      .ok ({ sh with syl := env.clearSyl sh.syl, com := sh.com.clear }, .toState .entering)
    else .ok ({ sh with syl := env.clearSyl sh.syl }, .toState .entering)
  else
    match sh.options.lookupStrategy with
    | .fuzzyPartialPrefix =>
      syllableAnswer env { sh with syl := (env.fuzzyKeyPress sh.syl ev).2 } (env.fuzzyKeyPress sh.syl ev).1
    | .standard =>
      syllableAnswer env { sh with syl := (env.keyPress sh.syl ev).2 } (env.keyPress sh.syl ev).1

/-- the candidate index addressed by choosing `n` on the current page:
    `page_no.saturating_mul(candidates_per_page).saturating_add(n)` (`usize`).  A saturated index is
    `usize::MAX`, which no `Vec` or `str` can reach, so it is out of range like any other. -/
def Selecting.offset (s : Selecting) (sh : Shared D L) (n : Nat) : Nat :=
  min (s.pageNo * sh.options.candidatesPerPage + n) (2 ^ 64 - 1)

/-- `Selecting::select(n)`: returns the (possibly updated) selecting state too -/
def Selecting.select (s : Selecting) (sh : Shared D L) (n : Nat) : Outcome (Selecting × Shared D L × Trans) :=
  let offset := Selecting.offset s sh n
  let finish (sh : Shared D L) (sym : Sym) : Outcome (Selecting × Shared D L × Trans) :=
    let r := match s.action with
      | .insert => sh.com.insert sym
      | .replace => sh.com.replace sym
    match r with
    | .ok com => .ok (s, { sh with com := com.popCursor }, .toState .entering)
    | .panic p => .panic p
    | .outOfFuel => .outOfFuel
  -- `if offset >= self.candidates(..).len() { return self.spin_bell() }`: nothing listed at this index
  match Selecting.candidates env s sh with
  | .panic q => .panic q
  | .outOfFuel => .outOfFuel
  | .ok listed =>
  if offset ≥ listed.length then .ok (s, sh, .spin .bell) else
  match s.sel with
  | .phrase p =>
    match PhraseSel.candidates env p sh.dict sh.syl with
    | .ok cands =>
      match cands[offset]? with
      | some phrase =>
        match sh.com.select (p.interval phrase) with
        | .ok com =>
          let com := com.popCursor
          let com := if sh.options.autoShiftCursor then com.moveRight else com
          .ok (s, { sh with com := com }, .toState .entering)
        | .panic q => .panic q
        | .outOfFuel => .outOfFuel
      | none => .ok (s, sh, .spin .bell)
    | .panic q => .panic q
    | .outOfFuel => .outOfFuel
  | .symbol y =>
    match y.select offset with
    | .ok (some sym, y') => finish sh sym |>.map fun (_, sh', t) => ({ s with sel := .symbol y' }, sh', t)
    | .ok (none, y') =>
      -- a category: its sub-table opens on page 0; one without symbols closes the list (the FX1 repair)
      match y'.menu with
      | .ok [] => .ok ({ s with sel := .symbol y', pageNo := 0 }, Shared.cancelSelecting sh, .toState .entering)
      | .ok _ => .ok ({ s with sel := .symbol y', pageNo := 0 }, sh, .spin .absorb)
      | .panic q => .panic q
      | .outOfFuel => .outOfFuel
    | .panic q => .panic q
    | .outOfFuel => .outOfFuel
  | .special sym =>
    match specialSelect sym offset with
    | .ok (some out) => finish sh out
    | .ok none => .ok ({ s with pageNo := 0 }, sh, .spin .absorb)
    | .panic q => .panic q
    | .outOfFuel => .outOfFuel

/-- re-target the selection at the symbol under the cursor (keys `j` / `k`): the new list starts at
    page 0; a symbol without special-symbol candidates gets the symbol table (as in `newSpecialSymbol`) -/
def retarget (s : Selecting) (sh : Shared D L) : StepRes D L :=
  match sh.com.symbol? with
  | none => .panic "should-have-symbol"
  | some sym =>
    if sym.isSyl then
      match PhraseSel.init env (!sh.options.phraseChoiceRearward) sh.options.lookupStrategy sh.com.inner sh.com.cursor sh.dict with
      | .ok sel => .ok (sh, .toState (.selecting { s with sel := .phrase sel, pageNo := 0 }))
      | .panic p => .panic p
      | .outOfFuel => .outOfFuel
    else
      match specialMenu sym with
      | .ok [] => .ok (sh, .toState (.selecting { s with sel := .symbol sh.symSel, pageNo := 0 }))
      | .ok _ => .ok (sh, .toState (.selecting { s with sel := .special sym, pageNo := 0 }))
      | .panic p => .panic p
      | .outOfFuel => .outOfFuel

/-- `impl State for Selecting`: `next`.  A `Spin` that changed the `Selecting` value itself is
    represented as `toState (.selecting s')` with the behaviour recorded separately (`spinSelf`). -/
structure SelRes (D L : Type) where
  shared : Shared D L
  sel : Selecting
  trans : Trans

/-- Down / Space: next page, or (at the last page) page 0 and the next phrase range -/
def selDownSpace (s : Selecting) (sh : Shared D L) : Outcome (SelRes D L) :=
  match Selecting.totalPage env s sh with
  | .ok tp =>
    if s.pageNo + 1 < tp then .ok ⟨sh, { s with pageNo := s.pageNo + 1 }, .spin .absorb⟩
    else
      match s.sel with
      | .phrase p =>
        match PhraseSel.next env p sh.dict with
        | .ok p' => .ok ⟨sh, { s with pageNo := 0, sel := .phrase p' }, .spin .absorb⟩
        | .panic q => .panic q
        | .outOfFuel => .outOfFuel
      | _ => .ok ⟨sh, { s with pageNo := 0 }, .spin .absorb⟩
  | .panic q => .panic q
  | .outOfFuel => .outOfFuel

/-- the end of the `j` / `k` arms: `if self.total_page(..) == 0 { shared.cancel_selecting(); return
    self.start_entering() }` — a list without candidates (a syllable without a word) is closed -/
def closeIfEmpty (r : SelRes D L) : Outcome (SelRes D L) :=
  match Selecting.totalPage env r.sel r.shared with
  | .ok tp => if tp == 0 then .ok ⟨Shared.cancelSelecting r.shared, r.sel, .toState .entering⟩ else .ok r
  | .panic q => .panic q
  | .outOfFuel => .outOfFuel

/-- `j` / `k`: move the selection to the previous / next symbol -/
def selMove (s : Selecting) (sh : Shared D L) (isJ : Bool) : Outcome (SelRes D L) :=
  if sh.com.isEmpty then .ok ⟨sh, s, .spin .ignore⟩
  else
    let begin := match s.sel with
      | .phrase p => p.begin_
      | _ => sh.com.cursor
    let com := if isJ then sh.com.moveCursor (begin - 1)
               else (sh.com.moveCursor (begin + 1)).clampCursor
    match retarget env s { sh with com := com } with
    | .ok (sh', .toState (.selecting s')) => closeIfEmpty env ⟨sh', s', .spin .absorb⟩
    | .ok (sh', _) => closeIfEmpty env ⟨sh', s, .spin .absorb⟩
    | .panic q => .panic q
    | .outOfFuel => .outOfFuel

/-- Left / PageUp -/
def selPrevPage (s : Selecting) (sh : Shared D L) : Outcome (SelRes D L) :=
  if s.pageNo > 0 then .ok ⟨sh, { s with pageNo := s.pageNo - 1 }, .spin .absorb⟩
  else match Selecting.totalPage env s sh with
    | .ok tp => .ok ⟨sh, { s with pageNo := tp - 1 }, .spin .absorb⟩
    | .panic q => .panic q
    | .outOfFuel => .outOfFuel

/-- Right / PageDown -/
def selNextPage (s : Selecting) (sh : Shared D L) : Outcome (SelRes D L) :=
  match Selecting.totalPage env s sh with
  | .ok tp =>
    if s.pageNo + 1 < tp then .ok ⟨sh, { s with pageNo := s.pageNo + 1 }, .spin .absorb⟩
    else .ok ⟨sh, { s with pageNo := 0 }, .spin .absorb⟩
  | .panic q => .panic q
  | .outOfFuel => .outOfFuel

/-- a digit key: choose candidate `digit - 1` of the current page -/
def selDigit (s : Selecting) (sh : Shared D L) (c : Nat) : Outcome (SelRes D L) :=
  match Selecting.select env s sh (c - 1) with
  | .ok (s', sh', t) => .ok ⟨sh', s', t⟩
  | .panic q => .panic q
  | .outOfFuel => .outOfFuel

def selectingNext (s : Selecting) (sh : Shared D L) (ev : KeyEvent) : Outcome (SelRes D L) :=
  if ev.mods.ctrl || ev.mods.shift then .ok ⟨sh, s, .spin .bell⟩
  else if ev.code == KC.backspace then .ok ⟨Shared.cancelSelecting sh, s, .toState .entering⟩
  else if ev.code == KC.unknown && ev.mods.capslock then
    .ok ⟨Shared.cancelSelecting (Shared.switchLanguageMode sh), s, .toState .entering⟩
  else if ev.code == KC.up then .ok ⟨Shared.cancelSelecting sh, s, .toState .entering⟩
  else if ev.code == KC.down || ev.code == KC.space then selDownSpace env s sh
  else if ev.code == KC.j then selMove env s sh true
  else if ev.code == KC.k then selMove env s sh false
  else if ev.code == KC.left || ev.code == KC.pageUp then selPrevPage env s sh
  else if ev.code == KC.right || ev.code == KC.pageDown then selNextPage env s sh
  else if isDigitCode ev.code then selDigit env s sh ev.code
  else if ev.code == KC.esc then
    .ok ⟨{ sh with com := (Shared.cancelSelecting sh).com.popCursor }, s, .toState .entering⟩
  else if ev.code == KC.del then .ok ⟨sh, s, .spin .absorb⟩
  else .ok ⟨sh, s, .spin .bell⟩

/-- `impl State for Highlighting`: `next`; returns the (possibly moved) highlight cursor too -/
def highlightingNext (moving : Nat) (sh : Shared D L) (ev : KeyEvent) : Outcome (Shared D L × Nat × Trans) :=
  let c := ev.code
  if c == KC.unknown && ev.mods.capslock then
    .ok (Shared.switchLanguageMode sh, moving, .toState .entering)
  else if c == KC.left && ev.mods.shift then
    .ok (sh, if moving != 0 then moving - 1 else moving, .spin .absorb)
  else if c == KC.right && ev.mods.shift then
    .ok (sh, if moving != sh.com.len then moving + 1 else moving, .spin .absorb)
  else if c == KC.enter then
    let start := min moving sh.com.cursor
    let stop := max moving sh.com.cursor
    let sh := { sh with com := sh.com.moveCursor moving }
    match Shared.learnInRangeNotify env sh start stop with
    | .ok (sh', _) => .ok (sh', moving, .toState .entering)
    | .panic p => .panic p
    | .outOfFuel => .outOfFuel
  else .ok (sh, moving, .toState .entering)

/-! ### process_keyevent -/

/-- the part of `process_keyevent` / `select` / `start_selecting` after the state's `next`:
    record the behaviour, switch state -/
def applyTrans (sh : Shared D L) (st : St) (t : Trans) : Shared D L × St :=
  match t with
  | .toState s => ({ sh with last := .absorb }, s)
  | .spin b => ({ sh with last := b }, st)

/-- `BasicEditor::process_keyevent`: returns the new editor and the reported behaviour -/
def Editor.processKey (e : Editor D L) (ev : KeyEvent) : Outcome (Editor D L × KB) :=
  let sh := e.shared
  let sh := { sh with time := sh.time + 1, noticeBuf := [], commitBuf := [] }
  let r : Outcome (Shared D L × St) :=
    match e.state with
    | .entering => (enteringNext env sh ev).map fun (sh', t) => applyTrans sh' .entering t
    | .enteringSyllable => (enteringSyllableNext env sh ev).map fun (sh', t) => applyTrans sh' .enteringSyllable t
    | .selecting s => (selectingNext env s sh ev).map fun r => applyTrans r.shared (.selecting r.sel) r.trans
    | .highlighting m => (highlightingNext env m sh ev).map fun (sh', m', t) => applyTrans sh' (.highlighting m') t
  match r with
  | .panic p => .panic p
  | .outOfFuel => .outOfFuel
  | .ok (sh, st) =>
    let r2 := if (st == .entering || st == .enteringSyllable) && sh.last == .absorb then Shared.tryAutoCommit env sh else .ok sh
    match r2 with
    | .panic p => .panic p
    | .outOfFuel => .outOfFuel
    | .ok sh =>
      let sh := if sh.dirty > 0 then { sh with dict := env.reopenFlush sh.dict, dirty := 0 } else sh
      .ok ({ shared := sh, state := st }, sh.last)

/-! ### the other public entry points of `Editor` -/

/-- `Editor::clear` (reset) -/
def Editor.clear (e : Editor D L) : Editor D L :=
  { shared := Shared.clear env e.shared, state := .entering }

/-- `Editor::ack` -/
def Editor.ack (e : Editor D L) : Editor D L := { e with shared := { e.shared with commitBuf := [] } }

/-- `Editor::leave_entering_syllable_if_empty`: an API call that emptied the phonetic buffer returns the
    editor to `Entering` -/
def Editor.leaveIfEmpty (e : Editor D L) : Editor D L :=
  if env.sylIsEmpty e.shared.syl && e.state == .enteringSyllable then { e with state := .entering } else e

/-- `Editor::revalidate_selecting` (the F32 repair): after an API call that may have changed the page size
    or what an open list shows, the current page is clamped below the page count and a list that has become
    empty is closed (`cancel_selecting`: the saved cursor is restored) -/
def Editor.revalidate (e : Editor D L) : Outcome (Editor D L) :=
  match e.state with
  | .selecting s =>
    match Selecting.totalPage env s e.shared with
    | .ok tp =>
      if tp == 0 then .ok { shared := Shared.cancelSelecting e.shared, state := .entering }
      else if s.pageNo ≥ tp then .ok { e with state := .selecting { s with pageNo := tp - 1 } }
      else .ok e
    | .panic p => .panic p
    | .outOfFuel => .outOfFuel
  | _ => .ok e

/-- `Editor::clear_syllable_editor` -/
def Editor.clearSyllableEditor (e : Editor D L) : Editor D L :=
  Editor.leaveIfEmpty env { e with shared := { e.shared with syl := env.clearSyl e.shared.syl } }

/-- `Editor::set_syllable_editor`, up to its final `revalidate_selecting` (see `Editor.apply`) -/
def Editor.setLayout (e : Editor D L) (l : L) : Editor D L :=
  Editor.leaveIfEmpty env { e with shared := { e.shared with syl := l } }

/-- `Editor::set_editor_options`, up to its final `revalidate_selecting` (see `Editor.apply`) -/
def Editor.setOptions (e : Editor D L) (o : Options) : Editor D L :=
  let sh := e.shared
  let sh := if sh.options.languageMode != o.languageMode then { sh with syl := env.clearSyl sh.syl } else sh
  Editor.leaveIfEmpty env { e with shared := { sh with options := o } }

/-- `Editor::select(n)`; `Bool` = `Ok`.  The auto-commit runs only once the candidate list has closed
    (`(self.is_entering() || self.is_entering_syllable()) &&`, as in `process_keyevent` — both editing states
    since the FX3/FX4 repair; before the C01 fix it also ran under a list that stayed open, cutting the
    buffer from under the selector) -/
def Editor.select (e : Editor D L) (n : Nat) : Outcome (Editor D L × Bool) :=
  match e.state with
  | .selecting s =>
    match Selecting.select env s e.shared n with
    | .ok (s', sh, t) =>
      let (sh, st) := applyTrans sh (.selecting s') t
      let r := if (st == .entering || st == .enteringSyllable) && sh.last == .absorb then Shared.tryAutoCommit env sh else .ok sh
      match r with
      | .ok sh => .ok ({ shared := sh, state := st }, sh.last != .bell)
      | .panic p => .panic p
      | .outOfFuel => .outOfFuel
    | .panic p => .panic p
    | .outOfFuel => .outOfFuel
  | _ => .ok (e, false)

/-- `Editor::cancel_selecting` -/
def Editor.cancelSelecting (e : Editor D L) : Editor D L × Bool :=
  match e.state with
  | .selecting _ =>
    ({ shared := { Shared.cancelSelecting e.shared with last := .absorb }, state := .entering }, true)
  | _ => (e, false)

/-- `Editor::commit` -/
def Editor.commit (e : Editor D L) : Outcome (Editor D L × Bool) :=
  if e.state != .entering || e.shared.com.isEmpty then .ok (e, false)
  else match Shared.commit env e.shared with
    | .ok sh => .ok ({ e with shared := sh }, true)
    | .panic p => .panic p
    | .outOfFuel => .outOfFuel

/-- `Editor::start_selecting` -/
def Editor.startSelecting (e : Editor D L) : Outcome (Editor D L × Bool) :=
  let r : StepRes D L := match e.state with
    | .entering => Chewing.startSelecting env e.shared
    | .enteringSyllable => Chewing.startSelecting env { e.shared with syl := env.clearSyl e.shared.syl }
    | _ => .ok (e.shared, .spin .bell)
  match r with
  | .ok (sh, t) =>
    let (sh, st) := applyTrans sh e.state t
    let e' := Editor.leaveIfEmpty env { shared := sh, state := st }
    let isSel := match e'.state with
      | .selecting _ => true
      | _ => false
    .ok (e', isSel)
  | .panic p => .panic p
  | .outOfFuel => .outOfFuel

/-- `Editor::jump_to_{first,last,next,prev}_selection_point` (`which` = 0, 1, 2, 3); `Bool` = `Ok` -/
def Editor.jump (e : Editor D L) (which : Nat) : Outcome (Editor D L × Bool) :=
  match e.state with
  | .selecting s =>
    match s.sel with
    | .phrase p =>
      let setP (p' : PhraseSel) : Editor D L := { e with state := .selecting { s with sel := .phrase p', pageNo := 0 } }
      match which with
      | 0 =>
        match PhraseSel.init env p.forward p.strategy p.com p.orig e.shared.dict with
        | .ok p' => .ok (setP p', true)
        | .panic q => .panic q
        | .outOfFuel => .outOfFuel
      | 1 =>
        match PhraseSel.jumpToLast env p e.shared.dict with
        | .ok p' => .ok (setP p', true)
        | .panic q => .panic q
        | .outOfFuel => .outOfFuel
      | 2 =>
        match PhraseSel.nextSelectionPoint env p e.shared.dict with
        | .ok (some (b, en)) => .ok (setP { p with begin_ := b, end_ := en }, true)
        | .ok none => .ok (e, false)
        | .panic q => .panic q
        | .outOfFuel => .outOfFuel
      | _ =>
        match PhraseSel.prevSelectionPoint env p e.shared.dict with
        | .ok (some (b, en)) => .ok (setP { p with begin_ := b, end_ := en }, true)
        | .ok none => .ok (e, false)
        | .panic q => .panic q
        | .outOfFuel => .outOfFuel
    | _ => .ok (e, false)
  | _ => .ok (e, false)

/-! ### operation sequences (histories) -/

/-- the public operations of `Editor` as data -/
inductive Op (L : Type) where
  | key (ev : KeyEvent)
  | select (n : Nat)
  | startSelecting | cancelSelecting | commit | clear | ack | clearSyl
  | setOptions (o : Options)
  /-- `set_syllable_editor` -/
  | setLayout (l : L)
  /-- `set_conversion_engine` -/
  | setEngine (k : EngineKind)
  | learn (syllables : List Nat) (phrase : Text)
  | unlearn (syllables : List Nat) (phrase : Text)
  | jump (which : Nat)

/-- one operation (return codes dropped).  The option / layout / dictionary calls end with
    `revalidate_selecting` (F32 repair): an open list stays consistently paged. -/
def Editor.apply (e : Editor D L) : Op L → Outcome (Editor D L)
  | .key ev => (e.processKey env ev).map (·.1)
  | .select n => (e.select env n).map (·.1)
  | .startSelecting => (e.startSelecting env).map (·.1)
  | .cancelSelecting => .ok e.cancelSelecting.1
  | .commit => (e.commit env).map (·.1)
  | .clear => .ok (e.clear env)
  | .ack => .ok e.ack
  | .clearSyl => .ok (e.clearSyllableEditor env)
  | .setOptions o => Editor.revalidate env (e.setOptions env o)
  | .setLayout l => Editor.revalidate env (e.setLayout env l)
  | .setEngine k => .ok { e with shared := { e.shared with engine := k } }
  | .learn k p =>
    match Shared.learnPhrase env e.shared k p with
    | .ok (sh, _) => Editor.revalidate env { e with shared := sh }
    | .panic q => .panic q
    | .outOfFuel => .outOfFuel
  | .unlearn k p => Editor.revalidate env { e with shared := Shared.unlearnPhrase env e.shared k p }
  | .jump w => (e.jump env w).map (·.1)

/-- a history -/
def Editor.run (e : Editor D L) : List (Op L) → Outcome (Editor D L)
  | [] => .ok e
  | op :: ops =>
    match e.apply env op with
    | .ok e' => Editor.run e' ops
    | .panic p => .panic p
    | .outOfFuel => .outOfFuel

end

end Chewing
