import Chewing.Model.Basic
import Chewing.Gen.Estimate
/-!
Model of `src/editor/estimate.rs` (`LaxUserFreqEstimate`): `estimate` exactly as coded, with every plain
fixed-width operation guarded (`u32` frequency subtractions) and every saturating one modelled as such
(`satSub` for the `u64` time difference, `satAdd32` for `phrase.freq().saturating_add(delta)` — the repair of
F40 and of F07's "stored time in the future").  The harness is built with overflow checks (debug profile), so a
failing guard is `Outcome.panic`; a release build would wrap instead (outside the model, see
`estimate_no_panic` for the exact precondition under which both profiles agree).  All numeric constants come
from `Gen/Estimate.lean` (regenerated from the source; the translator also pins which operations saturate).
-/
namespace Chewing.Learn
open Gen.Est

def u32Max : Nat := 4294967295
def u64Max : Nat := 18446744073709551615

/-- `u32::saturating_add` -/
def satAdd32 (a b : Nat) : Nat := min (a + b) u32Max

/-- `u64::saturating_sub` on values that are in range: truncated subtraction -/
def satSub (a b : Nat) : Nat := a - b

/-- `((max_freq - orig_freq) / div + plus).min(inc)` resp. `.max(inc)` of the two rising bands -/
def risingDelta (div plus inc freq orig maxF : Nat) : Nat :=
  let base := (maxF - orig) / div + plus
  if freq ≥ maxF then min base inc else max base inc

/-- one rising band: guards `max_freq - orig_freq` (`u32`); `phrase.freq().saturating_add(delta).min(MAX_USER_FREQ)`
    cannot fail -/
def risingBand (div plus inc freq orig maxF : Nat) : Outcome Nat :=
  if maxF < orig then .panic "estimate: max_freq - orig_freq"
  else
    let delta := risingDelta div plus inc freq orig maxF
    .ok (min (satAdd32 freq delta) maxUserFreq)

/-- the long-gap band: guards `phrase.freq() - orig_freq` and `phrase.freq() - delta` (`u32`) -/
def decayBand (freq orig : Nat) : Outcome Nat :=
  if freq < orig then .panic "estimate: freq - orig_freq"
  else
    let delta := max ((freq - orig) / longDiv) longDec
    if freq < delta then .panic "estimate: freq - delta"
    else .ok (max (freq - delta) orig)

/-- `LaxUserFreqEstimate::estimate(&self, phrase, orig_freq, max_freq)` with `self.lifetime = lifetime`,
    `phrase.freq() = freq`, `phrase.last_used() = lastUsed` -/
def estimate (lifetime freq : Nat) (lastUsed : Option Nat) (orig maxF : Nat) : Outcome Nat :=
  let dt := satSub lifetime (lastUsed.getD lifetime)
  if dt < shortBand then risingBand shortDiv shortPlus shortInc freq orig maxF
  else if dt < mediumBand then risingBand mediumDiv mediumPlus mediumInc freq orig maxF
  else decayBand freq orig

/-- `tick` (`u64` increment) -/
def tick (lifetime : Nat) : Outcome Nat :=
  if lifetime + tickInc > u64Max then .panic "tick: lifetime + 1" else .ok (lifetime + tickInc)

/-- `LaxUserFreqEstimate::max_from`: the largest stored time, 0 for an empty dictionary -/
def maxFrom (times : List Nat) : Nat := times.foldl max 0

/-- the exact precondition of `estimate` (see `Props/C08.estimate_no_panic`): only the plain `u32` subtractions
    are left — a stored time in the future and a stored frequency next to `u32::MAX` are harmless -/
def EstimatePre (lifetime freq : Nat) (lastUsed : Option Nat) (orig maxF : Nat) : Prop :=
  let dt := satSub lifetime (lastUsed.getD lifetime)
  (dt < shortBand ∨ dt < mediumBand → orig ≤ maxF) ∧
  (shortBand ≤ dt → mediumBand ≤ dt → orig ≤ freq ∧ max ((freq - orig) / longDiv) longDec ≤ freq)

end Chewing.Learn
