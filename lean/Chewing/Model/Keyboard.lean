import Chewing.Gen.Keyboard
/-!
Model of `src/editor/keyboard/*.rs`.

A `KeyCode` / `KeyIndex` is its enum discriminant, a character its code point, `Modifiers` the bit set
`shift | ctrl<<1 | capslock<<2 | numlock<<3`.  All tables (`KEYCODE_MAP`, `INDEX_MAP`, the per-keyboard
matrices) come from `Chewing.Gen.Keyboard`, i.e. from the current Rust source; the translator also checks
that every keyboard except `DvorakOnQwerty` is implemented by `generic_map_keycode`.
`.expect("invalid keycode")` and out-of-range indexing are `none` (= panic).
-/
namespace Chewing
open Gen

structure KeyEv where
  index : Nat
  code : Nat
  unicode : Nat
  mods : Nat
deriving Repr, DecidableEq, BEq

def modShift (m : Nat) : Bool := m % 2 == 1
def modCtrl (m : Nat) : Bool := m / 2 % 2 == 1
def modCaps (m : Nat) : Bool := m / 4 % 2 == 1
def modNumlock (m : Nat) : Bool := m / 8 % 2 == 1

/-- the three matrices of a keyboard: `KEYCODE_INDEX`, `UNICODE_MAP`, `SHIFT_MAP` -/
abbrev KbTables := List Nat × List Nat × List Nat

/-- `generic_map_keycode` -/
def genericMap (kb : KbTables) (code mods : Nat) : Option KeyEv :=
  match kb.1.findIdx? (· == code) with
  | none => none
  | some i =>
    match (if modCaps mods || modShift mods then kb.2.2[i]? else kb.2.1[i]?), indexMap[i]? with
    | some u, some ix => some { index := ix, code := code, unicode := u, mods := mods }
    | _, _ => none

/-- `DvorakOnQwerty::map_with_mod`: position from the Qwerty matrix, code and character from Dvorak's -/
def dvorakOnQwertyMap (qwerty dvorak : KbTables) (code mods : Nat) : Option KeyEv :=
  match qwerty.1.findIdx? (· == code) with
  | none => none
  | some i =>
    match (if modCaps mods || modShift mods then dvorak.2.2[i]? else dvorak.2.1[i]?), indexMap[i]?, dvorak.1[i]? with
    | some u, some ix, some c => some { index := ix, code := c, unicode := u, mods := mods }
    | _, _, _ => none

def kbTables (name : String) : Option KbTables :=
  (genericKeyboards.find? (·.1 == name)).map (·.2)

/-- `KeyboardLayout::map_with_mod` of the keyboard called `name` -/
def mapWithMod (name : String) (code mods : Nat) : Option KeyEv :=
  if name == "dvorak_on_qwerty" then
    match kbTables "qwerty", kbTables "dvorak" with
    | some q, some d => dvorakOnQwertyMap q d code mods
    | _, _ => none
  else
    match kbTables name with
    | some kb => genericMap kb code mods
    | none => none

/-- the `(KeyCode, Modifiers)` item `map_ascii` / `map_ascii_numlock` look up (default `(Unknown, none)`) -/
def asciiItem (tbl : List (Nat × Nat × Nat)) (ascii : Nat) : Nat × Nat :=
  match tbl.find? (·.1 == ascii) with
  | some item => item.2
  | none => (0, 0)

/-- `KeyboardLayout::map_ascii` on a generic keyboard -/
def mapAsciiT (kb : KbTables) (ascii : Nat) : Option KeyEv :=
  let item := asciiItem keycodeMap ascii
  genericMap kb item.1 item.2

def mapAscii (name : String) (ascii : Nat) : Option KeyEv :=
  let item := asciiItem keycodeMap ascii
  mapWithMod name item.1 item.2

def mapAsciiNumlock (name : String) (ascii : Nat) : Option KeyEv :=
  let item := asciiItem numlockMap ascii
  mapWithMod name item.1 item.2

/-- the Qwerty matrices (first generic keyboard) -/
def qwertyKb : KbTables := (genericKeyboards.headD ("", [], [], [])).2

/-- `KeyCode::is_atoz` -/
def isAtoZ (code : Nat) : Bool := atozCodes.contains code

/-- `char::is_ascii_alphabetic` -/
def isAsciiAlphabetic (c : Nat) : Bool := (65 ≤ c && c ≤ 90) || (97 ≤ c && c ≤ 122)

end Chewing
