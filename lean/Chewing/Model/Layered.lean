import Chewing.Model.Dict
/-!
# Layered — `src/dictionary/layered.rs`, and the de-duplication loop it shares with `TrieBuf`

`Layered::lookup_first_n_phrases` and `TrieBuf::lookup_first_n_phrases` contain the *same* loop:

```rust
let mut sort_map = BTreeMap::new();  let mut phrases = Vec::new();
for phrase in <all candidates in order> {
    match sort_map.entry(phrase.to_string()) {
        Occupied(e) => { let i = *e.get(); phrases[i] = cmp::max(&phrase, &phrases[i]).clone(); }
        Vacant(e)   => { e.insert(phrases.len()); phrases.push(phrase); }
    }
}
phrases.truncate(first);
```

`dedup` is that loop (`sort_map` is determined by `phrases`: the index of the unique element with
that text), `Phrase`'s `Ord` is `phraseCmp` (frequency, then text; `last_used` is ignored) and
`cmp::max(a, b)` returns `b` unless `a > b`.
-/
namespace Chewing

/-- `Ord` of slices / of `str` (UTF-8 byte order = code-point order): lexicographic -/
def cmpList : List Nat → List Nat → Ordering
  | [], [] => .eq
  | [], _ :: _ => .lt
  | _ :: _, [] => .gt
  | a :: as, b :: bs => if a < b then .lt else if b < a then .gt else cmpList as bs

/-- `impl Ord for Phrase`: by frequency, then by text -/
def phraseCmp (a b : Phrase) : Ordering :=
  if a.freq < b.freq then .lt else if b.freq < a.freq then .gt else cmpList a.text b.text

/-- `cmp::max(&new, &old)`: the first argument only if it is strictly greater -/
def phraseMax (new old : Phrase) : Phrase := if phraseCmp new old == .gt then new else old

/-- one iteration of the de-duplication loop -/
def dedupStep (acc : List Phrase) (p : Phrase) : List Phrase :=
  if acc.any (fun q => q.text == p.text) then acc.map (fun q => if q.text == p.text then phraseMax p q else q)
  else acc ++ [p]

/-- the de-duplication loop: one entry per phrase text, at the position of its first appearance,
    holding the maximum (under `Phrase`'s order) of all candidates with that text -/
def dedup (l : List Phrase) : List Phrase := l.foldl dedupStep []

/-- `usize::MAX` on the 64-bit targets the harness runs on -/
def usizeMax : Nat := 2 ^ 64 - 1

/-- `Dictionary::lookup_first_phrase`, a provided method of the trait (`dictionary/mod.rs`), given the
    implementation's `lookup_first_n_phrases(k, ·, st)`: `lookup_first_n_phrases(k, 1, st).into_iter().next()` -/
def firstPhraseOf (lookupN : Nat → List Phrase) : Option Phrase := (lookupN 1).head?

/-- `Dictionary::lookup_all_phrases`, provided method: `lookup_first_n_phrases(k, usize::MAX, st)` -/
def allPhrasesOf (lookupN : Nat → List Phrase) : List Phrase := lookupN usizeMax

namespace Layered

/-- candidates in the order the loop sees them: system layers in order, then the user layer; each
    layer contributes its `lookup_all_phrases` -/
def candidates (layers : List Dict) (k : List Nat) (st : Strategy) : List Phrase :=
  layers.flatMap (fun d => d.lookup k st)

/-- `Layered::lookup_all_phrases` (`truncate(usize::MAX)` never cuts a `Vec`) -/
def lookupAll (layers : List Dict) (k : List Nat) (st : Strategy) : List Phrase :=
  dedup (candidates layers k st)

/-- `Layered::lookup_first_n_phrases` -/
def lookupFirstN (layers : List Dict) (k : List Nat) (n : Nat) (st : Strategy) : List Phrase :=
  (dedup (candidates layers k st)).take n

/-- `Layered::entries`: concatenation, duplicates are *not* removed (documented in the source) -/
def entries (layerEntries : List (List Entry)) : List Entry := layerEntries.flatten

end Layered

end Chewing
