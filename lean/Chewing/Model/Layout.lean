import Chewing.Model.Syllable
import Chewing.Model.Keyboard
import Chewing.Gen.LayoutTables
/-!
Model of the seven phonetic layouts whose state is one syllable
(`src/editor/zhuyin_layout/{standard,et,ibm,ginyieh,hsu,et26,dc26}.rs`) and of the `SyllableEditor`
trait defaults (`fuzzy_key_press`, `alt_syllables`).

The state is the 16-bit syllable code; every step is written with the syllable model's `update`,
`remove*`, `pop` and accessors (Model/Syllable.lean), so `update` on a zero value (the `unwrap()` panic)
stays visible as `none`.  Key→symbol tables, end-key / tone-key lists, the end-key rewrite tables and the
alternative-syllable tables come from `Chewing.Gen.LayoutTables`; the translator checks that the four
table-driven layouts share the code after the table and that each `struct` holds exactly one syllable.
The context rules of Hsu / ET26 / DaChen26 are transcribed by hand (tied by exhaustive correspondence).
-/
namespace Chewing
open Gen

/-! Bopomofo discriminants used by the hand-transcribed rules (`Proofs/LayoutTables.lean` checks them
    against the generated `bopoNames`). -/
namespace Sym
def G := 8
def J := 11
def Q := 12
def X := 13
def ZH := 14
def CH := 15
def SH := 16
def I := 21
def U := 22
def IU := 23
def A := 24
def OU := 31
def TONE1 := 41
end Sym

/-- `KeyBehavior` -/
inductive Behavior
  | ignore | absorb | commit | keyError | error | noWord | openSymbolTable
  | fuzzy (s : Nat)
deriving Repr, DecidableEq, BEq

def hasInitial (c : Nat) : Bool := (initial c).isSome
def hasMedial (c : Nat) : Bool := (medial c).isSome
def hasRime (c : Nat) : Bool := (rime c).isSome
def hasTone (c : Nat) : Bool := (tone c).isSome
def hasInitialOrMedial (c : Nat) : Bool := hasInitial c || hasMedial c

/-- `SyllableEditor::remove_last` of the single-syllable layouts: `self.syllable.pop()` -/
def removeLast (c : Nat) : Nat := (pop c).2

/-- `Syllable::clear` -/
def clearSyl : Nat := emptyPattern

/-- result of a key press: `none` = panic -/
abbrev PressResult := Option (Behavior × Nat)

/-! ### Standard, ET, IBM, Gin-Yieh: one table, common code -/

def tableLookup (tbl : List (Nat × Nat)) (index : Nat) : Option Nat :=
  (tbl.find? (·.1 == index)).map (·.2)

def tablePress (tbl : List (Nat × Nat)) (c : Nat) (k : KeyEv) : PressResult :=
  match tableLookup tbl k.index with
  | none => some (.keyError, c)
  | some b =>
    if kindOf b == 3 then
      if !isEmptySyl c then
        if b != Sym.TONE1 then (update c b).map fun c' => (.commit, c')
        else some (.commit, c)
      else if b == Sym.TONE1 then some (.keyError, c)
      else (update c b).map fun c' => (.absorb, c')
    else
      let c1 := removeTone c
      if b == Sym.TONE1 then some (.keyError, c1)
      else (update c1 b).map fun c' => (.absorb, c')

/-! ### shared pieces of the 26-key layouts -/

/-- `default_or_alt` (dc26.rs) -/
def defaultOrAlt (source : Option Nat) (dflt alt : Nat) : Nat :=
  match source with
  | none => dflt
  | some s => if s == dflt then alt else dflt

/-- the symbol a key stands for in state `c` (conditions: see `Gen.hsuKeys`) -/
def condSym (c cond a b : Nat) : Nat :=
  match cond with
  | 0 => a
  | 1 => if hasInitialOrMedial c then a else b
  | 2 => if hasMedial c then a else b
  | 3 => defaultOrAlt (initial c) a b
  | 4 => defaultOrAlt (rime c) a b
  | _ => a

def keyRow (tbl : List (Nat × Nat × Nat × Nat)) (key : Nat) : Option (Nat × Nat × Nat) :=
  (tbl.find? (·.1 == key)).map (·.2)

/-- end key on a syllable that is only an initial: rewrite it (Hsu, ET26) -/
def endRewrite (rw : List (Nat × Nat × Nat)) (c : Nat) : Option Nat :=
  if !hasMedial c && !hasRime c then
    match initial c with
    | none => some c
    | some i =>
      match rw.find? (·.1 == i) with
      | none => some c
      | some (_, rm, b) => update (if rm == 1 then removeInitial c else c) b
  else some c

/-- end key: write the tone, or `remove_tone` for the first-tone key -/
def toneStep (toneKeys : List (Nat × Nat)) (c key : Nat) : Option Nat :=
  match toneKeys.find? (·.1 == key) with
  | some (_, t) => update c t
  | none => some (removeTone c)

/-- rewrite the initial if it is the first component of a row -/
def swapInitial (pairs : List (Nat × Nat)) (c : Nat) : Option Nat :=
  match initial c with
  | none => some c
  | some i =>
    match pairs.find? (·.1 == i) with
    | none => some c
    | some (_, b) => update c b

/-! ### Hsu -/

/-- "fuzzy ㄍㄧ to ㄐㄧ and ㄍㄩ to ㄐㄩ" -/
def hsuGtoJ (c : Nat) : Option Nat :=
  if initial c == some Sym.G && (medial c == some Sym.I || medial c == some Sym.IU) then update c Sym.J
  else some c

def jqxToZhChSh : List (Nat × Nat) := [(Sym.J, Sym.ZH), (Sym.Q, Sym.CH), (Sym.X, Sym.SH)]
def zhChShToJqx : List (Nat × Nat) := [(Sym.ZH, Sym.J), (Sym.CH, Sym.Q), (Sym.SH, Sym.X)]

def hsuPress (c : Nat) (k : KeyEv) : PressResult :=
  if hsuEndKeys.contains k.code && !isEmptySyl c then
    (endRewrite hsuEndRewrites c).bind fun c1 =>
    (hsuGtoJ c1).bind fun c2 =>
    (toneStep hsuToneKeys c2 k.code).map fun c3 => (.commit, c3)
  else
    match keyRow hsuKeys k.code with
    | none => some (.noWord, c)
    | some (cond, a, b) =>
      let bopo := condSym c cond a b
      (hsuGtoJ c).bind fun c1 =>
      (if (kindOf bopo == 1 && bopo == Sym.U) || (kindOf bopo == 2 && (medial c1).isNone)
        then swapInitial jqxToZhChSh c1 else some c1).bind fun c2 =>
      (if bopo == Sym.I || bopo == Sym.IU then swapInitial zhChShToJqx c2 else some c2).bind fun c3 =>
      (update c3 bopo).map fun c4 => (.absorb, c4)

/-! ### ET26 -/

def jxToZhSh : List (Nat × Nat) := [(Sym.J, Sym.ZH), (Sym.X, Sym.SH)]
def gToQ : List (Nat × Nat) := [(Sym.G, Sym.Q)]

def et26Press (c : Nat) (k : KeyEv) : PressResult :=
  if et26EndKeys.contains k.code && !isEmptySyl c then
    (endRewrite et26EndRewrites c).bind fun c1 =>
    (toneStep et26ToneKeys c1 k.code).map fun c2 => (.commit, c2)
  else
    match keyRow et26Keys k.code with
    | none => some (.noWord, c)
    | some (cond, a, b) =>
      let bopo := condSym c cond a b
      (if kindOf bopo == 1 then
        if bopo == Sym.U then swapInitial jxToZhSh c else swapInitial gToQ c
      else if kindOf bopo == 2 && !hasMedial c then swapInitial jxToZhSh c
      else some c).bind fun c1 =>
      (update c1 bopo).map fun c2 => (.absorb, c2)

/-! ### DaChen CP26 -/

/-- the `K21` arm (ㄧ / ㄚ / ㄧㄚ cycle): `some r` = the arm returns `Absorb` itself -/
def dc26K21 (c : Nat) : Option PressResult :=
  let m := medial c
  let r := rime c
  if m == some Sym.I && r == some Sym.A then
    some (some (.absorb, removeRime (removeMedial c)))
  else if r == some Sym.A then
    some ((update c Sym.I).map fun c' => (.absorb, c'))
  else if m == some Sym.I then
    some ((update (removeMedial c) Sym.A).map fun c' => (.absorb, c'))
  else if m.isSome then
    some ((update c Sym.A).map fun c' => (.absorb, c'))
  else none

/-- the `K44` arm (ㄩ / ㄡ cycle) -/
def dc26K44 (c : Nat) : Option PressResult :=
  let m := medial c
  let r := rime c
  if m == some Sym.IU && r.isNone then
    some ((update (removeMedial c) Sym.OU).map fun c' => (.absorb, c'))
  else if m == some Sym.IU && r.isSome && r != some Sym.OU then
    some ((update (removeMedial c) Sym.OU).map fun c' => (.absorb, c'))
  else if m.isNone && r == some Sym.OU then
    some ((update c Sym.IU).map fun c' => (.absorb, removeRime c'))
  else if m.isSome && m != some Sym.IU && r == some Sym.OU then
    some ((update c Sym.IU).map fun c' => (.absorb, removeRime c'))
  else if m.isSome then
    some ((update c Sym.OU).map fun c' => (.absorb, c'))
  else none

def dc26Press (c : Nat) (k : KeyEv) : PressResult :=
  if dc26EndKeys.contains k.index && !isEmptySyl c then
    (toneStep dc26ToneKeys c k.index).map fun c1 => (.commit, c1)
  else
    match keyRow dc26Keys k.index with
    | none => some (.keyError, c)
    | some (cond, a, b) =>
      if cond == 9 then
        match (if k.index == 21 then dc26K21 c else dc26K44 c) with
        | some res => res
        | none => (update c (if k.index == 21 then Sym.I else Sym.IU)).map fun c' => (.absorb, c')
      else (update c (condSym c cond a b)).map fun c' => (.absorb, c')

/-! ### alternative syllables -/

/-- `syl![…]`: through the order-checking builder; `none` = the macro panics -/
def sylOf (syms : List Nat) : Option Nat :=
  match Builder.new.insertAll syms with
  | .ok b => some b.value
  | .error _ => none

/-- `alt_syllables` over an `ALT_TABLE` (rows whose `syl!` would not build are a compile-time panic in
    Rust; here they simply never match) -/
def altLookup (tbl : List (List Nat × List (List Nat))) (s : Nat) : List Nat :=
  match tbl.find? (fun row => sylOf row.1 == some s) with
  | some row => row.2.filterMap sylOf
  | none => []

/-! ### the layouts as records, and the trait's default `fuzzy_key_press` -/

structure Layout where
  press : Nat → KeyEv → PressResult
  alt : Nat → List Nat

def standardL : Layout := { press := tablePress standardTable, alt := fun _ => [] }
def etL : Layout := { press := tablePress etTable, alt := fun _ => [] }
def ibmL : Layout := { press := tablePress ibmTable, alt := fun _ => [] }
def ginyiehL : Layout := { press := tablePress ginyiehTable, alt := fun _ => [] }
def hsuL : Layout := { press := hsuPress, alt := altLookup hsuAltTable }
def et26L : Layout := { press := et26Press, alt := altLookup et26AltTable }
def dc26L : Layout := { press := dc26Press, alt := fun _ => [] }

def layoutByName (n : String) : Option Layout :=
  match n with
  | "standard" => some standardL
  | "et" => some etL
  | "ibm" => some ibmL
  | "ginyieh" => some ginyiehL
  | "hsu" => some hsuL
  | "et26" => some et26L
  | "dc26" => some dc26L
  | _ => none

/-- `SyllableEditor::fuzzy_key_press` (trait default) -/
def Layout.fuzzyPress (L : Layout) (c : Nat) (k : KeyEv) : PressResult :=
  if isEmptySyl c then L.press c k
  else
    match L.press clearSyl k with
    | none => none
    | some (_, n) =>
      if (hasInitial c && hasInitial n)
          || (hasMedial c && (hasInitial n || hasMedial n))
          || (hasRime c && (hasInitial n || hasMedial n || hasRime n)) then
        (L.press clearSyl k).map fun r => (.fuzzy c, r.2)
      else L.press c k

/-- what can be done to a layout -/
inductive LOp
  | key (k : KeyEv)
  | fuzzyKey (k : KeyEv)
  | removeLast
  | clear
deriving Repr, DecidableEq

def Layout.step (L : Layout) (c : Nat) : LOp → PressResult
  | .key k => L.press c k
  | .fuzzyKey k => L.fuzzyPress c k
  | .removeLast => some (.absorb, removeLast c)
  | .clear => some (.absorb, clearSyl)

/-- run a list of operations from state `c`: the list of (behaviour, state after) per step -/
def Layout.run (L : Layout) (c : Nat) : List LOp → Option (List (Behavior × Nat))
  | [] => some []
  | op :: ops =>
    match L.step c op with
    | none => none
    | some (b, c') => (L.run c' ops).map fun tr => (b, c') :: tr

/-- type plain key presses from the fresh state; result of the last one -/
def Layout.typeKeys (L : Layout) (c : Nat) : List KeyEv → PressResult
  | [] => some (.ignore, c)
  | [k] => L.press c k
  | k :: ks =>
    match L.press c k with
    | none => none
    | some (_, c') => L.typeKeys c' ks

end Chewing
