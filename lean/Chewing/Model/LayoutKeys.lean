import Chewing.Model.Layout
import Chewing.Model.LayoutPinyin
import Chewing.Gen.Readings
/-!
Explicit inverses of the layouts: for a reading (syllable code) the list of Qwerty key codes that enters it
(`keysFor…`), and the executable check that it does (`entersB`).  Used by the completeness theorems of C14,
which evaluate the check over the generated table of readings of `data/word.src`.
-/
namespace Chewing
open Gen

/-- the key event of an unmodified key on the Qwerty keyboard, `Qwerty.map(code)`: on Qwerty the matrix
    position, the `KeyCode` and the `KeyIndex` of a key coincide (`Proofs/LayoutTables.lean`, `qwertyKey_spec`:
    `genericMap qwertyKb code 0 = some (qwertyKey code)` for all 63 key codes) -/
def qwertyKey (code : Nat) : KeyEv :=
  { index := code, code := code, unicode := qwertyKb.2.1.getD code 0, mods := 0 }

/-- `KeyCode::Backspace` (checked against the generated enum in `Proofs/LayoutTables.lean`) -/
def keyCodeBackspace : Nat := 52

/-- the way the editor (`EnteringSyllable::next`) drives a layout from `c`: Backspace is `remove_last`, every
    other key but the last is absorbed, the last one commits; result = the committed syllable (`read()`
    after `Commit`) -/
def Layout.enter (L : Layout) (c : Nat) : List KeyEv → Option Nat
  | [] => none
  | [k] =>
    match L.press c k with
    | some (.commit, c') => some c'
    | _ => none
  | k :: ks =>
    if k.code == keyCodeBackspace then L.enter (removeLast c) ks
    else
      match L.press c k with
      | some (.absorb, c') => L.enter c' ks
      | _ => none

/-- `keys` (Qwerty key codes, typed unmodified from the fresh state) enter the reading `r`: they commit `r`
    itself, or a syllable that has a word of its own (so the editor inserts it) and whose `alt_syllables`
    contain `r` (so its candidate list offers the characters read `r`) -/
def entersB (L : Layout) (keys : List Nat) (r : Nat) : Bool :=
  match L.enter clearSyl (keys.map qwertyKey) with
  | some c => c == r || (readingCodes.contains c && (L.alt c).contains r)
  | none => false

/-- one of the candidate key lists enters `r` -/
def entersAny (L : Layout) (cands : List (List Nat)) (r : Nat) : Bool := cands.any fun keys => entersB L keys r

def keyCodeSpace : Nat := 48

/-! ### table-driven layouts: invert the table -/

def keyOfSym (tbl : List (Nat × Nat)) (b : Nat) : Option Nat :=
  (tbl.find? (·.2 == b)).map (·.1)

/-- keys of the present non-tone components in order, then the tone key (`K48` = first tone); a reading
    that is only a tone mark is the tone key (absorbed on an empty buffer) followed by `K48` -/
def tableKeysFor (tbl : List (Nat × Nat)) (r : Nat) : List Nat :=
  let body := ([initial r, medial r, rime r].filterMap id).filterMap (keyOfSym tbl)
  let toneKey := ((tone r).bind (keyOfSym tbl)).toList
  if body.isEmpty then toneKey ++ [keyCodeSpace]
  else body ++ (if toneKey.isEmpty then [keyCodeSpace] else toneKey)

/-! ### the 26-key layouts -/

/-- first key of a (key, condition, a, b) table that stands for `sym` when the syllable typed so far has /
    has not an initial-or-medial (`hasIM`) and a medial (`hasMed`) -/
def rowKey (tbl : List (Nat × Nat × Nat × Nat)) (hasIM hasMed : Bool) (sym : Nat) : Option Nat :=
  (tbl.find? fun row =>
    match row.2.1 with
    | 0 => row.2.2.1 == sym
    | 1 => (if hasIM then row.2.2.1 else row.2.2.2) == sym
    | 2 => (if hasMed then row.2.2.1 else row.2.2.2) == sym
    | _ => false).map (·.1)

/-- the end key that writes tone `t` (`none` = first tone = Space) -/
def toneKeyFor (toneKeys : List (Nat × Nat)) (t : Option Nat) : Nat :=
  match t with
  | none => keyCodeSpace
  | some t => ((toneKeys.find? (·.2 == t)).map (·.1)).getD keyCodeSpace

/-- the initial whose lone occurrence an end key rewrites into the rime `x` -/
def rewriteSource (rw : List (Nat × Nat × Nat)) (x : Nat) : Option Nat :=
  (rw.find? fun row => row.2.1 == 1 && row.2.2 == x).map (·.1)

/-- Hsu / ET26: the keys of the components in order.  `subst` maps an initial to the initial actually typed
    (the layout rewrites it back in context); a lone rime that an end key produces from a lone initial is
    typed as that initial. -/
def direct26 (tbl : List (Nat × Nat × Nat × Nat)) (rw : List (Nat × Nat × Nat)) (toneKeys : List (Nat × Nat))
    (subst : Nat → Nat) (r : Nat) : List Nat :=
  let i := initial r
  let m := medial r
  let x := rime r
  let body :=
    match i, m, x with
    | none, none, some x =>
      match rewriteSource rw x with
      | some src => (rowKey tbl false false src).toList
      | none => (rowKey tbl false false x).toList
    | _, _, _ =>
      (i.bind fun s => rowKey tbl false false (subst s)).toList ++
      (m.bind fun s => rowKey tbl i.isSome false s).toList ++
      (x.bind fun s => rowKey tbl (i.isSome || m.isSome) m.isSome s).toList
  body ++ [toneKeyFor toneKeys (tone r)]

/-- the syllable whose `alt_syllables` row offers `r` -/
def carrierOf (alt : List (List Nat × List (List Nat))) (r : Nat) : Option Nat :=
  (alt.find? fun row => row.2.any fun a => sylOf a == some r).bind fun row => sylOf row.1

/-- candidate key lists for `r`: type it directly, else a layout-specific detour, else type the syllable
    that carries it as an alternative -/
def cands26 (direct detour : Nat → List Nat) (alt : List (List Nat × List (List Nat))) (r : Nat) : List (List Nat) :=
  [direct r, detour r] ++ ((carrierOf alt r).map direct).toList

/-- detours for a reading that is a lone initial: type the initial the layout rewrites in context, a medial
    that triggers the rewrite, Backspace (drops the medial), then the tone key -/
def loneInitialDetours (tbl : List (Nat × Nat × Nat × Nat)) (toneKeys : List (Nat × Nat)) (subst : Nat → Nat)
    (r : Nat) : List (List Nat) :=
  match initial r, medial r, rime r with
  | some s, none, none =>
    [Sym.I, Sym.U, Sym.IU].map fun m =>
      (rowKey tbl false false (subst s)).toList ++ (rowKey tbl true false m).toList ++
        [keyCodeBackspace, toneKeyFor toneKeys (tone r)]
  | _, _, _ => []

/-- the explicit inverse: the first candidate that enters `r` -/
def keysFor (L : Layout) (cands : Nat → List (List Nat)) (r : Nat) : List Nat :=
  ((cands r).find? fun keys => entersB L keys r).getD []

def hsuSubst (s : Nat) : Nat :=
  if s == Sym.J then Sym.ZH else if s == Sym.Q then Sym.CH else if s == Sym.X then Sym.SH else s

def hsuCands (r : Nat) : List (List Nat) :=
  cands26 (direct26 hsuKeys hsuEndRewrites hsuToneKeys hsuSubst) (fun _ => []) hsuAltTable r ++
    loneInitialDetours hsuKeys hsuToneKeys hsuSubst r

def et26Subst (s : Nat) : Nat :=
  if s == Sym.ZH then Sym.J else if s == Sym.SH then Sym.X else if s == Sym.Q then Sym.G else s

/-- a lone ㄑ with a tone: ㄍ, ㄧ (which turns ㄍ into ㄑ), Backspace (drops the ㄧ), tone key -/
def et26Detour (r : Nat) : List Nat :=
  if initial r == some Sym.Q && (medial r).isNone && (rime r).isNone then
    (rowKey et26Keys false false Sym.G).toList ++ (rowKey et26Keys true false Sym.I).toList ++
      [keyCodeBackspace, toneKeyFor et26ToneKeys (tone r)]
  else []

def et26Cands (r : Nat) : List (List Nat) :=
  cands26 (direct26 et26Keys et26EndRewrites et26ToneKeys et26Subst) et26Detour et26AltTable r ++
    loneInitialDetours et26Keys et26ToneKeys et26Subst r

/-- DaChen26: keys are `KeyIndex` values (= Qwerty key codes); a symbol that is the alternative of a
    `default_or_alt` key is that key twice; ㄧ/ㄚ (`K21`) and ㄩ/ㄡ (`K44`) follow their cycles -/
def dc26SymKeys (hasIM : Bool) (sym : Nat) : List Nat :=
  match dc26Keys.find? (fun row =>
      (row.2.1 == 0 && row.2.2.1 == sym) ||
      (row.2.1 == 1 && (if hasIM then row.2.2.1 else row.2.2.2) == sym) ||
      ((row.2.1 == 3 || row.2.1 == 4) && (row.2.2.1 == sym || row.2.2.2 == sym))) with
  | none => []
  | some row => if (row.2.1 == 3 || row.2.1 == 4) && row.2.2.2 == sym then [row.1, row.1] else [row.1]

def dc26KeysFor (r : Nat) : List Nat :=
  let i := initial r
  let m := medial r
  let x := rime r
  let iKeys := (i.map (dc26SymKeys false)).getD []
  let mxKeys :=
    if x == some Sym.A then
      (if m.isNone then [21, 21] else if m == some Sym.I then [21, 21, 21]
       else (m.map (dc26SymKeys i.isSome)).getD [] ++ [21])
    else if x == some Sym.OU then
      (if m.isNone then [44, 44] else (if m == some Sym.I then [21] else (m.map (dc26SymKeys i.isSome)).getD []) ++ [44])
    else
      (if m == some Sym.I then [21] else if m == some Sym.IU then [44] else (m.map (dc26SymKeys i.isSome)).getD []) ++
      (x.map (dc26SymKeys (i.isSome || m.isSome))).getD []
  iKeys ++ mxKeys ++ [toneKeyFor dc26ToneKeys (tone r)]

/-! ### Pinyin -/

/-- the editor's way of driving the Pinyin layout (as `Layout.enter`) -/
def pinyinEnter (v : Nat) : PinyinState → List KeyEv → Option Nat
  | _, [] => none
  | st, [k] =>
    match pinyinPress v st k with
    | some (.commit, st') => some st'.syl
    | _ => none
  | st, k :: ks =>
    if k.code == keyCodeBackspace then pinyinEnter v (pinyinRemoveLast st) ks
    else
      match pinyinPress v st k with
      | some (.absorb, st') => pinyinEnter v st' ks
      | _ => none

/-- Pinyin has no `alt_syllables`: a reading must be committed itself -/
def entersPinyinB (v : Nat) (keys : List Nat) (r : Nat) : Bool :=
  pinyinEnter v PinyinState.init (keys.map qwertyKey) == some r

/-- key code of a lower-case letter (through `KEYCODE_MAP`) -/
def letterKey (ch : Nat) : Nat := (asciiItem keycodeMap ch).1

def pinyinToneKeyFor (t : Option Nat) : Nat :=
  match t with
  | none => keyCodeSpace
  | some t => ((pinyinToneKeys.find? (·.2 == t)).map (·.1)).getD keyCodeSpace

/-- candidate spellings of `(initial, medial, rime)`: every initial row for the initial (standard forms
    first) with every final row for the medial/rime pair; no final at all for a bare initial; the finals
    that stand for nothing (`ih`, `r`, `z`) for a bare tone -/
def pinyinSpellings (i m x : Option Nat) : List (List Nat) :=
  let inis : List (List Nat) :=
    match i with
    | none => [[]]
    | some s => ((pinyinInitials.filter (·.2 == s)).map (·.1)).reverse
  let fins : List (List Nat) :=
    (if m.isNone && x.isNone && i.isSome then [[]] else []) ++
    ((pinyinFinals.filter fun e => e.2.1 == m && e.2.2 == x).map (·.1)) ++
    (if x.isNone then (pinyinFinals.filter fun e => e.2.1.isNone && e.2.2 == m && m.isSome).map (·.1) else [])
  inis.flatMap fun a => fins.map fun b => a ++ b

/-- candidate key lists: each spelling's letters, then the tone key -/
def pinyinCands (r : Nat) : List (List Nat) :=
  (pinyinSpellings (initial r) (medial r) (rime r)).map fun s => s.map letterKey ++ [pinyinToneKeyFor (tone r)]

def entersPinyinAny (v : Nat) (cands : List (List Nat)) (r : Nat) : Bool := cands.any fun keys => entersPinyinB v keys r

/-- the explicit inverse: the first candidate that commits `r` under variant `v` -/
def pinyinKeysFor (v : Nat) (r : Nat) : List Nat :=
  ((pinyinCands r).find? fun keys => entersPinyinB v keys r).getD []

/-! ### known finding F21: the readings a layout cannot enter (codes; spellings in the comments) -/

/-- Hsu: ㄝˋ ㄟˋ ㄑ˙ -/
def hsuGaps : List Nat := [36, 52, 6657]
/-- ET26: ㄝˋ ㄟˋ -/
def et26Gaps : List Nat := [36, 52]
/-- DaChen26: ˙ ˊ ˇ ˋ ㄝ ㄝˋ ㄥ -/
def dc26Gaps : List Nat := [1, 2, 3, 4, 32, 36, 96]
/-- Pinyin: ㄧㄞˊ (all variants); ㄈㄨㄥˋ and ㄐ (THL, MPS2) -/
def pinyinGaps (v : Nat) : List Nat := if v == 0 then [170] else [170, 2404, 6144]

/-! ### blocks of the readings table (each completeness check is evaluated by the kernel per block) -/

def readingBlockSize : Nat := 360
def readingBlock (k : Nat) : List Nat := (readingCodes.drop (readingBlockSize * k)).take readingBlockSize

end Chewing
