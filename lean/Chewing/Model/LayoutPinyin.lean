import Chewing.Model.Layout
import Chewing.Gen.Pinyin
/-!
Model of `src/editor/zhuyin_layout/pinyin.rs` (Hanyu / THL / MPS2 variants = 0 / 1 / 2).

State: the typed letters (code points), the last committed syllable and its alternative.  All tables
(`COMMON_MAPPING`, the three variant tables, `INITIAL_MAPPING`, `FINAL_MAPPING`, end keys, tone keys,
`MAX_PINYIN_LEN`) come from `Chewing.Gen.Pinyin`; the rule blocks are transcribed by hand.
`syl![…]`, `builder.insert(..).unwrap()` and `update` failing are `none` (= panic).
-/
namespace Chewing
open Gen

namespace Sym
def B := 0
def P := 1
def M := 2
def F := 3
def R := 17
def Z := 18
def C := 19
def S := 20
def O := 25
def AN := 32
def EN := 33
def ENG := 35
end Sym

structure PinyinState where
  keySeq : List Nat
  syl : Nat
  alt : Nat
deriving Repr, DecidableEq, BEq

def PinyinState.init : PinyinState := { keySeq := [], syl := emptyPattern, alt := emptyPattern }

/-- `str::trim_start_matches(pat)` for a string pattern -/
def trimStartMatches (pat s : List Nat) : List Nat :=
  if pat.isEmpty then s else go s.length s
where
  go : Nat → List Nat → List Nat
    | 0, s => s
    | fuel + 1, s => if pat.isPrefixOf s then go fuel (s.drop pat.length) else s

def variantTable (v : Nat) : List (List Nat × List Nat × List Nat) :=
  match v with
  | 0 => pinyinHanyu
  | 1 => pinyinThl
  | _ => pinyinMps2

/-- a row of an ambiguous-mapping table matched: set both syllables, apply the tone to both -/
def pinyinAmb (row : List Nat × List Nat × List Nat) (tone : Option Nat) : Option (Behavior × PinyinState) :=
  match sylOf row.2.1, sylOf row.2.2 with
  | some p, some a =>
    match tone with
    | none => some (.commit, { keySeq := [], syl := p, alt := a })
    | some t =>
      match update p t, update a t with
      | some p', some a' => some (.commit, { keySeq := [], syl := p', alt := a' })
      | _, _ => none
  | _, _ => none

/-- "Hanyu empty rime": ㄓㄔㄕㄖㄗㄘㄙ + -i -/
def hanyuEmptyRime (v : Nat) (ini med rim : Option Nat) : Option Nat × Option Nat :=
  if v == 0 && ((med == some Sym.I && rim.isNone) || (med.isNone && rim == some Sym.I)) &&
      (ini == some Sym.ZH || ini == some Sym.CH || ini == some Sym.SH || ini == some Sym.R ||
       ini == some Sym.Z || ini == some Sym.C || ini == some Sym.S) then (none, none)
  else (med, rim)

/-- "Hanyu uan/un/u": ㄐㄑㄒ + -u… is ㄩ… -/
def hanyuJqxU (v : Nat) (ini med rim : Option Nat) : Option Nat :=
  if v == 0 && (ini == some Sym.J || ini == some Sym.Q || ini == some Sym.X) && med == some Sym.U &&
      (rim == some Sym.AN || rim == some Sym.EN || rim.isNone) then some Sym.IU
  else med

/-- "THL/MPS2 s/sh/c/ch/j" -/
def thlInitial (v : Nat) (ini med : Option Nat) : Option Nat :=
  if v == 0 then ini
  else if med == some Sym.I || med == some Sym.IU then
    if ini == some Sym.S || ini == some Sym.SH then some Sym.X
    else if ini == some Sym.C || ini == some Sym.CH then some Sym.Q
    else ini
  else if ini == some Sym.J then some Sym.ZH
  else ini

/-- "THL supplemental set": ㄅㄆㄇㄈ + ㄨㄥ / ㄨㄛ drop the ㄨ -/
def thlSupplemental (v : Nat) (ini med rim : Option Nat) : Option Nat :=
  if v != 0 && (ini == some Sym.B || ini == some Sym.P || ini == some Sym.M || ini == some Sym.F) &&
      med == some Sym.U && (rim == some Sym.ENG || rim == some Sym.O) then none
  else med

/-- the rule blocks and the builder: from the table entries' initial / medial / rime and the tone -/
def pinyinBuild (v : Nat) (ini0 med0 rim0 tone : Option Nat) : Option (Behavior × PinyinState) :=
  let mr := hanyuEmptyRime v ini0 med0 rim0
  let med2 := hanyuJqxU v ini0 mr.1 mr.2
  let ini := thlInitial v ini0 med2
  let med := thlSupplemental v ini med2 mr.2
  match Builder.new.insertAll (ini.toList ++ med.toList ++ mr.2.toList ++ tone.toList) with
  | .ok b => some (.commit, { keySeq := [], syl := b.value, alt := b.value })
  | .error _ => none

/-- split the letters into an `INITIAL_MAPPING` row (first row that is a prefix; stripped repeatedly) and
    the `FINAL_MAPPING` row that equals the rest -/
def pinyinSplit (ks : List Nat) : Option (List Nat × Nat) × Option (List Nat × Option Nat × Option Nat) :=
  let iniE := pinyinInitials.find? (fun e => e.1.isPrefixOf ks)
  let finalSeq := match iniE with
    | some e => trimStartMatches e.1 ks
    | none => ks
  (iniE, pinyinFinals.find? (fun e => e.1 == finalSeq))

/-- the end-key branch of `Pinyin::key_press` on the letters typed so far -/
def pinyinCommit (v : Nat) (st : PinyinState) (code : Nat) : Option (Behavior × PinyinState) :=
  let ks := st.keySeq
  let tone := (pinyinToneKeys.find? (·.1 == code)).map (·.2)
  match (variantTable v).find? (·.1 == ks) with
  | some row => pinyinAmb row tone
  | none =>
    match pinyinCommon.find? (·.1 == ks) with
    | some row => pinyinAmb row tone
    | none =>
      let sp := pinyinSplit ks
      if sp.1.isNone && sp.2.isNone then some (.absorb, { st with keySeq := [] })
      else pinyinBuild v (sp.1.map (·.2)) (sp.2.bind (·.2.1)) (sp.2.bind (·.2.2)) tone

/-- `Pinyin::key_press` -/
def pinyinPress (v : Nat) (st : PinyinState) (k : KeyEv) : Option (Behavior × PinyinState) :=
  if st.keySeq.isEmpty && !isAtoZ k.code then some (.keyError, st)
  else if !pinyinEndKeys.contains k.code then
    if st.keySeq.length == maxPinyinLen then some (.noWord, st)
    else if !isAsciiAlphabetic k.unicode then some (.keyError, st)
    else some (.absorb, { st with keySeq := st.keySeq ++ [k.unicode] })
  else pinyinCommit v st k.code

def pinyinRemoveLast (st : PinyinState) : PinyinState := { st with keySeq := st.keySeq.dropLast }
def pinyinClear : PinyinState := PinyinState.init
def pinyinIsEmpty (st : PinyinState) : Bool := st.keySeq.isEmpty
def pinyinRead (st : PinyinState) : Nat := st.syl

/-- what can be done to the Pinyin layout (`fuzzy_key_press` is `key_press`) -/
inductive POp
  | key (k : KeyEv)
  | removeLast
  | clear
deriving Repr, DecidableEq

def pinyinStep (v : Nat) (st : PinyinState) : POp → Option (Behavior × PinyinState)
  | .key k => pinyinPress v st k
  | .removeLast => some (.absorb, pinyinRemoveLast st)
  | .clear => some (.absorb, pinyinClear)

/-- run a list of operations: (behaviour, state after) per step; `none` = a step panics -/
def pinyinRun (v : Nat) (st : PinyinState) : List POp → Option (List (Behavior × PinyinState))
  | [] => some []
  | op :: ops =>
    match pinyinStep v st op with
    | none => none
    | some (b, st') => (pinyinRun v st' ops).map fun tr => (b, st') :: tr

/-- type letters then an end key from the fresh state -/
def pinyinType (v : Nat) : PinyinState → List KeyEv → Option (Behavior × PinyinState)
  | st, [] => some (.ignore, st)
  | st, [k] => pinyinPress v st k
  | st, k :: ks =>
    match pinyinPress v st k with
    | none => none
    | some (_, st') => pinyinType v st' ks

end Chewing
