import Chewing.Model.LayoutKeys
/-!
Executable check behind the refutations of completeness (known finding F21): along every path the editor
can drive a layout (`Layout.enter`: absorbed keys and Backspace from the fresh state) the syllable carries no
tone, and from no such state does a key commit one of the listed readings or a syllable that offers one as
an alternative.  The check is evaluated by the kernel over all 22×4×14 toneless syllables × 63 key values.
-/
namespace Chewing
open Gen

/-- a key event with the given key code and key index (the single-syllable layouts read nothing else) -/
def mkKey (x : Nat) : KeyEv := { index := x, code := x, unicode := 0, mods := 0 }

/-- the code of the toneless tuple `(i, m, r)` (= `encode i m r 0`, in a form the kernel evaluates cheaply) -/
def codeOf (i m r : Nat) : Nat := if i + m + r == 0 then 32768 else i * 512 + m * 128 + r * 8

/-- `c` is a toneless syllable whose components satisfy `inv` -/
def invCode (inv : Nat → Nat → Nat → Bool) (c : Nat) : Bool :=
  c % 8 == 0 && inv (c / 512 % 64) (c / 128 % 4) (c / 8 % 16)

def stepCheck (L : Layout) (gaps : List Nat) (inv : Nat → Nat → Nat → Bool) (c key : Nat) : Bool :=
  match L.press c (mkKey key) with
  | some (.absorb, c') => invCode inv c'
  | some (.commit, r') => !gaps.contains r'
  | _ => true

/-- the check for the toneless syllables whose initial index is `i`: Backspace, and every key of `rel`
    (the keys the layout reacts to) -/
def unreachCheck (L : Layout) (gaps : List Nat) (inv : Nat → Nat → Nat → Bool) (rel : List Nat) (i : Nat) : Bool :=
  (List.range 4).all fun m => (List.range 14).all fun r =>
    !inv i m r ||
      (invCode inv (removeLast (codeOf i m r)) &&
       rel.all fun key => stepCheck L gaps inv (codeOf i m r) key)

/-- no `alt_syllables` list contains one of `gaps` (so a gap cannot be entered through a carrier) -/
def altFree (tbl : List (List Nat × List (List Nat))) (gaps : List Nat) : Bool :=
  tbl.all fun row => row.2.all fun a =>
    match sylOf a with
    | some s => !gaps.contains s
    | none => true

def hsuRelKeys : List Nat := hsuEndKeys ++ hsuKeys.map (·.1)
def et26RelKeys : List Nat := et26EndKeys ++ et26Keys.map (·.1)
def dc26RelKeys : List Nat := dc26EndKeys ++ dc26Keys.map (·.1)

/-! the invariants: which lone rimes the editor can never leave in the layout -/

/-- Hsu: ㄝ (rime 4) only after a medial, ㄟ (rime 6) only after an initial or medial -/
def hsuInv (i m r : Nat) : Bool := (r != 4 || m != 0) && (r != 6 || i != 0 || m != 0)
/-- ET26: ㄝ and ㄟ only after an initial or medial -/
def et26Inv (i m r : Nat) : Bool := (r != 4 || i != 0 || m != 0) && (r != 6 || i != 0 || m != 0)
/-- DaChen26: ㄝ and ㄥ (rime 12) only after an initial or medial -/
def dc26Inv (i m r : Nat) : Bool := (r != 4 || i != 0 || m != 0) && (r != 12 || i != 0 || m != 0)

/-! ### Pinyin: every way the end-key branch can produce a syllable -/

/-- the tone an end key can carry -/
def pinyinToneOpts : List (Option Nat) := none :: pinyinToneKeys.map fun row => some row.2
/-- the initial the split can find -/
def pinyinIniOpts : List (Option Nat) := (none :: pinyinInitials.map fun row => some row.2).eraseDups
/-- the (medial, rime) the split can find -/
def pinyinFinOpts : List (Option Nat × Option Nat) :=
  ((none, none) :: pinyinFinals.map fun row => (row.2.1, row.2.2)).eraseDups

def commitsIn (gaps : List Nat) (res : Option (Behavior × PinyinState)) : Bool :=
  match res with
  | some (.commit, st) => gaps.contains st.syl
  | _ => false

/-- no exact-match row, and no (initial, final, tone) combination, commits one of `gaps` under variant `v` -/
def pinyinNeverB (v : Nat) (gaps : List Nat) : Bool :=
  pinyinToneOpts.all fun t =>
    ((variantTable v).all fun row => !commitsIn gaps (pinyinAmb row t)) &&
    (pinyinCommon.all fun row => !commitsIn gaps (pinyinAmb row t)) &&
    (pinyinIniOpts.all fun i => pinyinFinOpts.all fun f => !commitsIn gaps (pinyinBuild v i f.1 f.2 t))

end Chewing
