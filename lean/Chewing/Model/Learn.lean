import Chewing.Model.Basic
import Chewing.Model.Dict
import Chewing.Model.Composition
import Chewing.Model.Estimate
import Chewing.Gen.BreakWords
import Chewing.Gen.TopScore
/-!
Model of the learning path of `src/editor/mod.rs` (`SharedState::commit`, `auto_learn`, `learn_phrase`),
of the layer merge of `src/dictionary/layered.rs` (`lookup_first_n_phrases`) and of the two pieces of
`src/conversion/chewing.rs` that decide the default conversion of a range that has a phrase of its own
(`find_best_phrase` without selections, `trim_paths` / `PossiblePath::contains`, the final stable sort).

The user dictionary is an abstract finite map `(syllables, phrase) ↦ (freq, time)` (an association
list).  That is what an in-memory `TrieBuf` is for histories without `remove_phrase` (and, with the
C09 repair of F09, for all histories); for a file-backed one it is the max-merge of the persisted and
the pending layer, which learning keeps equal to "last write wins" because a learned frequency is never
below the merged frequency it was computed from (`learn_monotone`).
-/
namespace Chewing.Learn
open Gen.Learn

/-- key of the user dictionary: syllable codes and phrase text -/
abbrev UKey := List Nat × Text
/-- the user dictionary as a finite map `(syllables, phrase) ↦ (freq, time)` -/
abbrev UserMap := List (UKey × (Nat × Nat))

namespace UserMap

def get? (m : UserMap) (k : UKey) : Option (Nat × Nat) :=
  (m.find? (fun e => decide (e.1 = k))).map (·.2)

/-- `BTreeMap::insert`: last write wins -/
def insert (m : UserMap) (k : UKey) (v : Nat × Nat) : UserMap :=
  (k, v) :: m.filter (fun e => decide (e.1 ≠ k))

/-- `lookup_all_phrases(key)` on the user layer: (phrase, freq) in map order -/
def lookup (m : UserMap) (key : List Nat) : List (Text × Nat) :=
  (m.filter (fun e => decide (e.1.1 = key))).map (fun e => (e.1.2, e.2.1))

end UserMap

/-- exact-key lookup in the system layers (entries in lookup order) -/
def sysLookup (sys : List Entry) (key : List Nat) : List (Text × Nat) :=
  (sys.filter (fun e => decide (e.1 = key))).map (fun e => (e.2.text, e.2.freq))

/-- one step of `Layered::lookup_first_n_phrases`: a phrase already listed keeps its position and gets
    the larger frequency (`cmp::max` on `(freq, text)` with equal text), a new one is appended -/
def mergeInto : List (Text × Nat) → Text × Nat → List (Text × Nat)
  | [], p => [p]
  | q :: rest, p => if q.1 = p.1 then (q.1, max q.2 p.2) :: rest else q :: mergeInto rest p

/-- `Layered::lookup_all_phrases`: system layers first, the user layer last -/
def layeredLookup (sysL userL : List (Text × Nat)) : List (Text × Nat) :=
  (sysL ++ userL).foldl mergeInto []

structure LearnCtx where
  /-- all system layers, in layer order, each in its lookup order -/
  sys : List Entry
  /-- `self.estimate.now()` -/
  lifetime : Nat

/-- what `self.dict.lookup_all_phrases(syllables, Standard)` returns inside `learn_phrase` -/
def lookupAll (ctx : LearnCtx) (u : UserMap) (key : List Nat) : List (Text × Nat) :=
  layeredLookup (sysLookup ctx.sys key) (u.lookup key)

/-- `phrases.iter().find(|p| p.as_str() == phrase).map(|p| p.freq()).unwrap_or(0)` -/
def phraseFreq (es : List (Text × Nat)) (t : Text) : Nat :=
  match es.find? (fun e => decide (e.1 = t)) with
  | some e => e.2
  | none => absentFreq

def maxOf : List Nat → Nat
  | [] => 0
  | a :: r => max a (maxOf r)

/-- `phrases.iter().map(|p| p.freq()).max().unwrap_or(1)` -/
def maxFreq (es : List (Text × Nat)) : Nat :=
  if es.isEmpty then 1 else maxOf (es.map (·.2))

/-- `SharedState::learn_phrase(syllables, phrase)`; the `Result` is ignored by every caller on the commit
    path, so the model returns the user dictionary only.  `Layered::add_phrase/update_phrase` refuse an
    empty phrase (and report `Ok`). -/
def learnPhrase (ctx : LearnCtx) (u : UserMap) (key : List Nat) (text : Text) : Outcome UserMap :=
  if key.length ≠ text.length then .ok u
  else
    let es := lookupAll ctx u key
    if es.isEmpty then
      .ok (if text.isEmpty then u else u.insert (key, text) (firstFreq, 0))
    else
      let f := phraseFreq es text
      match estimate ctx.lifetime f none f (maxFreq es) with
      | .ok nf => .ok (if text.isEmpty then u else u.insert (key, text) (nf, ctx.lifetime))
      | .panic s => .panic s
      | .outOfFuel => .outOfFuel

/-- `&symbols[start..end]` (`none` = the slice index panics) -/
def sliceSyms (symbols : List Sym) (s e : Nat) : Option (List Sym) :=
  if s ≤ e ∧ e ≤ symbols.length then some ((symbols.drop s).take (e - s)) else none

/-- `SyllableSlice::to_slice` for a symbol slice: the leading syllables (`map_while`) -/
def keyOf : List Sym → List Nat
  | .syl c :: rest => c :: keyOf rest
  | _ => []

/-- `is_break_word` -/
def isBreakWord (t : Text) : Bool := decide (t ∈ breakWords)

/-- the `if !pending.is_empty() { learn_phrase(&syllables, &pending); pending.clear(); syllables.clear(); }` block:
    new dictionary and the symbols still pending -/
def flushPending (ctx : LearnCtx) (u : UserMap) (pending : Text) (psyms : List Sym) : Outcome (UserMap × List Sym) :=
  if pending.isEmpty then .ok (u, psyms)
  else (learnPhrase ctx u (keyOf psyms) pending).map (fun u' => (u', []))

/-- the loop of `auto_learn` with its two accumulators -/
def autoLearnGo (ctx : LearnCtx) (symbols : List Sym) :
    List Interval → Text → List Sym → UserMap → Outcome UserMap
  | [], pending, psyms, u => (flushPending ctx u pending psyms).map (·.1)
  | iv :: rest, pending, psyms, u =>
    if iv.isPhrase then
      if iv.stop < iv.start then .panic "Interval::len"
      else
        match sliceSyms symbols iv.start iv.stop with
        | none => .panic "symbols[start..end]"
        | some seg =>
          if iv.stop - iv.start = 1 ∧ isBreakWord iv.text = false then
            autoLearnGo ctx symbols rest (pending ++ iv.text) (psyms ++ seg) u
          else
            (flushPending ctx u pending psyms).bind fun (u1, ps1) =>
            (learnPhrase ctx u1 (keyOf seg) iv.text).bind fun u2 =>
            autoLearnGo ctx symbols rest [] ps1 u2
    else
      (flushPending ctx u pending psyms).bind fun (u1, ps1) =>
      autoLearnGo ctx symbols rest [] ps1 u1

/-- `SharedState::auto_learn(&intervals)` -/
def autoLearn (ctx : LearnCtx) (symbols : List Sym) (ivs : List Interval) (u : UserMap) : Outcome UserMap :=
  autoLearnGo ctx symbols ivs [] [] u

/-- the user-dictionary effect of `SharedState::commit` (`disabled = options.disable_auto_learn_phrase`) -/
def commitLearn (disabled : Bool) (ctx : LearnCtx) (symbols : List Sym) (ivs : List Interval) (u : UserMap) :
    Outcome UserMap :=
  if disabled then .ok u else autoLearn ctx symbols ivs u

/-! ### The learn units of a committed conversion (specification side of `learn_records`) -/

/-- an interval that `auto_learn` appends to the pending run: a one-syllable dictionary phrase that is not a
    break word -/
def joinable (iv : Interval) : Bool := iv.isPhrase && iv.stop - iv.start == 1 && !isBreakWord iv.text

/-- symbols covered by an interval (empty if out of range) -/
def segOf (symbols : List Sym) (iv : Interval) : List Sym := (symbols.drop iv.start).take (iv.stop - iv.start)

/-- the `(syllables, phrase)` pairs handed to `learn_phrase`, in order: every maximal run of joinable
    single characters concatenated, every other dictionary phrase (multi-character, or a break word) as such -/
def unitsGo (symbols : List Sym) : List Interval → Text → List Sym → List (List Nat × Text)
  | [], pending, psyms => if pending.isEmpty then [] else [(keyOf psyms, pending)]
  | iv :: rest, pending, psyms =>
    if joinable iv then unitsGo symbols rest (pending ++ iv.text) (psyms ++ segOf symbols iv)
    else
      (if pending.isEmpty then [] else [(keyOf psyms, pending)])
      ++ (if iv.isPhrase then [(keyOf (segOf symbols iv), iv.text)] else [])
      ++ unitsGo symbols rest [] (if pending.isEmpty then psyms else [])

def learnUnits (symbols : List Sym) (ivs : List Interval) : List (List Nat × Text) := unitsGo symbols ivs [] []

/-- `learn_phrase` applied to a list of units from left to right -/
def learnAll (ctx : LearnCtx) : List (List Nat × Text) → UserMap → Outcome UserMap
  | [], u => .ok u
  | (k, t) :: rest, u => (learnPhrase ctx u k t).bind (learnAll ctx rest)

/-! ### Default conversion of a range that has a phrase of its own -/

/-- the selection loop of `find_best_phrase` without user selections: a later phrase replaces the current
    best only if its frequency is strictly larger -/
def bestPhraseGo : List (Text × Nat) → Option (Text × Nat) → Option (Text × Nat)
  | [], best => best
  | p :: rest, none => bestPhraseGo rest (some p)
  | p :: rest, some b => if p.2 > b.2 then bestPhraseGo rest (some p) else bestPhraseGo rest (some b)

def bestPhrase (es : List (Text × Nat)) : Option (Text × Nat) := bestPhraseGo es none

/-- `PossibleInterval` (`freq` = 0 for a symbol) -/
structure PInterval where
  start : Nat
  stop : Nat
  isPhrase : Bool
  text : Text
  freq : Nat
deriving Repr, DecidableEq, Inhabited

abbrev Path := List PInterval

/-- `PossibleInterval::contains` -/
def PInterval.contains (a b : PInterval) : Bool := decide (a.start ≤ b.start) && decide (a.stop ≥ b.stop)

/-- inner `loop` of `PossiblePath::contains`: advance `big` until `self[big]` contains `o`;
    `none` = `return false`; the result is the unconsumed suffix `self[big..]` -/
def advanceBig : Path → PInterval → Option Path
  | [], _ => none
  | b :: rest, o =>
    if b.start < o.stop then (if b.contains o then some (b :: rest) else advanceBig rest o) else none

/-- `PossiblePath::contains` -/
def pathContains : Path → Path → Bool
  | _, [] => true
  | self, o :: os =>
    match advanceBig self o with
    | none => false
    | some self' => pathContains self' os

/-- inner loop of `trim_paths` for one candidate: kept paths and the `drop_candidate` flag -/
def trimGo (cand : Path) : List Path → Bool → List Path × Bool
  | [], d => ([], d)
  | p :: rest, d =>
    if d || pathContains p cand then
      let r := trimGo cand rest true
      (p :: r.1, r.2)
    else if pathContains cand p then trimGo cand rest false
    else
      let r := trimGo cand rest false
      (p :: r.1, r.2)

def trimStep (trimmed : List Path) (cand : Path) : List Path :=
  let r := trimGo cand trimmed false
  if r.2 then r.1 else r.1 ++ [cand]

/-- `ChewingEngine::trim_paths` -/
def trimPaths (paths : List Path) : List Path := paths.foldl trimStep []

/-! ### `shortest_path` (breadth-first search over the interval graph) -/

/-- `parent: Vec<Option<&PossibleInterval>>` as an association list node ↦ edge -/
abbrev Parents := List (Nat × PInterval)

def Parents.get? (p : Parents) (node : Nat) : Option PInterval :=
  (p.find? (fun e => decide (e.1 = node))).map (·.2)

/-- the inner `for edge in next_edges` loop: new parent table, new queue, and whether `break 'bfs` fired.
    `removed s e` = `removed_edges[s * len + e - 1]` -/
def scanEdges (removed : Nat → Nat → Bool) (len : Nat) : List PInterval → Parents → List Nat → Parents × List Nat × Bool
  | [], parent, queue => (parent, queue, false)
  | e :: es, parent, queue =>
    if removed e.start e.stop then scanEdges removed len es parent queue
    else
      let parent' := if (parent.get? e.stop).isNone then (e.stop, e) :: parent else parent
      let queue' := if (parent.get? e.stop).isNone then queue ++ [e.stop] else queue
      if e.stop = len then (parent', queue', true) else scanEdges removed len es parent' queue'

/-- the `'bfs: while !queue.is_empty()` loop (`graph.get(node)` is `None` for the sink) -/
def bfs (graph : List (List PInterval)) (removed : Nat → Nat → Bool) (len : Nat) : Nat → List Nat → Parents → Parents
  | 0, _, parent => parent
  | _ + 1, [], parent => parent
  | fuel + 1, node :: queue, parent =>
    let r := scanEdges removed len (graph[node]?.getD []) parent queue
    if r.2.2 then r.1 else bfs graph removed len fuel r.2.1 r.1

/-- `while node != source { let interval = parent[node]?; node = interval.start; path.push(interval) }; path.reverse()` -/
def walkBack (parent : Parents) (source : Nat) : Nat → Nat → Path → Option Path
  | 0, _, _ => none
  | fuel + 1, node, acc =>
    if node = source then some acc
    else
      match parent.get? node with
      | none => none
      | some e => walkBack parent source fuel e.start (e :: acc)

/-- `ChewingEngine::shortest_path(graph, removed_edges, source, len)`; fuel `len + 2` suffices for both loops
    (every node is queued at most once; every step back strictly decreases the node) -/
def shortestPath (graph : List (List PInterval)) (removed : Nat → Nat → Bool) (source len : Nat) : Option Path :=
  walkBack (bfs graph removed len (len + 2) [source] []) source (len + 2) len []

open Gen.TopScore in
/-- `PossiblePath::score` (as an integer; the `i32` conversions are not modelled here) -/
def pathScore (p : Path) : Int :=
  let sum : Nat := (p.map (fun i => i.stop - i.start)).foldl (· + ·) 0
  let avg : Nat := if p.isEmpty then 0 else avgFactor * sum / p.length
  let lens := p.map (fun i => i.stop - i.start)
  let rec spread : List Nat → Nat
    | [] => 0
    | a :: r => (r.map (fun b => if a ≤ b then b - a else a - b)).foldl (· + ·) 0 + spread r
  let fsum : Nat := (p.map (fun i => i.freq / (if i.stop - i.start = 1 then singleReduction else multiReduction))).foldl (· + ·) 0
  (wSum * sum : Nat) + (wAvg * avg : Nat) - (wVar * spread lens : Nat) + fsum

/-- stable insertion of an *earlier* element into the sorted tail (`sort_by(|a, b| b.cmp(a))` is stable:
    among equal scores the earlier path stays first) -/
def insertDesc (p : Path) : List Path → List Path
  | [] => [p]
  | q :: rest => if pathScore q ≤ pathScore p then p :: q :: rest else q :: insertDesc p rest

def sortDesc (ps : List Path) : List Path := ps.foldr insertDesc []

def PInterval.toInterval (i : PInterval) : Interval := { start := i.start, stop := i.stop, isPhrase := i.isPhrase, text := i.text }

/-- the first conversion `ChewingEngine::convert` yields from the output of `find_k_paths`
    (no glue gaps: `glue_fn` is the identity) -/
def firstConversion (kpaths : List Path) : Option (List Interval) :=
  match sortDesc (trimPaths kpaths) with
  | [] => none
  | p :: _ => some (p.map PInterval.toInterval)

end Chewing.Learn
