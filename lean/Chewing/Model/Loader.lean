import Chewing.Model.Uhash
/-!
Model of `UserDictionaryLoader::load` (`src/dictionary/loader.rs`) over an abstract user
directory (C12, C19).

* The directory holds at most three files: the current-format dictionary (`chewing.dat`, the path
  given to the loader), the legacy hash file `uhash.dat` (bytes) and the legacy `chewing.sqlite3`.
* The *new* user dictionary (`TrieBuf`) is abstract: a map from (syllables, phrase bytes) to
  (user frequency, last-used time), kept as a key-sorted association list exactly like the
  `BTreeMap<(Cow<[Syllable]>, Cow<str>), (u32, u64)>` the importer writes into
  (`update_phrase` = insert-or-replace).  That closing the dictionary (`flush` + `Drop`) stores
  this map in `chewing.dat` and that re-opening the file yields it back is C10/C11's subject; here
  it is the definition of `DatFile.valid` and is checked by the correspondence run (second
  start-up reads back the same entries).
* The SQLite store is abstract as well: `some none` = a file `SqliteDictionary::open` rejects,
  `some (some rows)` = the rows its `entries()` yields (after its in-file v1→v2 migration).
-/
namespace Chewing.Loader
open Chewing.Uhash

abbrev Key := List Nat × List Nat      -- syllables, phrase (UTF-8 bytes)
abbrev Val := Nat × Nat                -- user frequency, last-used time
abbrev UMap := List (Key × Val)

/-- `Ord` of slices / `str`: lexicographic -/
def listLt : List Nat → List Nat → Bool
  | [], [] => false
  | [], _ :: _ => true
  | _ :: _, [] => false
  | a :: as, b :: bs => decide (a < b) || (a == b && listLt as bs)

def keyLt (x y : Key) : Bool := listLt x.1 y.1 || (x.1 == y.1 && listLt x.2 y.2)

/-- `BTreeMap::insert` -/
def insert (m : UMap) (k : Key) (v : Val) : UMap :=
  match m with
  | [] => [(k, v)]
  | (k', v') :: rest =>
    if k == k' then (k, v) :: rest
    else if keyLt k k' then (k, v) :: (k', v') :: rest
    else (k', v') :: insert rest k v

def find? (m : UMap) (k : Key) : Option Val := (m.find? (fun e => e.1 == k)).map (·.2)

def keyOf (r : Rec) : Key := (r.syls, r.phrase)
def valOf (r : Rec) : Val := (r.freq, r.time)

/-- the import loop: `update_phrase(&syllables, phrase, freq, last_used)` per record -/
def importRecs (m : UMap) (rs : List Rec) : UMap := rs.foldl (fun m r => insert m (keyOf r) (valOf r)) m

/-- `chewing.dat` as the loader sees it -/
inductive DatFile where
  | valid (m : UMap)       -- opens, holds exactly `m`
  | corrupt                -- `TrieBuf::open` fails
deriving Repr, DecidableEq, BEq

structure UserDir where
  chewingDat : Option DatFile
  uhashDat : Option (List Nat)
  sqlite : Option (Option (List Rec))
deriving Repr, DecidableEq, BEq

structure Loaded where
  /-- `Ok(dictionary)` with its contents, or `Err` -/
  dict : Except Unit UMap
  /-- the directory once the returned dictionary has been closed again -/
  dir : UserDir
deriving Repr

/-- `UserDictionaryLoader::load` for a path that is not `:memory:`; `sqliteFeature` = the cargo
    feature -/
def load (sqliteFeature : Bool) (d : UserDir) : Outcome Loaded :=
  match d.chewingDat with
  | some (.valid m) => .ok { dict := .ok m, dir := d }                  -- current file present: open it
  | some .corrupt => .ok { dict := .error (), dir := d }
  | none =>
    -- `init_user_dictionary` creates an empty `chewing.dat` first
    let d0 : UserDir := { d with chewingDat := some (.valid []) }
    if sqliteFeature && d.sqlite.isSome then
      match d.sqlite with
      | some (some rows) =>
        let m := importRecs [] rows
        .ok { dict := .ok m, dir := { d with chewingDat := some (.valid m) } }
      | _ => .ok { dict := .error (), dir := d0 }
    else
      match d.uhashDat with
      | none => .ok { dict := .ok [], dir := d0 }
      | some b =>
        match loadUhash b with
        | .ok (.ok rs) =>
          let m := importRecs [] rs
          .ok { dict := .ok m, dir := { d with chewingDat := some (.valid m) } }
        | .ok (.error _) => .ok { dict := .ok [], dir := d0 }           -- both parsers failed: nothing imported
        | .panic s => .panic s
        | .outOfFuel => .outOfFuel

/-- a later `update_phrase` (learning) followed by closing the dictionary -/
def learnAndClose (d : UserDir) (m : UMap) (k : Key) (v : Val) : UserDir :=
  { d with chewingDat := some (.valid (insert m k v)) }

end Chewing.Loader
