import Chewing.Model.Dict
/-!
# MapSpec — what a mutable dictionary is supposed to be (C09)

The simplest possible abstract object: a partial map from `(syllables, phrase text)` to
`(frequency, last-used time)`.  The operations are those of `trait DictionaryMut`
(`src/dictionary/mod.rs`) plus the harness-level `closeOpen` (drop the dictionary, open the file
again); `flush`, `reopen` and `closeOpen` do not change the map.

`add` follows what the real `TrieBuf::add_phrase` does on a live key: the call is *rejected*
(`Err(UpdateDictionaryError)`) and the map is unchanged.  `update` is an upsert.  `remove` of an
absent key is accepted and changes nothing.

Answers are specified relationally (`IsLookup`, `IsEntries`, `IsFuzzyLookup`): any list that contains
exactly the live phrases, each once, is a correct answer (the order is the implementation's choice).
-/
namespace Chewing.MapSpec

/-- a syllable sequence (16-bit codes) -/
abbrev Key := List Nat
/-- `PhraseKey` of `trie_buf.rs`: (syllables, phrase text) -/
abbrev PKey := Key × Text
/-- (frequency, last-used time) -/
abbrev Val := Nat × Nat

/-- the abstract dictionary -/
def Map := PKey → Option Val

/-- operations of a mutable dictionary (one constructor per `DictionaryMut` method) -/
inductive Op where
  /-- `add_phrase(k, Phrase { t, freq, last_used })` -/
  | add (k : Key) (t : Text) (freq : Nat) (time : Option Nat)
  /-- `update_phrase(k, Phrase { t, .. }, user_freq, time)` -/
  | update (k : Key) (t : Text) (freq : Nat) (time : Nat)
  /-- `remove_phrase(k, t)` -/
  | remove (k : Key) (t : Text)
  /-- `flush()` -/
  | flush
  /-- `reopen()` -/
  | reopen
  /-- drop the dictionary object and open its file again (file-backed dictionaries only) -/
  | closeOpen
deriving Repr, DecidableEq, BEq, Inhabited

namespace Map

def empty : Map := fun _ => none

def set (m : Map) (k : PKey) (v : Option Val) : Map := fun k' => if k' = k then v else m k'

/-- is `add_phrase` accepted? (the real code rejects a live key) -/
def addOk (m : Map) (k : Key) (t : Text) : Bool := (m (k, t)).isNone

def apply (m : Map) : Op → Map
  | .add k t f tm => if m.addOk k t then m.set (k, t) (some (f, tm.getD 0)) else m
  | .update k t f tm => m.set (k, t) (some (f, tm))
  | .remove k t => m.set (k, t) none
  | .flush => m
  | .reopen => m
  | .closeOpen => m

def run (m : Map) (ops : List Op) : Map := ops.foldl apply m

@[simp] theorem set_same (m : Map) (k : PKey) (v : Option Val) : m.set k v k = v := by simp [set]

theorem set_other (m : Map) {k k' : PKey} (v : Option Val) (h : k' ≠ k) : m.set k v k' = m k' := by
  simp [set, h]

end Map

/-- the value a returned `Phrase` stands for (`last_used` of a `TrieBuf` answer is always `Some`) -/
def valOf (p : Phrase) : Val := (p.freq, p.lastUsed.getD 0)

/-- `l` is a correct answer to "look up the syllables `k`": exactly the live phrases of `k`, each
    once, each with the value the map holds -/
def IsLookup (m : Map) (k : Key) (l : List Phrase) : Prop :=
  (l.map (·.text)).Nodup ∧
  (∀ p ∈ l, m (k, p.text) = some (valOf p)) ∧
  (∀ t v, m (k, t) = some v → ∃ p ∈ l, p.text = t)

/-- `l` is a correct enumeration: exactly the live entries, each once -/
def IsEntries (m : Map) (l : List Entry) : Prop :=
  (l.map (fun e => (e.1, e.2.text))).Nodup ∧
  (∀ e ∈ l, m (e.1, e.2.text) = some (valOf e.2)) ∧
  (∀ k t v, m (k, t) = some v → ∃ e ∈ l, e.1 = k ∧ e.2.text = t)

/-- `l` is a correct answer to a *prefix* lookup, `mt key q` = "key matches the query `q`": one entry
    per phrase text that is live under some matching key, carrying the value of one such key and the
    highest frequency among them -/
def IsFuzzyLookup (mt : Key → Key → Bool) (m : Map) (q : Key) (l : List Phrase) : Prop :=
  (l.map (·.text)).Nodup ∧
  (∀ p ∈ l, ∃ key, mt key q = true ∧ m (key, p.text) = some (valOf p)) ∧
  (∀ key t v, mt key q = true → m (key, t) = some v → ∃ p ∈ l, p.text = t ∧ v.1 ≤ p.freq)

end Chewing.MapSpec
