/-!
# Ghost ownership model of the C context (C15)

A theorem cannot exhibit a read of freed memory; it can carry the ownership logic that decides whether one
happens.  This model gives every heap result and every stored iterator a ghost identity and validity and turns
a use of an invalid object into the value `Outcome.ub "<site>"`.  Core Lean only.

What is modelled (capi/src/io.rs, capi/src/public.rs):

* `OWNED : RwLock<BTreeMap<usize, Owned>>` — `owned`: address ↦ kind; `owned_into_raw` inserts (overwriting);
  `chewing_free` REMOVES the entry of the address (after `fix: chewing_free forgets …`; `stepStale` below keeps the
  earlier behaviour — look up only — for the recorded refutation) and rebuilds a `CString` / a `Vec<c_ushort>` of the
  registered kind.  `live` is the ghost heap: blocks handed out and not yet released, with their TRUE kind.
* `cand_iter`, `interval_iter`, `kbcompat_iter`, `userphrase_iter` — `Peekable` over data the iterator OWNS (a
  collected `Vec`; for the keyboard types a FUSED counter): `PeekVec` = items left + Peekable's one-element cache.
  Once exhausted a `PeekVec` stays exhausted — this is what `Vec::into_iter` guarantees and what `.fuse()` adds to
  `(0..).map_while(..)` since `fix: chewing_kbtype_String stops at the end of the enumeration`; the un-fused `u8`
  counter of the earlier code is `KbOld` below (recorded refutation: the 256th pull overflows).
* `userphrase_iter : Option<Peekable<vec::IntoIter<(Vec<Syllable>, Phrase)>>>` — since `fix:
  chewing_userphrase_enumerate takes a snapshot …` the entries are collected when the enumeration starts; `step`
  treats it like the other three.  The code BEFORE that fix stored `Peekable<Entries<'static>>`, a BORROW of the user
  dictionary (`'static` obtained from the raw context pointer); `stepBorrow` keeps that behaviour for the recorded
  refutation (finding F22): `UIter.epoch` is the generation of the dictionary storage the iterator was created over
  and `Ctx.epoch` is bumped by every exported function the translator classifies as possibly mutating the user
  dictionary (`Gen/CApi.lean: dictMutFns`); touching the INNER iterator (a `peek`/`next` with an empty cache) with a
  stale epoch was `ub "userphrase_iter"`.  Both fields are ghost state: `step` writes them and never reads them.
-/
namespace Chewing.Owned

/-- `enum Owned { CString, CUShortSlice(usize) }` -/
inductive Kind where
  | cstring
  | u16slice (len : Nat)
  deriving DecidableEq, Repr

inductive Outcome (α : Type) where
  | ok (a : α)
  | ub (site : String)
  deriving DecidableEq, Repr

/-- `Peekable` over an iterator that owns its data: `rest` items not yet pulled, `peeked` = the cache
(`none` empty, `some true` an item, `some false` a cached end) -/
structure PeekVec where
  rest : Nat
  peeked : Option Bool
  deriving DecidableEq, Repr

def PeekVec.new (n : Nat) : PeekVec := { rest := n, peeked := none }

/-- `Peekable::peek().is_some()` -/
def PeekVec.peek (p : PeekVec) : PeekVec × Bool :=
  match p.peeked with
  | some b => (p, b)
  | none => if 0 < p.rest then ({ rest := p.rest - 1, peeked := some true }, true)
            else ({ p with peeked := some false }, false)

/-- `Peekable::next().is_some()` -/
def PeekVec.next (p : PeekVec) : PeekVec × Bool :=
  match p.peeked with
  | some b => ({ p with peeked := none }, b)
  | none => if 0 < p.rest then ({ p with rest := p.rest - 1 }, true) else (p, false)

/-- the user-phrase iterator: a `PeekVec`; `epoch` (ghost, read by `stepBorrow` only) = the generation of the
dictionary at `chewing_userphrase_enumerate` -/
structure UIter where
  epoch : Nat
  it : PeekVec
  deriving DecidableEq, Repr

structure Ctx where
  /-- generation of the user-dictionary storage (ghost, read by `stepBorrow` only) -/
  epoch : Nat := 0
  uiter : Option UIter := none
  cand : Option PeekVec := none
  intv : Option PeekVec := none
  kbt : Option PeekVec := none
  /-- `OWNED`, most recent insertion first -/
  owned : List (Nat × Kind) := []
  /-- ghost heap: live results with their true kind -/
  live : List (Nat × Kind) := []
  deriving DecidableEq, Repr

def init : Ctx := {}

inductive Op where
  /-- any exported function that may mutate the user dictionary (keys, userphrase_add/remove, choose, commit …) -/
  | mutate
  /-- any other exported function without an arm below: touches no stored iterator and no registry -/
  | other
  /-- `chewing_Reset` (since the C17 fix): drops the four stored iterators -/
  | reset
  | upEnumerate (n : Nat)
  | upHasNext
  | upGet
  | candEnumerate (selecting : Bool) (n : Nat)
  | candHasNext (selecting : Bool)
  /-- `chewing_cand_String`: returns a fresh `CString` at `addr` -/
  | candString (addr : Nat)
  | candStringStatic
  | intvEnumerate (n : Nat)
  | intvHasNext
  | intvGet
  | kbEnumerate (n : Nat)
  | kbHasNext
  | kbString (addr : Nat)
  | kbStringStatic
  /-- any other heap getter: a fresh block of the given true kind at `addr`, registered by `owned_into_raw` -/
  | heapGet (addr : Nat) (kind : Kind)
  | free (addr : Nat)
  deriving DecidableEq, Repr

/-- what the caller sees: an integer return value, `1`/`0` for "non-empty text / interval written" -/
abbrev Res := Int

def lookup (a : Nat) : List (Nat × Kind) → Option Kind
  | [] => none
  | (b, k) :: r => if a = b then some k else lookup a r

/-- does a block of this kind occupy heap memory (`Box<[u16]>` of length 0 does not) -/
def Kind.allocates : Kind → Bool
  | .cstring => true
  | .u16slice n => 0 < n

/-- `BTreeMap::remove` -/
def erase (a : Nat) (l : List (Nat × Kind)) : List (Nat × Kind) := l.filter (fun e => e.1 != a)

/-- `owned_into_raw` (`BTreeMap::insert`: replaces an entry of the same address) + the ghost heap -/
def register (c : Ctx) (addr : Nat) (k : Kind) : Ctx :=
  { c with owned := (addr, k) :: erase addr c.owned,
           live := if k.allocates then (addr, k) :: c.live else c.live }

def bool2res (b : Bool) : Res := if b then 1 else 0

/-- code before the F22 fix: inner access of the user-phrase iterator was valid only on the generation it was created over -/
def uFresh (c : Ctx) (u : UIter) : Bool := u.epoch == c.epoch

/-- `chewing_free(addr)`.  `removes` = the registry entry is removed (current code) or only looked up (old code). -/
def freeStep (removes : Bool) (c : Ctx) (addr : Nat) : Outcome (Ctx × Res) :=
  if addr = 0 then .ok (c, 0)
  else match lookup addr c.owned with
    | none => .ok (c, 0)                         -- not a result of the library (or already released): ignored
    | some k =>
      let c1 : Ctx := if removes then { c with owned := erase addr c.owned } else c
      if !k.allocates then .ok (c1, 0)           -- empty u16 slice: `Vec` of capacity 0, nothing to release
      else match lookup addr c.live with
        | none => .ub "free-not-live"            -- the registry names a block that is not a live result
        | some k' =>
          if k = k' then .ok ({ c1 with live := erase addr c.live }, 0)
          else .ub "free-kind"                   -- rebuilt with another kind than it was allocated with

def step (c : Ctx) : Op → Outcome (Ctx × Res)
  | .mutate => .ok ({ c with epoch := c.epoch + 1 }, 0)
  | .other => .ok (c, 0)
  | .reset => .ok ({ c with uiter := none, cand := none, intv := none, kbt := none }, 0)
  -- user phrases (collected Vec: a snapshot taken at enumerate) -------------------------------------------
  | .upEnumerate n => .ok ({ c with uiter := some { epoch := c.epoch, it := PeekVec.new n } }, 0)
  | .upHasNext =>
    match c.uiter with
    | none => .ok (c, 0)
    | some u =>
      let (it', b) := u.it.peek
      if b then .ok ({ c with uiter := some { u with it := it' } }, 1)
      else .ok ({ c with uiter := none }, 0)
  | .upGet =>
    match c.uiter with
    | none => .ok (c, -1)
    | some u =>
      let (it', b) := u.it.next
      .ok ({ c with uiter := some { u with it := it' } }, if b then 0 else -1)
  -- candidates (collected Vec) ------------------------------------------------------------------------------
  | .candEnumerate sel n => .ok (if sel then { c with cand := some (PeekVec.new n) } else c, 0)
  | .candHasNext sel =>
    if !sel then .ok (c, 0)
    else match c.cand with
      | none => .ok (c, 0)
      | some p => let (p', b) := p.peek; .ok ({ c with cand := some p' }, bool2res b)
  | .candString addr =>
    match c.cand with
    | none => .ok (register c addr .cstring, 0)
    | some p => let (p', b) := p.next; .ok (register { c with cand := some p' } addr .cstring, bool2res b)
  | .candStringStatic =>
    match c.cand with
    | none => .ok (c, 0)
    | some p => let (p', b) := p.next; .ok ({ c with cand := some p' }, bool2res b)
  -- intervals (iterator owns a Vec<Interval>) ------------------------------------------------------------
  | .intvEnumerate n => .ok ({ c with intv := some (PeekVec.new n) }, 0)
  | .intvHasNext =>
    match c.intv with
    | none => .ok (c, 0)
    | some p => let (p', b) := p.peek; .ok ({ c with intv := some p' }, bool2res b)
  | .intvGet =>
    match c.intv with
    | none => .ok (c, 0)
    | some p => let (p', b) := p.next; .ok ({ c with intv := some p' }, bool2res b)
  -- keyboard types (iterator owns a fused counter) ---------------------------------------------------------
  | .kbEnumerate n => .ok ({ c with kbt := some (PeekVec.new n) }, 0)
  | .kbHasNext =>
    match c.kbt with
    | none => .ok (c, 0)
    | some p => let (p', b) := p.peek; .ok ({ c with kbt := some p' }, bool2res b)
  | .kbString addr =>
    match c.kbt with
    | none => .ok (register c addr .cstring, 0)
    | some p => let (p', b) := p.next; .ok (register { c with kbt := some p' } addr .cstring, bool2res b)
  | .kbStringStatic =>
    match c.kbt with
    | none => .ok (c, 0)
    | some p => let (p', b) := p.next; .ok ({ c with kbt := some p' }, bool2res b)
  -- registry ------------------------------------------------------------------------------------------------
  | .heapGet addr k => .ok (register c addr k, 0)
  | .free addr => freeStep true c addr

/-- the code before `fix: chewing_free forgets …`: identical, except that `chewing_free` leaves the registry entry -/
def stepOld (c : Ctx) : Op → Outcome (Ctx × Res)
  | .free addr => freeStep false c addr
  | op => step c op

/-- the code before `fix: chewing_userphrase_enumerate takes a snapshot …` (finding F22): identical, except that the
stored user-phrase iterator borrowed the dictionary — pulling from it after a possibly-mutating call was undefined -/
def stepBorrow (c : Ctx) : Op → Outcome (Ctx × Res)
  | .upHasNext =>
    match c.uiter with
    | none => .ok (c, 0)
    | some u => if u.it.peeked.isNone && !uFresh c u then .ub "userphrase_iter" else step c .upHasNext
  | .upGet =>
    match c.uiter with
    | none => .ok (c, -1)
    | some u => if u.it.peeked.isNone && !uFresh c u then .ub "userphrase_iter" else step c .upGet
  | op => step c op

/-- the results of a defined history -/
def Outcome.results : Outcome (Ctx × List Res) → Option (List Res)
  | .ok (_, rs) => some rs
  | .ub _ => none

/-- run a history under a given step function -/
def runWith (st : Ctx → Op → Outcome (Ctx × Res)) : Ctx → List Op → Outcome (Ctx × List Res)
  | c, [] => .ok (c, [])
  | c, op :: ops =>
    match st c op with
    | .ub s => .ub s
    | .ok (c', r) =>
      match runWith st c' ops with
      | .ub s => .ub s
      | .ok (c'', rs) => .ok (c'', r :: rs)

/-- run a history; the index of the first undefined step and its site, or the final state and the results -/
def run : Ctx → List Op → Outcome (Ctx × List Res)
  | c, [] => .ok (c, [])
  | c, op :: ops =>
    match step c op with
    | .ub s => .ub s
    | .ok (c', r) =>
      match run c' ops with
      | .ub s => .ub s
      | .ok (c'', rs) => .ok (c'', r :: rs)

/-! ### the un-fused keyboard-type counter of the earlier code

`(0..).map_while(|id| KeyboardLayoutCompat::try_from(id).ok())` over `u8`, not fused: `RangeFrom<u8>::next` computes
`start + 1` before it yields `start`, and `MapWhile` keeps pulling after it has answered `None`. -/

/-- `RangeFrom<u8>` inside `MapWhile`: `start` = the next id; `valid` ids are `0 .. valid-1` -/
structure KbOld where
  start : Nat
  valid : Nat
  deriving DecidableEq, Repr

/-- one pull of the inner iterator: `none` = the process aborts ("attempt to add with overflow", debug build; a release
build wraps to 0 and the enumeration starts again), else the new state and `is_some()` -/
def KbOld.pull (k : KbOld) : Option (KbOld × Bool) :=
  if k.start + 1 ≥ 256 then none else some ({ k with start := k.start + 1 }, decide (k.start < k.valid))

/-- `n` pulls (what `n` calls of `chewing_kbtype_String[_static]` do: Peekable's cache is empty between them) -/
def KbOld.pulls : Nat → KbOld → Option (KbOld × List Bool)
  | 0, k => some (k, [])
  | n + 1, k =>
    match k.pull with
    | none => none
    | some (k', b) => (KbOld.pulls n k').map fun r => (r.1, b :: r.2)

/-- allocator's side of the heap contract at one step: the allocator never returns an address that is still live
(nor NULL).  `chewing_free` has NO precondition: any pointer may be passed, any number of times. -/
def heapOk (c : Ctx) : Op → Bool
  | .candString a => a != 0 && (lookup a c.live).isNone
  | .kbString a => a != 0 && (lookup a c.live).isNone
  | .heapGet a _ => a != 0 && (lookup a c.live).isNone
  | _ => true

/-- the heap contract along a history (evaluated on the model's own states) -/
def heapOkRun : Ctx → List Op → Bool
  | _, [] => true
  | c, op :: ops =>
    heapOk c op &&
      match step c op with
      | .ok (c', _) => heapOkRun c' ops
      | .ub _ => true

end Chewing.Owned
